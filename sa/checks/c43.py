"""C43 -- the fp context matches mp's conventions for elementary functions.

Agreement "to 2^-48" is numerical and NOT decided.  Decided clauses, each a
necessary condition of "fp functions return Python numbers, return the
principal complex value for real arguments outside the real domain, and agree
with mp":

  F-R1  wrapper shape (math2._mathfun_real/_mathfun/_mathfun_n): every value
        the wrapper returns is f_real(..) or f_complex(..) applied to float(x)/
        complex(x) (or x itself under the exact-type test); for _mathfun and
        _mathfun_n the real call sits inside a try whose handler catches
        TypeError and ValueError and falls through to f_complex(complex(..))
  F-R2  sibling agreement: in every `name = _mathfun*(R, C)` the real and the
        complex implementation denote the same function: math.N / cmath.N with
        the same N (through domain-guard aliases), bodies equal after
        math->cmath and parameter renaming, or one of the enumerated
        componentwise / power forms; quadrant tables of the *pi functions agree
        between the real and complex siblings and with the reduction identity
  F-R3  domain discipline: a real implementation installed with
        _mathfun_real (float fast path outside the try) is total on finite
        floats; one installed with _mathfun/_mathfun_n is total-and-principal,
        or raises ValueError outside its real domain (so the complex fallback
        is taken).  Functions that silently return a non-principal value
        (math.cbrt: the real root of negatives) are the finding
  F-R4  fp slot table: every `NAME = staticmethod(math2.X)` in FPContext binds
        the slot to the like-named math2 function (alias map frozen), mpf =
        float, mpc = complex, convert returns float(x) or complex(x)
  F-R5  nothing in ctx_fp.py / math2.py returns an mp number: every libmp
        kernel result is converted with to_float/to_complex before it is
        stored or returned
  F-R6  branch cuts: the complex fallback of acos/asin (cut on the real axis
        beyond [-1, 1], where cmath takes the side from the sign of the zero
        imaginary part and mp continues from the other side for x > 1) is not
        the bare cmath function
"""
import ast

from ..index import AnalysisError, norm
from ..prec_effect import _walk_own
from ..report import Finding

MATH2 = 'mpmath/math2.py'
CTXFP = 'mpmath/ctx_fp.py'

# math functions by behaviour on finite float arguments (CPython documentation)
TOTAL = {'exp', 'cos', 'sin', 'tan', 'atan', 'cosh', 'sinh', 'tanh', 'floor', 'ceil', 'asinh',
         'erf', 'erfc', 'expm1', 'exp2', 'degrees', 'radians', 'trunc', 'fabs'}
# raise ValueError outside the real domain (-> complex fallback is taken)
RAISES = {'sqrt', 'log', 'log10', 'log2', 'log1p', 'acos', 'asin', 'acosh', 'atanh', 'pow'}
# total but NOT the principal value outside the real domain
NONPRINCIPAL = {'cbrt': 'math.cbrt returns the real cube root of a negative number; the principal '
                        'value is complex'}
# fp slot -> math2 name
SLOT_ALIAS = {'power': 'pow', 'ln': 'log', 'log': 'log', 'fac': 'factorial', 'factorial': 'factorial',
              '_nthroot': 'nthroot', '_ei': 'ei', '_e1': 'e1', '_zeta': 'zeta', '_zeta_int': 'zeta',
              '_erf': 'erf', '_erfc': 'erfc'}
# functions whose complex fallback is entered ON a branch cut for ordinary (+0.0) arguments, with the axis
# of the cut and the side condition under which mp's value needs the NEGATIVE zero
REQUIRED_SLOTS = ('sqrt', 'exp', 'log', 'power', 'cos', 'sin', 'tan', 'acos', 'asin', 'atan', 'cosh', 'sinh',
                  'tanh', 'acosh', 'asinh', 'atanh', 'cbrt', 'cospi', 'sinpi')
CUT_FUNCS = {'acos': 'real', 'asin': 'real', 'atanh': 'real', 'atan': 'imag', 'asinh': 'imag'}
NEG_ZERO_SIDE = {'real': '%s.real > 0', 'imag': '%s.imag < 0'}
# functions whose cut is the real axis below a point: mp continues from above (zero imaginary part taken as +0)
NEG_CUT_FUNCS = {'sqrt': 0.0, 'log': 0.0, 'pow': 0.0, 'cbrt': 0.0, 'acosh': 1.0}
# math2 bindings that are not elementary functions (outside the scope of the property's last clause;
# their pairing is a hand-written real/complex algorithm, not a math/cmath sibling pair)
NOT_ELEMENTARY = {'gamma': 'special function', 'rgamma': 'special function', 'digamma': 'special function',
                  'factorial': 'special function', 'loggamma': 'special function', 'erf': 'special function',
                  'erfc': 'special function', 'ei': 'special function', 'e1': 'special function',
                  'zeta': 'special function'}
KERNEL_PREFIXES = ('mpf_', 'mpc_')
CONVERTERS = ('to_float', 'to_complex', 'to_int', 'to_str', 'float', 'complex', 'int')


def F(rule, file, qn, node_or_text, reason, line=None):
    site = node_or_text if isinstance(node_or_text, str) else norm(node_or_text)
    if line is None and not isinstance(node_or_text, str):
        line = getattr(node_or_text, 'lineno', None)
    return Finding(rule, file, qn, site, reason, line=line)


# --------------------------------------------------------------------------- F-R1
def check_wrappers(run, ix):
    m = ix.module(MATH2)
    for wname in ('_mathfun_real', '_mathfun', '_mathfun_n'):
        w = m.funcs.get(wname)
        if w is None:
            raise AnalysisError('math2.%s vanished' % wname)
        inner = [f for f in w.nested if isinstance(f.node, ast.FunctionDef)]
        rets = [x for x in _walk_own(w.node) if isinstance(x, ast.Return)]
        if len(inner) != 1 or len(rets) != 1 or norm(rets[0].value) != inner[0].name:
            run.fail(F('F-R1', MATH2, wname, w.node, 'wrapper does not return its single inner function'))
            continue
        f = inner[0]
        fr, fc = w.params[0], w.params[1]
        arg = f.params[0] if f.params else f.vararg
        # every return is a call of f_real / f_complex
        for r in [x for x in _walk_own(f.node) if isinstance(x, ast.Return)]:
            v = r.value
            if not (isinstance(v, ast.Call) and isinstance(v.func, ast.Name) and v.func.id in (fr, fc)):
                run.fail(F('F-R1', MATH2, f.qualname, r, 'wrapper returns something other than the result '
                           'of its real or complex implementation'))
                continue
            run.ok('F-R1', '%s: %s' % (f.qualname, norm(r)))
        # the real call: inside try unless guarded by the exact float type test
        real_calls = [x for x in _walk_own(f.node) if isinstance(x, ast.Call) and
                      isinstance(x.func, ast.Name) and x.func.id == fr]
        cplx_calls = [x for x in _walk_own(f.node) if isinstance(x, ast.Call) and
                      isinstance(x.func, ast.Name) and x.func.id == fc]
        if not real_calls or not cplx_calls:
            run.fail(F('F-R1', MATH2, f.qualname, f.node, 'wrapper does not call both implementations'))
            continue
        n_try = 0
        for c in real_calls:
            t = enclosing_try_body(c, f.node)
            if t is None:
                # allowed only under `if type(x) is float`
                g = enclosing_if(c, f.node)
                if g is not None and norm(g.test) == 'type(%s) is float' % arg and wname == '_mathfun_real':
                    run.ok('F-R1', '%s: fast path under exact float test' % f.qualname)
                    continue
                run.fail(F('F-R1', MATH2, f.qualname, c, 'the real implementation is called outside the '
                           'try/except that provides the complex fallback'))
                continue
            n_try += 1
            caught = set()
            falls = False
            for h in t.handlers:
                names = []
                if h.type is None:
                    names = ['TypeError', 'ValueError']
                elif isinstance(h.type, ast.Tuple):
                    names = [norm(e) for e in h.type.elts]
                else:
                    names = [norm(h.type)]
                if 'Exception' in names or 'BaseException' in names:
                    names += ['TypeError', 'ValueError']
                hcalls = [x for st in h.body for x in ast.walk(st) if isinstance(x, ast.Call) and
                          isinstance(x.func, ast.Name) and x.func.id == fc]
                if hcalls:
                    caught.update(names)
                    falls = True
            if falls and {'TypeError', 'ValueError'} <= caught:
                run.ok('F-R1', '%s: real call inside try with (TypeError, ValueError) -> complex fallback'
                       % f.qualname)
            else:
                run.fail(F('F-R1', MATH2, f.qualname, t, 'the try around the real implementation does not '
                           'route both TypeError and ValueError to the complex implementation (caught: %s)'
                           % sorted(caught)))
        if n_try == 0:
            run.fail(F('F-R1', MATH2, f.qualname, f.node, 'no real call with a complex fallback'))
        # conversions: arguments of the calls are float(..)/complex(..) of the input or the input itself
        for c in real_calls + cplx_calls:
            conv = 'float' if c.func.id == fr else 'complex'
            for a in c.args:
                t = a.value if isinstance(a, ast.Starred) else a
                if isinstance(t, ast.Name):
                    continue          # x after `x = float(x)` or under the type test
                txt = norm(t)
                if txt.startswith(conv + '('):
                    continue
                if isinstance(t, ast.GeneratorExp) and norm(t.elt).startswith(conv + '('):
                    continue
                run.fail(F('F-R1', MATH2, f.qualname, c, 'argument of the %s implementation is not '
                           'converted with %s()' % ('real' if conv == 'float' else 'complex', conv)))


def enclosing_try_body(node, stop):
    """innermost Try whose *body* contains node"""
    p = getattr(node, '_parent', None)
    child = node
    while p is not None and child is not stop:
        if isinstance(p, ast.Try) and any(child is st for st in p.body):
            return p
        child = p
        p = getattr(p, '_parent', None)
    return None


def enclosing_if(node, stop):
    p = getattr(node, '_parent', None)
    child = node
    while p is not None and child is not stop:
        if isinstance(p, ast.If) and any(child is st for st in p.body):
            return p
        child = p
        p = getattr(p, '_parent', None)
    return None


# --------------------------------------------------------------------------- resolution inside math2
class M2(object):
    def __init__(self, ix):
        self.m = ix.module(MATH2)
        self.assigns = {}
        for name, value, st, guards in self.m.toplevel_assigns:
            self.assigns.setdefault(name, []).append((value, st, guards))

    def bindings(self):
        """(name, wrapper, real expr, complex expr, stmt) for name = _mathfun*(R, C)"""
        out = []
        for name, lst in self.assigns.items():
            for value, st, guards in lst:
                if isinstance(value, ast.Call) and isinstance(value.func, ast.Name) and \
                        value.func.id in ('_mathfun_real', '_mathfun', '_mathfun_n') and len(value.args) == 2:
                    out.append((name, value.func.id, value.args[0], value.args[1], st))
        return out

    def resolve(self, expr, depth=0):
        """-> list of ('math'|'cmath'|'operator', attr) | ('lambda', node) | ('def', Func) | ('?', text);
        one entry per alternative binding (try/except or if/else alternatives)"""
        if depth > 4:
            return [('?', norm(expr))]
        if isinstance(expr, ast.Attribute) and isinstance(expr.value, ast.Name) and \
                expr.value.id in ('math', 'cmath', 'operator'):
            return [(expr.value.id, expr.attr)]
        if isinstance(expr, ast.Lambda):
            return [('lambda', expr)]
        if isinstance(expr, ast.Name):
            out = []
            defs = [f for qn, f in self.m.funcs.items() if f.name == expr.id and f.parent is None and
                    f.cls is None and isinstance(f.node, ast.FunctionDef)]
            for f in defs:
                out.append(('def', f))
            for value, st, guards in self.assigns.get(expr.id, []):
                out.extend(self.resolve(value, depth + 1))
            if out:
                return out
        return [('?', norm(expr))]


def guard_alias_of(f):
    """def math_log(x): if x <= 0.0: raise ValueError(..); return math.log(x)  ->  ('math', 'log')
    (a domain guard that only raises ValueError in front of the plain call)"""
    body = [st for st in f.node.body if not (isinstance(st, ast.Expr) and isinstance(st.value, ast.Constant))]
    if not body or not isinstance(body[-1], ast.Return):
        return None
    v = body[-1].value
    if not (isinstance(v, ast.Call) and isinstance(v.func, ast.Attribute) and
            isinstance(v.func.value, ast.Name) and v.func.value.id in ('math', 'cmath') and
            len(v.args) == 1 and isinstance(v.args[0], ast.Name) and v.args[0].id == f.params[0]):
        return None
    for st in body[:-1]:
        if not (isinstance(st, ast.If) and not st.orelse and len(st.body) == 1 and
                isinstance(st.body[0], ast.Raise) and 'ValueError' in norm(st.body[0])):
            return None
    return (v.func.value.id, v.func.attr)


def canon_body(node, params):
    """text of an expression with math/cmath unified and parameters numbered"""
    ren = {p: '_p%d' % i for i, p in enumerate(params)}

    class T(ast.NodeTransformer):
        def visit_Name(self, n):
            if n.id in ren:
                return ast.copy_location(ast.Name(id=ren[n.id], ctx=n.ctx), n)
            if n.id == 'cmath':
                return ast.copy_location(ast.Name(id='math', ctx=n.ctx), n)
            return n
    import copy
    return norm(T().visit(copy.deepcopy(node)), 400)


# --------------------------------------------------------------------------- F-R2 / F-R3 / F-R6
def quadrant_table(f):
    """{n: (sign, 'sin'|'cos')} from `if n == k: return [-]math.fn(r)` statements of a *pi helper"""
    tab = {}

    def entry(v):
        sign = 1
        if isinstance(v, ast.UnaryOp) and isinstance(v.op, ast.USub):
            sign = -1
            v = v.operand
        if isinstance(v, ast.Call) and isinstance(v.func, ast.Attribute) and \
                isinstance(v.func.value, ast.Name) and v.func.value.id in ('math', 'cmath'):
            return (sign, v.func.attr, v.func.value.id)
        return None
    # the last quadrant may be the unconditional final return
    last = f.node.body[-1] if f.node.body else None
    if isinstance(last, ast.Return) and entry(last.value):
        seen = [st.test.comparators[0].value for st in f.node.body
                if isinstance(st, ast.If) and isinstance(st.test, ast.Compare) and len(st.test.ops) == 1 and
                isinstance(st.test.ops[0], ast.Eq) and isinstance(st.test.comparators[0], ast.Constant)]
        rest = [k for k in range(4) if k not in seen]
        if len(rest) == 1:
            tab[rest[0]] = entry(last.value)
    for st in f.node.body:
        if isinstance(st, ast.If) and isinstance(st.test, ast.Compare) and \
                len(st.test.ops) == 1 and isinstance(st.test.ops[0], ast.Eq) and \
                isinstance(st.test.comparators[0], ast.Constant) and len(st.body) == 1 and \
                isinstance(st.body[0], ast.Return):
            k = st.test.comparators[0].value
            v = st.body[0].value
            sign = 1
            if isinstance(v, ast.UnaryOp) and isinstance(v.op, ast.USub):
                sign = -1
                v = v.operand
            if isinstance(v, ast.Call) and isinstance(v.func, ast.Attribute) and \
                    isinstance(v.func.value, ast.Name) and v.func.value.id in ('math', 'cmath'):
                tab[k] = (sign, v.func.attr, v.func.value.id)
    return tab


# sin(pi*(n/2 + r)) and cos(pi*(n/2 + r)) for n mod 4, as (sign, fn of pi*r)
SINPI = {0: (1, 'sin'), 1: (1, 'cos'), 2: (-1, 'sin'), 3: (-1, 'cos')}
COSPI = {0: (1, 'cos'), 1: (-1, 'sin'), 2: (-1, 'cos'), 3: (1, 'sin')}


def check_bindings(run, ix):
    m2 = M2(ix)
    binds = m2.bindings()
    for name, wrapper, rexp, cexp, st in sorted(binds, key=lambda b: b[4].lineno):
        if name in NOT_ELEMENTARY:
            run.stats.setdefault('out_of_scope_bindings', []).append(name)
            continue
        ralts = m2.resolve(rexp)
        calts = m2.resolve(cexp)
        # ---- F-R3 domain discipline of the real implementation --------------------------
        for kind, what in ralts:
            verdict = classify_real(kind, what, m2)
            if verdict[0] == 'nonprincipal':
                run.fail(F('F-R3', MATH2, name, st, 'real implementation %s' % verdict[1]))
            elif verdict[0] == 'unknown':
                run.fail(F('F-R3', MATH2, name, st, 'real implementation %s is not a function whose '
                           'behaviour outside its real domain is known (total, or raising ValueError): '
                           'the complex fallback cannot be shown to be taken' % verdict[1]))
            elif verdict[0] == 'raises' and wrapper == '_mathfun_real':
                run.fail(F('F-R3', MATH2, name, st, 'partial real function %s is installed with '
                           '_mathfun_real, whose float fast path has no complex fallback: a float outside '
                           'the real domain raises instead of giving the principal value' % verdict[1]))
            else:
                run.ok('F-R3', '%s: real implementation %s (%s) under %s' % (name, verdict[1], verdict[0], wrapper))
        # ---- F-R2 sibling agreement ---------------------------------------------------------
        agree, why = siblings_agree(name, ralts, calts, m2)
        if agree:
            run.ok('F-R2', '%s: %s' % (name, why))
        else:
            run.fail(F('F-R2', MATH2, name, st, 'real and complex implementations are not the same '
                       'function: %s' % why))
        # ---- F-R6 branch cut --------------------------------------------------------------
        for kind, what in calts:
            if kind == 'cmath' and what in CUT_FUNCS:
                axis = CUT_FUNCS[what]
                run.fail(F('F-R6', MATH2, name, st, 'complex fallback is the bare cmath.%s: %s and returns the value '
                           'from the other side of the cut than mp.%s' % (what, (
                               'for a real argument x > 1 it is entered with imaginary part +0.0' if axis == 'real' else
                               'for an argument -iy, y > 1, it is entered with real part +0.0'), what)))
            elif name in CUT_FUNCS:
                why = cut_helper_problem(cexp, CUT_FUNCS[name], m2)
                if why:
                    run.fail(F('F-R6', MATH2, name, st, why))
                else:
                    run.ok('F-R6', '%s: argument normalised onto mp\'s side of the %s-axis cut' % (name, CUT_FUNCS[name]))
        if name in NEG_CUT_FUNCS:
            why = neg_cut_problem(name, cexp, NEG_CUT_FUNCS[name], m2)
            if why:
                run.fail(F('F-R6', MATH2, name, st, why))
            else:
                run.ok('F-R6', '%s: a zero imaginary part on the cut x < %g is taken as +0 (mp\'s side)'
                       % (name, NEG_CUT_FUNCS[name]))
    return binds


def cut_helper_problem(cexp, axis, m2):
    """the complex fallback is cmath.f(helper(z)); the helper rewrites only a zero part, and gives it the
    negative sign exactly on the side where mp continues from the other side than cmath's +0.0 default:
    real axis: x > 1 (mp continues from below); imaginary axis: y < -1 (mp continues from the left)"""
    if not isinstance(cexp, ast.Lambda):
        return None
    b = cexp.body
    if not (isinstance(b, ast.Call) and len(b.args) == 1 and isinstance(b.args[0], ast.Call) and
            isinstance(b.args[0].func, ast.Name)):
        return 'complex fallback is not cmath.f(<cut helper>(z))'
    h = [f for f in m2.m.funcs.values() if f.name == b.args[0].func.id and f.parent is None]
    if not h:
        return 'cut helper %s not found' % b.args[0].func.id
    h = h[0]
    p = h.params[0]
    zero_part = 'imag' if axis == 'real' else 'real'
    neg = pos = None
    for r in _walk_own(h.node):
        if not (isinstance(r, ast.Return) and isinstance(r.value, ast.Call) and norm(r.value.func) == 'complex'):
            continue
        z = r.value.args[1] if axis == 'real' else r.value.args[0]
        keep = r.value.args[0] if axis == 'real' else r.value.args[1]
        if norm(keep) != '%s.%s' % (p, 'real' if axis == 'real' else 'imag'):
            return 'helper %s rewrites the %s part on a cut that lies on the %s axis' % (h.name, axis, axis)
        if isinstance(z, ast.UnaryOp) and isinstance(z.op, ast.USub):
            neg = r
        else:
            pos = r
    if neg is None or pos is None:
        return 'helper %s does not choose between -0.0 and +0.0 for the zero %s part' % (h.name, zero_part)
    par = neg._parent
    want = NEG_ZERO_SIDE[axis] % p
    if not (isinstance(par, ast.If) and neg in par.body and norm(par.test) == want):
        return ('helper %s gives the zero %s part the negative sign under `%s`; mp\'s side of the cut needs it '
                'exactly under `%s`' % (h.name, zero_part, norm(par.test) if isinstance(par, ast.If) else '?', want))
    return None


def neg_cut_problem(name, cexp, below, m2):
    """sqrt, log, the powers and cbrt are cut along x < 0, acosh along x < 1; mp (no signed zeros) continues from
    above.  The complex alternative must pass its argument (the base, for a power) through a helper that
    returns complex(p.real, 0.0) exactly under `p.imag == 0 and p.real < <below>`, with `below` as required."""
    calls = [c for c in ast.walk(cexp) if isinstance(c, ast.Call) and isinstance(c.func, ast.Name)
             and c.func.id.endswith('_cut')]
    if not calls:
        return ('the complex fallback of %s takes its argument as it is: for complex(x, -0.0) with x < %g cmath '
                'continues the cut from below and returns the conjugate of the mp value (fp.sqrt(complex(-4.0, -0.0)) '
                '== -2j, mp gives 2j)' % (name, below))
    for c in calls:
        h = [f for f in m2.m.funcs.values() if f.name == c.func.id and f.parent is None]
        if not h:
            return 'cut helper %s not found' % c.func.id
        h = h[0]
        p = h.params[0]
        # the threshold: second argument of the call, else the default of the helper's second parameter
        thr = None
        if len(c.args) > 1 and isinstance(c.args[1], ast.Constant):
            thr = c.args[1].value
        elif len(h.params) > 1 and h.node.args.defaults and isinstance(h.node.args.defaults[-1], ast.Constant):
            thr = h.node.args.defaults[-1].value
            bname = h.params[1]
        elif len(h.params) == 1:
            thr = 'literal'
        rets = [r for r in _walk_own(h.node) if isinstance(r, ast.Return) and isinstance(r.value, ast.Call)
                and norm(r.value.func) == 'complex']
        if len(rets) != 1:
            return 'helper %s does not rewrite exactly one case' % h.name
        r = rets[0]
        if norm(r.value.args[0]) != p + '.real' or not (isinstance(r.value.args[1], ast.Constant)
                                                         and r.value.args[1].value == 0 and
                                                         str(r.value.args[1].value)[0] != '-'):
            return 'helper %s does not return complex(%s.real, +0.0)' % (h.name, p)
        par = r._parent
        if not isinstance(par, ast.If) or r not in par.body:
            return 'helper %s rewrites unconditionally' % h.name
        t = norm(par.test)
        ok_forms = []
        if len(h.params) > 1:
            ok_forms.append('%s.imag == 0 and %s.real < %s' % (p, p, h.params[1]))
        ok_forms.append('%s.imag == 0 and %s.real < %s' % (p, p, below))
        ok_forms.append('%s.imag == 0 and %s.real < %d' % (p, p, int(below)))
        if t not in ok_forms:
            return 'helper %s rewrites under `%s`; the cut of %s needs `%s`' % (h.name, t, name, ok_forms[-2])
        if thr != 'literal' and float(thr) != float(below):
            return ('%s passes the threshold %s to %s; its cut is x < %g (acosh is cut below 1, the others below 0)'
                    % (name, thr, h.name, below))
    return None


def classify_real(kind, what, m2):
    if kind == 'math':
        if what in TOTAL:
            return ('total', 'math.' + what)
        if what in RAISES:
            return ('raises', 'math.' + what)
        if what in NONPRINCIPAL:
            return ('nonprincipal', NONPRINCIPAL[what])
        return ('unknown', 'math.' + what)
    if kind == 'operator':
        if what == 'pow':
            return ('principal', 'operator.pow (float ** float gives the principal complex power)')
        return ('unknown', 'operator.' + what)
    if kind == 'def':
        ga = guard_alias_of(what)
        if ga is not None:
            return classify_real(ga[0], ga[1], m2)[0:1] + ('%s (domain guard around %s.%s)' % (what.name, ga[0], ga[1]),)
        return classify_body(what.node, what.name)
    if kind == 'lambda':
        return classify_body(what, 'lambda')
    return ('unknown', what)


def classify_body(node, label):
    """a def/lambda: every math.X it mentions must be total (then the composite is total);
    `**` is principal"""
    worst = 'total'
    for x in ast.walk(node):
        if isinstance(x, ast.Attribute) and isinstance(x.value, ast.Name) and x.value.id == 'math':
            if x.attr in NONPRINCIPAL:
                return ('nonprincipal', '%s uses %s' % (label, NONPRINCIPAL[x.attr]))
            if x.attr in RAISES:
                worst = 'raises'
            elif x.attr not in TOTAL and x.attr not in ('pi', 'e', 'inf', 'nan'):
                return ('unknown', '%s uses math.%s' % (label, x.attr))
    return (worst, label)


def siblings_agree(name, ralts, calts, m2):
    notes = []
    for rk, rw in ralts:
        for ck, cw in calts:
            ok, why = pair_agrees(name, rk, rw, ck, cw, m2)
            if not ok:
                return False, why
            notes.append(why)
    return True, '; '.join(sorted(set(notes)))


def strip_cut_helpers(e, m2):
    """the expression with every call H(x[, const]) of a value-preserving cut helper replaced by x"""
    class T(ast.NodeTransformer):
        def visit_Call(self, c):
            self.generic_visit(c)
            if isinstance(c.func, ast.Name) and 1 <= len(c.args) <= 2 and \
                    all(isinstance(a, ast.Constant) for a in c.args[1:]):
                h = [f for f in m2.m.funcs.values() if f.name == c.func.id and f.parent is None]
                if h and h[0].name.endswith('_cut') and helper_preserves_value(h[0]):
                    return c.args[0]
            return c
    import copy
    return ast.fix_missing_locations(T().visit(copy.deepcopy(e)))


def pair_agrees(name, rk, rw, ck, cw, m2):
    if ck == 'lambda' and name in NEG_CUT_FUNCS:
        # the complex alternative with its cut helper removed must be the plain sibling
        body = strip_cut_helpers(cw.body, m2)
        ps = [a.arg for a in cw.args.args]
        va = cw.args.vararg.arg if cw.args.vararg else None
        t = norm(body, 200)
        if rk == 'def':
            ga0 = guard_alias_of(rw)
        else:
            ga0 = None
        real_name = rw if rk == 'math' else (ga0[1] if ga0 else None)
        if real_name and len(ps) == 1 and t == 'cmath.%s(%s)' % (real_name, ps[0]):
            return True, 'math.%s / cmath.%s (argument through a zero-sign helper)' % (real_name, real_name)
        if real_name and va and t == 'cmath.%s(*[z for z in %s])' % (real_name, va):
            return True, 'math.%s / cmath.%s on every argument (through a zero-sign helper)' % (real_name, real_name)
        if rk == 'operator' and rw == 'pow' and len(ps) == 2 and t in ('complex(%s) ** %s' % (ps[0], ps[1]),
                                                                        '%s ** %s' % (ps[0], ps[1])):
            return True, 'operator.pow / complex power (base through a zero-sign helper)'
        if rk == 'def' and len(ps) == 1 and t == '%s(%s)' % (rw.name, ps[0]):
            return True, '%s on both sides (complex argument through a zero-sign helper)' % rw.name
    if rk == 'def':
        ga = guard_alias_of(rw)
        if ga is not None:
            rk, rw = ga
    if rk == 'math' and ck == 'cmath':
        if rw == cw:
            return True, 'math.%s / cmath.%s' % (rw, cw)
        return False, 'math.%s is paired with cmath.%s' % (rw, cw)
    if rk == 'lambda' and ck == 'lambda':
        rp = [a.arg for a in rw.args.args]
        cp = [a.arg for a in cw.args.args]
        a, b = canon_body(rw.body, rp), canon_body(cw.body, cp)
        if a == b:
            return True, 'lambda bodies equal modulo math/cmath'
        # power form: operator.pow-like `complex(x) ** y` handled below
        return False, 'lambda bodies differ: %s vs %s' % (a, b)
    if rk == 'math' and ck == 'lambda':
        if not cw.args.args:
            return False, 'math.%s paired with %s' % (rw, norm(cw.body, 80))
        # componentwise extension: complex(math.N(z.real), math.N(z.imag))
        p = cw.args.args[0].arg
        want = 'complex(math.%s(%s.real), math.%s(%s.imag))' % (rw, p, rw, p)
        if norm(cw.body) == want and rw in ('floor', 'ceil'):
            return True, 'componentwise math.%s' % rw
        # cut helper: cmath.N(helper(z)) with the same N
        b = cw.body
        if isinstance(b, ast.Call) and isinstance(b.func, ast.Attribute) and \
                isinstance(b.func.value, ast.Name) and b.func.value.id == 'cmath' and len(b.args) == 1:
            if b.func.attr != rw:
                return False, 'math.%s is paired with cmath.%s' % (rw, b.func.attr)
            a = b.args[0]
            if isinstance(a, ast.Name) and a.id == p:
                return True, 'math.%s / cmath.%s' % (rw, rw)
            if isinstance(a, ast.Call) and isinstance(a.func, ast.Name) and len(a.args) == 1 and \
                    isinstance(a.args[0], ast.Name) and a.args[0].id == p:
                h = [f for f in m2.m.funcs.values() if f.name == a.func.id and f.parent is None]
                if h and helper_preserves_value(h[0]):
                    return True, 'math.%s / cmath.%s through %s (changes only the sign of a zero ' \
                                 'imaginary part)' % (rw, rw, a.func.id)
                return False, 'argument of cmath.%s is transformed by %s, which is not value-preserving' \
                    % (rw, a.func.id)
        return False, 'math.%s paired with %s' % (rw, norm(cw.body, 80))
    if rk == 'operator' and rw == 'pow' and ck == 'lambda':
        ps = [a.arg for a in cw.args.args]
        if len(ps) == 2 and norm(cw.body) in ('complex(%s) ** %s' % (ps[0], ps[1]),
                                              '%s ** %s' % (ps[0], ps[1])):
            return True, 'operator.pow / complex power'
        return False, 'operator.pow paired with %s' % norm(cw.body, 80)
    if rk == 'def' and ck == 'def':
        rt, ct = quadrant_table(rw), quadrant_table(cw)
        if rt and ct:
            if sorted(rt) != [0, 1, 2, 3] or sorted(ct) != [0, 1, 2, 3]:
                return False, 'quadrant table of %s/%s does not cover n = 0..3' % (rw.name, cw.name)
            for k in range(4):
                if rt[k][:2] != ct[k][:2]:
                    return False, 'quadrant %d: %s returns %s%s, %s returns %s%s' % (
                        k, rw.name, '-' if rt[k][0] < 0 else '', rt[k][1],
                        cw.name, '-' if ct[k][0] < 0 else '', ct[k][1])
                if rt[k][2] != 'math' or ct[k][2] != 'cmath':
                    return False, 'quadrant %d uses the wrong module' % k
            ident = SINPI if 'sin' in name else COSPI if 'cos' in name else None
            if ident is not None:
                for k in range(4):
                    if rt[k][:2] != ident[k]:
                        return False, 'quadrant %d of %s is %s%s; the reduction identity for %s requires %s%s' % (
                            k, rw.name, '-' if rt[k][0] < 0 else '', rt[k][1], name,
                            '-' if ident[k][0] < 0 else '', ident[k][1])
            return True, 'quadrant tables agree (and with the reduction identity)'
        a = canon_body(ast.Module(body=rw.node.body, type_ignores=[]), rw.params)
        b = canon_body(ast.Module(body=cw.node.body, type_ignores=[]), cw.params)
        if a == b:
            return True, 'def bodies equal modulo math/cmath'
        return False, 'def bodies differ'
    return False, 'unrecognised pairing %s:%s / %s:%s' % (rk, rw if isinstance(rw, str) else getattr(rw, 'name', 'lambda'),
                                                         ck, cw if isinstance(cw, str) else getattr(cw, 'name', 'lambda'))


def helper_preserves_value(f):
    """every return is the parameter itself or complex(p.real, <+-0.0 constant>) under a test that
    p.imag == 0: the helper may only choose the sign of a zero imaginary part"""
    p = f.params[0]
    rets = [x for x in _walk_own(f.node) if isinstance(x, ast.Return)]
    if not rets:
        return False
    for r in rets:
        v = r.value
        if isinstance(v, ast.Name) and v.id == p:
            continue
        part = None
        if isinstance(v, ast.Call) and norm(v.func) == 'complex' and len(v.args) == 2:
            if norm(v.args[0]) == p + '.real':
                part, z = 'imag', v.args[1]
            elif norm(v.args[1]) == p + '.imag':
                part, z = 'real', v.args[0]
        if part:
            if isinstance(z, ast.UnaryOp) and isinstance(z.op, (ast.USub, ast.UAdd)):
                z = z.operand
            if isinstance(z, ast.Constant) and z.value == 0:
                # must be dominated by a test that the imaginary part is zero
                q = r
                guarded = False
                while q is not None and q is not f.node:
                    par = getattr(q, '_parent', None)
                    if isinstance(par, ast.If) and any(q is s for s in par.body) and \
                            ('%s.%s == 0' % (p, part)) in norm(par.test, 300):
                        guarded = True
                    q = par
                if guarded:
                    continue
        return False
    return True


# --------------------------------------------------------------------------- F-R8
# Error amplification without guard digits.  The fp context computes in hardware doubles: there is no
# working precision to raise.  A construct whose conditioning multiplies the 2^-53 rounding error of an
# intermediate by an UNBOUNDED function of the argument cannot meet the 2^-48 bound for all doubles:
#   P  z ** w through exp(w * log z) (Python's complex power, and float ** for negative bases): the
#      error of log z is multiplied by |w log z|
#   S  cmath.sin / cmath.cos of pi * complex(r, y): exp(pi |y|) turns the rounding error of the product
#      pi * y, which is |pi y| * 2^-53, into a relative error
#   R  f(1 / z) with f' singular at +-1 (acos, asin, acosh, atanh): the rounding error of the reciprocal is
#      divided by sqrt(1 - t^2)
#   E  x ** (1/k) with the exponent a rounded non-dyadic constant: error |log x| * 2^-54, unless the result
#      is corrected afterwards (a Newton step)
SINGULAR_AT_ONE = ('acos', 'asin', 'acosh', 'atanh')


def check_amplification(run, ix):
    m2 = ix.module(MATH2)
    n = 0
    # P: the power binding
    for name, value, st, guards in m2.toplevel_assigns:
        if name == 'pow' and isinstance(value, ast.Call):
            for x in ast.walk(value):
                if isinstance(x, ast.BinOp) and isinstance(x.op, ast.Pow) or \
                        (isinstance(x, ast.Attribute) and norm(x) == 'operator.pow'):
                    n += 1
                    run.fail(F('F-R8', MATH2, 'pow', norm(x),
                               'power is the hardware `**`: for a complex base/exponent (and a negative base with a '
                               'non-integer exponent) it is exp(w*log z) in double precision, whose relative error '
                               '|w log z| * 2^-53 exceeds 2^-48 as soon as |w log z| > 32', line=st.lineno))
    # S and E inside the functions
    for f in m2.funcs.values():
        if not isinstance(f.node, ast.FunctionDef):
            continue
        for x in _walk_own(f.node):
            if isinstance(x, ast.Assign) and isinstance(x.value, ast.BinOp) and isinstance(x.value.op, ast.Mult) and \
                    'pi' in (norm(x.value.left), norm(x.value.right)) and '.imag' in norm(x.value) and \
                    any(isinstance(c, ast.Call) and norm(c.func) in ('cmath.sin', 'cmath.cos') for c in ast.walk(f.node)):
                n += 1
                run.fail(F('F-R8', MATH2, f.qualname, x,
                           'the imaginary part is multiplied by the rounded pi and fed to cmath.sin/cos: the relative '
                           'error of the result is |pi*Im z| * 2^-53, above 2^-48 for |Im z| > 10'))
            if isinstance(x, ast.BinOp) and isinstance(x.op, ast.Pow) and isinstance(x.right, ast.BinOp) and \
                    isinstance(x.right.op, ast.Div) and isinstance(x.right.left, ast.Constant) and \
                    isinstance(x.right.right, ast.Constant) and x.right.right.value not in (1, 2, 4, 8, 16):
                n += 1
                st = x
                while not isinstance(st, ast.stmt):
                    st = st._parent
                tgt = st.targets[0].id if isinstance(st, ast.Assign) and isinstance(st.targets[0], ast.Name) else None
                corrected = tgt is not None and any(
                    isinstance(y, ast.AugAssign) and norm(y.target) == tgt and isinstance(y.op, ast.Sub) and
                    tgt in norm(y.value) for y in _walk_own(f.node))
                if corrected:
                    run.ok('F-R8', '%s: %s is corrected by a Newton step' % (f.qualname, norm(x)))
                else:
                    run.fail(F('F-R8', MATH2, f.qualname, st,
                               'the exponent %s is a rounded constant: the result is off by |log x| * 2^-54 relative '
                               '(1.3e-14 at 1e300) and is not corrected afterwards' % norm(x.right)))
    # lambdas bound at module level (cbrt = _mathfun(lambda x: x**(1./3), ...))
    for name, value, st, guards in m2.toplevel_assigns:
        if name in NOT_ELEMENTARY or name == 'pow':
            continue
        for x in ast.walk(value):
            if isinstance(x, ast.Lambda):
                for y in ast.walk(x.body):
                    if isinstance(y, ast.BinOp) and isinstance(y.op, ast.Pow) and isinstance(y.right, ast.BinOp) and \
                            isinstance(y.right.op, ast.Div) and isinstance(y.right.right, ast.Constant) and \
                            y.right.right.value not in (1, 2, 4, 8, 16):
                        n += 1
                        run.fail(F('F-R8', MATH2, name, st,
                                   'the exponent %s is a rounded constant: the result is off by |log x| * 2^-54 '
                                   'relative (1.3e-14 at 1e300) and is not corrected' % norm(y.right)))
    # R: generic inverse functions
    rel = 'mpmath/functions/functions.py'
    for f in ix.module(rel).funcs.values():
        if f.parent is not None:
            continue
        # locals holding the reciprocal: w = ctx.one / z
        recip = set(norm(a.targets[0]) for a in _walk_own(f.node) if isinstance(a, ast.Assign) and
                    isinstance(a.value, ast.BinOp) and isinstance(a.value.op, ast.Div) and
                    norm(a.value.left) == 'ctx.one')
        seen_site = set()
        for x in _walk_own(f.node):
            direct = isinstance(x, ast.Call) and isinstance(x.func, ast.Attribute) and norm(x.func.value) == 'ctx' and \
                x.func.attr in SINGULAR_AT_ONE and len(x.args) == 1 and isinstance(x.args[0], ast.BinOp) and \
                isinstance(x.args[0].op, ast.Div) and norm(x.args[0].left) == 'ctx.one'
            through = isinstance(x, ast.Call) and isinstance(x.func, ast.Attribute) and norm(x.func.value) == 'ctx' and \
                x.func.attr in SINGULAR_AT_ONE and len(x.args) == 1 and norm(x.args[0]) in recip
            if direct or through:
                if norm(x) in seen_site:
                    continue
                seen_site.add(norm(x))
                n += 1
                run.fail(F('F-R8', rel, f.qualname, x,
                           '%s(1/z): the derivative of %s is singular at +-1, so the 2^-53 rounding error of the '
                           'reciprocal is divided by sqrt(1 - 1/z^2); on the fp context (no guard digits) the result '
                           'near |z| = 1 loses up to half of its digits' % (x.func.attr, x.func.attr)))
    if n < 5:
        raise AnalysisError('F-R8: amplification constructs not found (%d)' % n)


# --------------------------------------------------------------------------- F-R14
def check_asech_side(run, ix):
    """F-R14.  asech(z) = acosh(1/z), and acosh has the cut (-inf, 1).  For |z| > 1 the quotient lies next to that cut
    whenever im(z) is small against |z|**2 -- and in double precision im(1/z) = -im(z)/|z|**2 then UNDERFLOWS to a zero,
    so that acosh sees a point on the cut and continues it from above, whatever the side.  (The other reciprocal
    compositions have their cuts at |1/z| > 1, where nothing underflows.)  Decided: asech keeps the quotient in a
    local, tests `im(z) non-zero and im(w) zero`, evaluates acosh on the real part there and conjugates the result
    for im(z) > 0 (im(1/z) < 0: below the cut)."""
    run.rule('F-R14', floor=1, desc='asech selects the side of the cut from im(z) when im(1/z) has underflowed')
    rel = 'mpmath/functions/functions.py'
    f = ix.func(rel, 'asech')
    z = f.params[1]
    ws = [a for a in _walk_own(f.node) if isinstance(a, ast.Assign) and isinstance(a.value, ast.BinOp) and
          isinstance(a.value.op, ast.Div) and norm(a.value.left) == 'ctx.one' and norm(a.value.right) == z]
    ok = False
    if ws:
        w = norm(ws[0].targets[0])
        for st in f.node.body:
            if not isinstance(st, ast.If):
                continue
            cs = [norm(c).replace(' ', '') for c in (st.test.values if isinstance(st.test, ast.BoolOp) and
                                                     isinstance(st.test.op, ast.And) else [st.test])]
            if sorted(cs) != sorted(['ctx._im(%s)' % z, 'notctx._im(%s)' % w]):
                continue
            vdefs = [a for a in st.body if isinstance(a, ast.Assign) and
                     norm(a.value) == 'ctx.acosh(ctx._re(%s))' % w]
            conj = [i for i in st.body if isinstance(i, ast.If) and norm(i.test).replace(' ', '') == 'ctx._im(%s)>0' % z
                    and vdefs and [norm(b) for b in i.body] == ['return ctx.conj(%s)' % norm(vdefs[0].targets[0])]]
            plain = [r for r in st.body if isinstance(r, ast.Return) and vdefs and norm(r.value) == norm(vdefs[0].targets[0])]
            if vdefs and conj and plain:
                ok = True
    if ok:
        run.ok('F-R14', 'asech: for im(z) != 0 and im(1/z) == 0 the value is acosh(re(1/z)), conjugated for im(z) > 0')
    else:
        rets = [r for r in _walk_own(f.node) if isinstance(r, ast.Return)]
        run.fail(F('F-R14', rel, 'asech', rets[0] if rets else f.node,
                   'asech hands 1/z to acosh as it is: for a large complex z the imaginary part of the quotient '
                   'underflows to a zero, acosh takes the point to lie on its cut (-inf, 1) and continues from above, '
                   'and fp.asech(1e200+1e50j) is the conjugate of the value'))


# --------------------------------------------------------------------------- F-R9
def check_even_integer_shortcuts(run, ix):
    """F-R9.  The *pi functions may skip the argument reduction for arguments so large that every double is an
    even integer.  That is true from 2^53 on; doubles in [2^52, 2^53) are integers of both parities (cospi = +-1)
    and below 2^52 there are half-integers.  Every `if x >= C: return <constants>` in the reduction helpers must
    have C >= 2^53."""
    m2 = ix.module(MATH2)
    consts = {}
    for name, value, st, g in m2.toplevel_assigns:
        if isinstance(value, ast.Constant) and isinstance(value.value, (int, float)):
            consts[name] = value.value
        elif isinstance(value, ast.BinOp) and isinstance(value.op, ast.Pow) and \
                isinstance(value.left, ast.Constant) and isinstance(value.right, ast.Constant):
            consts[name] = value.left.value ** value.right.value
    n = 0
    for f in m2.funcs.values():
        if not isinstance(f.node, ast.FunctionDef) or not ('pi' in f.name or 'reduce' in f.name):
            continue
        for st in _walk_own(f.node):
            if not (isinstance(st, ast.If) and isinstance(st.test, ast.Compare) and len(st.test.ops) == 1 and
                    isinstance(st.test.ops[0], (ast.GtE, ast.Gt)) and st.body and isinstance(st.body[-1], ast.Return)):
                continue
            left = st.test.left
            if not (isinstance(left, ast.Name) or (isinstance(left, ast.Attribute) and left.attr == 'real')):
                continue
            rv = st.body[-1].value
            elts = rv.elts if isinstance(rv, ast.Tuple) else [rv]
            def _zero_or_nan(e):
                # `x - x` of the compared argument: 0.0 for every finite x, nan for an infinity
                return isinstance(e, ast.BinOp) and isinstance(e.op, ast.Sub) and norm(e.left) == norm(e.right) == norm(left)
            if not all(isinstance(e, ast.Constant) or _zero_or_nan(e) or
                       (isinstance(e, ast.UnaryOp) and isinstance(e.operand, ast.Constant)) for e in elts):
                continue
            c = st.test.comparators[0]
            val = c.value if isinstance(c, ast.Constant) else consts.get(c.id) if isinstance(c, ast.Name) else None
            if isinstance(c, ast.BinOp) and isinstance(c.op, ast.Pow) and isinstance(c.left, ast.Constant) and \
                    isinstance(c.right, ast.Constant):
                val = c.left.value ** c.right.value
            if val is None:
                raise AnalysisError('%s: threshold of the large-argument shortcut is not a constant' % f.qualname)
            n += 1
            # F-R16: an infinity passes every `x >= C`; it must not leave with the constants of an even integer
            guarded_inf = any(_zero_or_nan(e) for e in elts) or any(
                isinstance(c_, ast.Call) and norm(c_.func).split('.')[-1] in ('isinf', 'isfinite')
                for c_ in ast.walk(st.test)) or any(
                isinstance(p_, ast.If) and p_.lineno < st.lineno and any(
                    isinstance(c_, ast.Call) and norm(c_.func).split('.')[-1] in ('isinf', 'isfinite') for c_ in ast.walk(p_.test))
                and p_.body and isinstance(p_.body[-1], (ast.Return, ast.Raise)) for p_ in _walk_own(f.node))
            if guarded_inf:
                run.ok('F-R16', '%s: an infinite argument leaves the shortcut as nan' % f.qualname)
            else:
                run.fail(F('F-R16', MATH2, f.qualname, st,
                           'an infinity satisfies `%s` and is reduced like an even integer: fp.sinpi(inf) is 0.0 and '
                           'fp.cospi(inf) is 1.0 (mp.sinpi(inf) is nan)' % norm(st.test)))
            if val >= 2 ** 53:
                run.ok('F-R9', '%s: shortcut from %r on (>= 2^53)' % (f.qualname, val))
            else:
                run.fail(F('F-R9', MATH2, f.qualname, st,
                           'the reduction is skipped from %r on, but doubles below 2^53 = 9007199254740992 are not all '
                           'even integers (odd integers up to 2^53, half-integers up to 2^52): cospi of an odd integer '
                           'would be +1 instead of -1' % val))
    if n < 1:
        raise AnalysisError('F-R9: no large-argument shortcut found in the *pi reduction')


# --------------------------------------------------------------------------- F-R17
def check_newton_correction_at_infinity(run, ix):
    """F-R17 (regression of repair 9e55673; fourth C13 hunt, repair 86b2c3c).  A root computed as x**(1/n) and then
    corrected by a Newton step  y -= (y**n - x) / (n*y**(n-1))  is inf - inf/inf = nan when the root is infinite.  Every
    such step in math2 (an augmented subtraction of a quotient whose denominator contains the corrected variable)
    stands under a test that excludes an infinite value."""
    m2 = ix.module(MATH2)
    n = 0
    for f in m2.funcs.values():
        for st in _walk_own(f.node):
            if not (isinstance(st, ast.AugAssign) and isinstance(st.op, ast.Sub) and isinstance(st.target, ast.Name) and
                    isinstance(st.value, ast.BinOp) and isinstance(st.value.op, ast.Div)):
                continue
            y = st.target.id
            if not any(isinstance(t, ast.Name) and t.id == y for t in ast.walk(st.value.right)):
                continue
            n += 1
            ok = False
            p = st
            while p is not f.node:
                par = p._parent
                if isinstance(par, ast.If) and any(p is b for b in par.body):
                    for c in ast.walk(par.test):
                        if isinstance(c, ast.UnaryOp) and isinstance(c.op, ast.Not) and isinstance(c.operand, ast.Call) and \
                                norm(c.operand.func).split('.')[-1] == 'isinf' and c.operand.args and norm(c.operand.args[0]) == y:
                            ok = True
                        if isinstance(c, ast.Call) and norm(c.func).split('.')[-1] == 'isfinite' and c.args and \
                                norm(c.args[0]) == y:
                            ok = True
                p = par
            if ok:
                run.ok('F-R17', '%s: the Newton correction of %s is skipped for an infinite value' % (f.qualname, y))
            else:
                run.fail(F('F-R17', MATH2, f.qualname, st,
                           'the Newton correction is applied to an infinite root: inf - (inf - inf)/inf is nan, fp.cbrt(inf) '
                           'is nan instead of inf'))
    if n < 1:
        # whether a root needs its correction is rule F-R8
        run.ok('F-R17', 'no Newton correction in math2 (see F-R8)')


# --------------------------------------------------------------------------- F-R10
def check_quarter_fold(run, ix):
    """F-R10.  sinpi / cospi evaluate sin or cos of pi*r after x = n/2 + r.  With r in [0, 1/2) the cosine is taken
    right next to its zero for r close to 1/2, where the 2^-53 rounding of pi*r is divided by a tiny function
    value (fp.cospi(0.5 - 2**-30) was off by 1e-7).  The remainder must be folded into |r| <= 1/4: after the
    division by 1/2 there is a step  `if r > 1/4: r -= 1/2; n += 1`."""
    m2 = ix.module(MATH2)
    helpers = [f for f in m2.funcs.values() if f.parent is None and
               any(isinstance(c, ast.Call) and norm(c.func) == 'divmod' and len(c.args) == 2 and
                   norm(c.args[1]) == '0.5' for c in _walk_own(f.node))]
    if not helpers:
        # the helper that the real *pi functions call for their reduction
        called = set(norm(c.func) for f in m2.funcs.values() if f.name in ('_sinpi_real', '_cospi_real')
                     for c in _walk_own(f.node) if isinstance(c, ast.Call) and isinstance(c.func, ast.Name))
        red = [f for f in m2.funcs.values() if f.parent is None and f.name in called and 'reduce' in f.name]
        if not red:
            raise AnalysisError('F-R10: reduction by divmod(x, 0.5) not found')
        for f in red:
            rets = [r for r in _walk_own(f.node) if isinstance(r, ast.Return)]
            run.fail(F('F-R10', MATH2, f.qualname, rets[-1] if rets else f.node,
                       'the argument is not reduced by divmod(x, 0.5), which is exact in floating point: a formula that '
                       'forms 2*x + 1/2 (or x/0.5 rounded) is inexact for 2^51 <= x < 2^52, where the half-integers are '
                       'reduced to r = -1/2 instead of 0 and fp.cospi returns 6e-17 instead of the exact 0'))
        return
    for f in helpers:
        dm = [x for x in _walk_own(f.node) if isinstance(x, ast.Assign) and isinstance(x.value, ast.Call) and
              norm(x.value.func) == 'divmod' and isinstance(x.targets[0], ast.Tuple)]
        nname, rname = [e.id for e in dm[0].targets[0].elts]
        ok = False
        for st in _walk_own(f.node):
            if isinstance(st, ast.If) and isinstance(st.test, ast.Compare) and norm(st.test.left) == rname and \
                    isinstance(st.test.ops[0], (ast.Gt, ast.GtE)) and norm(st.test.comparators[0]) == '0.25':
                body = [norm(b) for b in st.body]
                if '%s -= 0.5' % rname in body and '%s += 1' % nname in body:
                    ok = True
        if ok:
            run.ok('F-R10', '%s folds the remainder into |r| <= 1/4' % f.qualname)
        else:
            run.fail(F('F-R10', MATH2, f.qualname, dm[0], 'the remainder of the division by 1/2 is used as it is (0 <= r < '
                       '1/2): for r near 1/2 the cosine is evaluated next to its zero and the result loses its relative '
                       'accuracy (up to 1e-7 at distance 2^-30 below a zero)'))


# --------------------------------------------------------------------------- F-R7
def check_no_fallthrough(run, ix):
    """A function of the fp layer that returns a value on some path returns (or raises) on EVERY path:
    falling off the end hands the caller None instead of a float or complex (fp.sinpi(1e308): the
    quadrant chain `if n == 0 .. if n == 3` was not exhaustive once n had become nan).  Path-sensitive
    only in the structure (both branches of every test are taken to be feasible), so a chain of ifs
    must end in an unconditional return / raise."""
    from ..flow import FlowAnalysis

    class Falls(FlowAnalysis):
        def join(self, a, b):
            return a or b
    n = 0
    for rel in (MATH2, CTXFP):
        for f in ix.module(rel).funcs.values():
            if not isinstance(f.node, ast.FunctionDef):
                continue
            own = list(_walk_own(f.node))
            if not any(isinstance(x, ast.Return) and x.value is not None for x in own):
                continue
            if any(isinstance(x, (ast.Yield, ast.YieldFrom)) for x in own):
                continue
            n += 1
            out = Falls().run(f.node.body, True)
            if out.normal is None:
                run.ok('F-R7')
            else:
                last = f.node.body[-1]
                run.fail(F('F-R7', rel, f.qualname, last,
                           'the function returns a value on some paths but can fall off its end after this '
                           'statement: the caller receives None, not a float or complex'))
    if n < 60:
        raise AnalysisError('F-R7: only %d value-returning functions found in the fp layer' % n)


# --------------------------------------------------------------------------- F-R4
def check_fp_table(run, ix):
    m = ix.module(CTXFP)
    ci = m.classes.get('FPContext')
    if ci is None:
        raise AnalysisError('FPContext vanished')
    m2names = set(n for n, _, _, _ in ix.module(MATH2).toplevel_assigns) | \
        set(f.name for f in ix.module(MATH2).funcs.values() if f.parent is None)
    n = 0
    for st in ci.node.body:
        if not isinstance(st, ast.Assign):
            continue
        v = st.value
        if isinstance(v, ast.Call) and norm(v.func) == 'staticmethod' and len(v.args) == 1 and \
                isinstance(v.args[0], ast.Attribute) and norm(v.args[0].value) == 'math2':
            x = v.args[0].attr
            for t in st.targets:
                slot = norm(t)
                want = SLOT_ALIAS.get(slot, slot)
                n += 1
                if x not in m2names:
                    run.fail(F('F-R4', CTXFP, 'FPContext', st, 'math2.%s does not exist' % x))
                elif x != want:
                    run.fail(F('F-R4', CTXFP, 'FPContext', st, 'slot %s is bound to math2.%s, not to '
                               'math2.%s' % (slot, x, want)))
                else:
                    run.ok('F-R4', 'FPContext.%s = math2.%s' % (slot, x))
    # every elementary function the property names has a slot of its own on the fp context
    bound = set()
    for st in ci.node.body:
        if isinstance(st, ast.Assign):
            for t in st.targets:
                bound.add(norm(t))
        elif isinstance(st, ast.FunctionDef):
            bound.add(st.name)
    for slot in REQUIRED_SLOTS:
        if slot in bound:
            run.ok('F-R4')
        else:
            run.fail(F('F-R4', CTXFP, 'FPContext', 'slot %s' % slot,
                       'the fp context has no `%s`: the generic functions built on it (e.g. asech = acosh(1/z)) raise '
                       'AttributeError instead of returning a float or complex' % slot, line=ci.node.lineno))
    for slot, want in (('mpf', 'float'), ('mpc', 'complex')):
        v = ci.assigns.get(slot)
        if v is not None and norm(v) == want:
            run.ok('F-R4', 'FPContext.%s = %s' % (slot, want))
        else:
            run.fail(F('F-R4', CTXFP, 'FPContext', '%s = %s' % (slot, norm(v) if v is not None else '?'),
                       'the number type %s of fp is not the Python %s' % (slot, want)))
    conv = ci.methods.get('convert')
    if conv is None:
        raise AnalysisError('FPContext.convert vanished')
    p = conv.params[1]
    rets = [norm(r.value) for r in _walk_own(conv.node) if isinstance(r, ast.Return)]
    if rets and all(r in ('float(%s)' % p, 'complex(%s)' % p) for r in rets) and 'float(%s)' % p in rets \
            and 'complex(%s)' % p in rets:
        run.ok('F-R4', 'FPContext.convert returns float(x) or complex(x)')
    else:
        run.fail(F('F-R4', CTXFP, 'FPContext.convert', conv.node, 'convert does not return float(x) / '
                   'complex(x): %s' % rets))
    # the float constants of the context
    for slot in ('zero', 'one', 'eps', 'inf', 'ninf', 'nan'):
        v = ci.assigns.get(slot)
        if v is None:
            continue
        if isinstance(v, ast.Constant) and isinstance(v.value, float) or \
                (isinstance(v, ast.Attribute) and norm(v.value) == 'math2'):
            run.ok('F-R4', 'FPContext.%s is a float constant' % slot)
        else:
            run.fail(F('F-R4', CTXFP, 'FPContext', '%s = %s' % (slot, norm(v)), 'not a float constant'))
    return n


# --------------------------------------------------------------------------- F-R5
def check_no_mp_numbers(run, ix):
    n = 0
    for rel in (CTXFP, MATH2):
        m = ix.module(rel)
        for f in m.funcs.values():
            for x in _walk_own(f.node):
                if isinstance(x, ast.Call):
                    fn = norm(x.func).split('.')[-1]
                    if fn.startswith(KERNEL_PREFIXES) or fn in ('from_float', 'from_int', 'from_str',
                                                                 'from_man_exp', 'from_rational'):
                        n += 1
                        par = getattr(x, '_parent', None)
                        # accepted: argument of a converter, or of another kernel call that is
                        while isinstance(par, ast.Call) and \
                                (norm(par.func).split('.')[-1].startswith(KERNEL_PREFIXES)):
                            par = getattr(par, '_parent', None)
                        if isinstance(par, ast.Call) and norm(par.func).split('.')[-1] in CONVERTERS:
                            run.ok('F-R5', '%s: %s' % (f.qualname, norm(par, 90)))
                        else:
                            run.fail(F('F-R5', rel, f.qualname, x, 'a libmp kernel result (raw mp tuple) '
                                       'is used in the fp context without to_float/to_complex'))
        # constructing mp numbers
        for x in ast.walk(m.tree):
            if isinstance(x, ast.Attribute) and isinstance(x.value, ast.Name) and x.value.id == 'mp' and \
                    x.attr in ('mpf', 'mpc', 'convert'):
                run.fail(F('F-R5', rel, '<module>', x, 'fp code constructs an mp number'))
    return n


def run(run, ix, tier):
    run.explanation = (
        'fp elementary functions are math/cmath functions behind three small wrappers and a slot table. '
        'Decided from the source: the wrappers always return a real- or complex-implementation result on '
        'float()/complex() of the argument with the ValueError/TypeError fallback in place; each pair of '
        'implementations is the same function (same math/cmath name, alpha-equivalent bodies, or an '
        'enumerated componentwise/power/quadrant form checked against the reduction identity); partial '
        'real functions are never on the fallback-free fast path and no real implementation silently '
        'returns a non-principal value; the FPContext table binds each slot to the like-named function; '
        'no raw mp value escapes; acos/asin do not use the bare cmath function on the cut.  Numerical '
        'agreement with mp (2^-48) is not decided.')
    run.assumptions = ['behaviour classes of the math module functions are as documented for CPython 3 '
                       '(TOTAL / RAISES / NONPRINCIPAL tables in sa/checks/c43.py)']
    run.trusted = ['math, cmath']
    run.rule('F-R1', floor=8)
    run.rule('F-R2', floor=15)
    run.rule('F-R3', floor=15)
    run.rule('F-R4', floor=25)
    run.rule('F-R5', floor=1)
    run.rule('F-R6', floor=10)
    run.rule('F-R7', floor=60)
    run.rule('F-R9', floor=1, desc='large-argument shortcut of the *pi functions starts at 2^53')
    run.rule('F-R8', floor=5, desc='error amplification without guard digits')
    check_wrappers(run, ix)
    check_log1p_precision(run, ix)
    binds = check_bindings(run, ix)
    nslots = check_fp_table(run, ix)
    check_no_fallthrough(run, ix)
    run.rule('F-R16', floor=1, desc='an infinite argument does not take the even-integer shortcut of the *pi functions')
    check_even_integer_shortcuts(run, ix)
    run.rule('F-R17', floor=1, desc='Newton corrections of roots are skipped at infinity')
    check_newton_correction_at_infinity(run, ix)
    check_asech_side(run, ix)
    run.rule('F-R10', floor=1, desc='*pi reduction folds the remainder into |r| <= 1/4')
    check_quarter_fold(run, ix)
    check_amplification(run, ix)
    nk = check_no_mp_numbers(run, ix)
    run.stats['math2_bindings'] = len(binds)
    run.stats['fp_slots'] = nslots
    run.stats['kernel_calls_in_fp'] = nk
    # positive example: the rule must be able to fire
    import types
    fake_r = ast.parse('math.tanh', mode='eval').body
    fake_c = ast.parse('cmath.tan', mode='eval').body
    ok, why = pair_agrees('tanh', 'math', 'tanh', 'cmath', 'tan', None)
    if ok:
        raise AnalysisError('built-in positive example for F-R2 did not fire')
    if classify_real('math', 'cbrt', None)[0] != 'nonprincipal':
        raise AnalysisError('built-in positive example for F-R3 did not fire')


# --------------------------------------------------------------------------- F-R12
LOG1P_FAMILY = (('mpmath/libmp/libelefun.py', 'mpf_asinh'), ('mpmath/libmp/libelefun.py', 'mpf_atanh'),
                ('mpmath/libmp/libelefun.py', 'mpf_acosh'), ('mpmath/libmp/libmpc.py', 'mpc_atan'),
                ('mpmath/libmp/libmpc.py', 'mpc_atanh'), ('mpmath/libmp/libmpc.py', 'acos_asin'))


def check_log1p_precision(run, ix):
    """F-R12 (mp side of the agreement).  The inverse functions are logarithms of 1 + t with t -> 0 as the argument
    goes to 0 (or to 1, for acosh): a sum 1 + t formed at prec + constant bits keeps only prec + log2|t| correct
    bits of t, and the function loses all digits for small arguments while fp, which uses the hardware log1p-based
    routines, stays right (mp.atanh(mpc(1e-8, 0)) was off by 1.8e-13, mp.asinh(mpc(1e-20, 0)) was 0).  Sibling
    rule over the family: every member that takes a logarithm must raise its working precision by a
    magnitude-dependent amount (an assignment or `+=` to the precision name whose right side mentions something
    besides the precision and constants) before the sums are formed."""
    run.rule('F-R12', floor=6, desc='log(1+t) sums of the inverse functions carry magnitude-dependent precision')
    for rel, name in LOG1P_FAMILY:
        f = ix.func(rel, name)
        logs = [c for c in _walk_own(f.node) if isinstance(c, ast.Call) and norm(c.func) in ('mpf_log', 'mpc_log')]
        if not logs:
            run.ok('F-R12', '%s takes no logarithm itself' % name)
            continue
        adaptive = []
        for st in _walk_own(f.node):
            tgt = val = None
            if isinstance(st, ast.AugAssign) and isinstance(st.target, ast.Name) and isinstance(st.op, ast.Add):
                tgt, val = st.target.id, st.value
            elif isinstance(st, ast.Assign) and len(st.targets) == 1 and isinstance(st.targets[0], ast.Name):
                tgt, val = st.targets[0].id, st.value
            if tgt is None or not tgt.startswith(('wp', 'prec')):
                continue
            names = {n.id for n in ast.walk(val) if isinstance(n, ast.Name)} - {'prec', 'wp', 'max', 'min', 'abs'}
            if names:
                adaptive.append(st)
        if adaptive:
            run.ok('F-R12', '%s: working precision follows the magnitude (`%s`)' % (name, norm(adaptive[0], 50)))
        else:
            run.fail(F('F-R12', rel, name, norm(logs[0]), 'the logarithm of 1 + t is taken at a working precision that is '
                       'prec + constant: for a small argument only prec + log2|t| bits of t survive the sum, and the '
                       'result loses all its digits (the real asinh / atanh raise the precision by -mag; '
                       'mp.atanh(mpc(1e-8, 0)) == 9.99999999999821e-09, mp.asinh(mpc(1e-20, 0)) == 0)'))
