"""C13 -- exact cases and special values of elementary functions.

Decides one structural clause (rule B-R6): no computed value is re-rounded by
passing its four fields to the finite-only normaliser.  normalize()/normalize1()
map EVERY zero-mantissa tuple -- +inf, -inf and nan included -- to zero, so
`normalize(v[0], v[1], v[2], v[3], prec, rnd)` silently turns a special result
into 0 (acos(mpc('nan', 1)) == 0 on the pinned tree).  mpf_pos is the
special-safe way to round an existing value.  Exactness of perfect powers,
fast paths at multiples of pi/2 etc. are value questions and are not decided.

Rule B-R9 (sa/guard_bits.py): inside the kernels, an inexact intermediate that is
rounded at the target precision itself must not be an operand of a computation
that runs with guard bits (a contradiction inside one region; it is what makes
root(a**n, n) miss the exact integer when 1/n is rounded at prec).
"""
import ast

from ..index import AnalysisError, norm
from ..prec_effect import _walk_own
from ..report import Finding
from ..round_flow import KERNEL_MODULES
from ..guard_bits import check_guard_bits, GuardScan

LIBMPC = 'mpmath/libmp/libmpc.py'
LIBELE = 'mpmath/libmp/libelefun.py'
# the complex exponential/trigonometric family: every member (10 of 10 on the pinned tree) hands an
# argument with exactly zero imaginary part to the real kernel, which does the careful argument
# reduction; the general formulas cancel catastrophically near the real zeros/poles
AXIS_FAMILY = ['mpc_exp', 'mpc_cos', 'mpc_sin', 'mpc_tan', 'mpc_cos_pi', 'mpc_sin_pi', 'mpc_cos_sin',
               'mpc_cos_sin_pi', 'mpc_expj', 'mpc_expjpi']

NORMALISERS = {'normalize', 'normalize1', '_normalize', '_normalize1'}


def fieldwise(call):
    """normalize(v[0], v[1], v[2], v[3], ...) with the same base v"""
    if not (isinstance(call, ast.Call) and isinstance(call.func, ast.Name)
            and call.func.id in NORMALISERS and len(call.args) >= 4):
        return None
    bases = []
    for i, a in enumerate(call.args[:4]):
        if isinstance(a, ast.Subscript) and isinstance(a.slice, ast.Constant) and \
                a.slice.value == i:
            bases.append(norm(a.value))
        else:
            return None
    return bases[0] if len(set(bases)) == 1 else None


def is_exact_zero_test(test, name):
    """`X == fzero`, `X is fzero`, or `not X[1] and not X[2]` (zero mantissa AND zero exponent)"""
    if isinstance(test, ast.Compare) and len(test.ops) == 1 and isinstance(test.ops[0], (ast.Eq, ast.Is)) and \
            norm(test.left) == name and norm(test.comparators[0]) == 'fzero':
        return True
    if isinstance(test, ast.BoolOp) and isinstance(test.op, ast.And) and len(test.values) == 2:
        parts = sorted(norm(v) for v in test.values)
        if parts == sorted(['not %s[1]' % name, 'not %s[2]' % name]):
            return True
    return False


def axis_delegation(f):
    """-> (ok, reason): the function unpacks its argument into (RE, IM) and, before IM reaches any
    kernel, tests `IM == fzero` and returns from real kernels of RE at the caller's (prec, rnd)"""
    body = [st for st in f.node.body if not (isinstance(st, ast.Expr) and isinstance(st.value, ast.Constant))]
    if not body or not (isinstance(body[0], ast.Assign) and isinstance(body[0].targets[0], ast.Tuple) and
                        len(body[0].targets[0].elts) == 2 and norm(body[0].value) == f.params[0]):
        return False, 'argument is not unpacked into (real, imaginary) first'
    re_, im_ = [norm(e) for e in body[0].targets[0].elts]
    for st in body[1:]:
        if isinstance(st, ast.If) and norm(st.test) in ('not %s[1]' % im_, 'not %s[1]' % re_):
            which = im_ if norm(st.test).endswith(im_ + '[1]') else re_
            return False, ('the axis shortcut tests only the mantissa (`%s`), which is also zero for inf and '
                           'nan: special values are treated as 0' % norm(st.test))
        if isinstance(st, ast.If) and is_exact_zero_test(st.test, im_):
            rets = [x for s2 in st.body for x in ast.walk(s2) if isinstance(x, ast.Return)]
            if not rets:
                return False, 'the zero-imaginary-part branch does not return'
            names = set(n.id for s2 in st.body for n in ast.walk(s2) if isinstance(n, ast.Name))
            if im_ in names:
                return False, 'the zero-imaginary-part branch still computes with the imaginary part'
            calls = [x for s2 in st.body for x in ast.walk(s2) if isinstance(x, ast.Call) and
                     isinstance(x.func, ast.Name) and x.func.id.startswith('mpf_')]
            if not calls or re_ not in names:
                return False, 'the zero-imaginary-part branch does not call a real kernel on the real part'
            for c in calls:
                args = [norm(a) for a in c.args]
                if args[-2:] != [f.params[1], f.params[2]]:
                    return False, 'real kernel %s is not called with the caller\'s (prec, rnd)' % c.func.id
            return True, '%s == fzero -> %s' % (im_, ', '.join(sorted(set(c.func.id for c in calls))))
        # a statement that feeds IM into a kernel before the test
        for x in ast.walk(st):
            if isinstance(x, ast.Call) and isinstance(x.func, ast.Name) and x.func.id.startswith(('mpf_', 'mpc_')):
                if any(isinstance(n, ast.Name) and n.id == im_ for a in x.args for n in ast.walk(a)) and \
                        not (isinstance(st, ast.If) and norm(st.test.left if isinstance(st.test, ast.Compare) else st.test) == re_):
                    return False, 'the imaginary part reaches %s before any exact-zero test' % x.func.id
    return False, 'no `%s == fzero` fast path' % im_


def run(run, ix, tier):
    run.explanation = (
        'Every call of the finite-only normaliser in the package is inspected: it may be '
        'applied to freshly computed (sign, mantissa, exponent, bitcount) integers, or to '
        'the unpacked fields of a value under a non-zero-mantissa guard, but never '
        'field-wise to an existing value (which may be inf/nan and would become 0).  '
        'A built-in positive example keeps the detector honest (expected count on a '
        'healthy tree is zero).  Second clause (B-R9): every (intermediate, consumer) pair of kernel '
        'calls inside the libmp kernels whose precisions are comparable (same symbolic base) is examined; '
        'an intermediate rounded with no guard bits must not feed a consumer that runs with guard bits.')
    run.assumptions = []
    run.trusted = []
    run.rule('B-R6', floor=20, desc='normaliser call sites inspected')
    # positive control
    sample = ast.parse('re = normalize(re[0], re[1], re[2], re[3], prec, rnd)').body[0].value
    if fieldwise(sample) != 're':
        raise AnalysisError('B-R6 detector does not recognise its positive example')
    n = 0
    for rel, m in sorted(ix.modules.items()):
        for f in m.funcs.values():
            for x in _walk_own(f.node):
                if isinstance(x, ast.Call) and isinstance(x.func, ast.Name) and \
                        x.func.id in NORMALISERS:
                    n += 1
                    base = fieldwise(x)
                    if base is not None:
                        st = x
                        while not isinstance(st, ast.stmt):
                            st = st._parent
                        run.fail(Finding('B-R6', rel, f.qualname, norm(st),
                                         'the existing value `%s` is re-rounded by passing its fields '
                                         'to %s(), which maps inf and nan (zero mantissa) to 0; use '
                                         'mpf_pos' % (base, x.func.id), line=st.lineno))
                    else:
                        run.ok('B-R6', '%s:%s %s' % (rel, f.qualname, norm(x, 60)) if n < 8 else None)
    run.stats['normaliser_call_sites'] = n
    # ---- B-R9 ---------------------------------------------------------------------------
    run.rule('B-R9', floor=60, desc='intermediate -> consumer precision pairs examined')
    g = GuardScan()
    g.scan_function(ast.parse(
        'def f(s, n, prec, rnd):\n    prec2 = prec + 10\n    nth = mpf_rdiv_int(1, s, prec)\n'
        '    return mpf_pow(s, nth, prec2, rnd)\n').body[0], 'prec')
    if len(g.findings) != 1:
        raise AnalysisError('B-R9 detector does not recognise its positive example')
    check_guard_bits(run, ix, 'B-R9')
    # ---- B-R4i: the sticky/exact-root idioms that make sqrt of a perfect square exact (rule of C02)
    from ..report import SubRun
    from . import c02
    run.rule('B-R4i', floor=4, desc='exact-remainder idioms of division and square root')
    c02.check_sticky_idioms(SubRun(run, keep=('B-R4i',)), ix)
    # the exactness nudge of mpf_nthroot: for the downward modes the radicand (not the root) is incremented
    # by one unit before nthroot_fixed, which lifts a perfect power above its exact root before truncation
    f = ix.func(LIBELE, 'mpf_nthroot')
    calls = [c for c in _walk_own(f.node) if isinstance(c, ast.Call) and norm(c.func) == 'nthroot_fixed']
    nudges = [x.targets[0].id for x in _walk_own(f.node) if isinstance(x, ast.Assign) and isinstance(x.targets[0], ast.Name)
              and isinstance(x.value, ast.Constant) and x.value.value == 1 and
              isinstance(getattr(x, '_parent', None), ast.If) and 'rnd' in norm(x._parent.test)]
    if len(calls) != 1 or not nudges:
        raise AnalysisError('mpf_nthroot: root call / rounding nudge not found')
    nm = nudges[0]
    arg = calls[0].args[0]
    in_radicand = isinstance(arg, ast.BinOp) and isinstance(arg.op, ast.Add) and nm in (norm(arg.left), norm(arg.right))
    elsewhere = [x for x in _walk_own(f.node) if isinstance(x, ast.Name) and x.id == nm and isinstance(x.ctx, ast.Load)
                 and not any(x is y for y in ast.walk(calls[0]))]
    if in_radicand and not elsewhere:
        run.ok('B-R4i', 'mpf_nthroot: the nudge %s is added to the radicand inside nthroot_fixed(...)' % nm)
    else:
        st = calls[0]
        while not isinstance(st, ast.stmt):
            st = st._parent
        run.fail(Finding('B-R4i', LIBELE, f.qualname, norm(st),
                         'the exactness nudge `%s` is not applied to the radicand (it is %s): one unit on the computed root '
                         'does not cover the truncation of the mantissa and the floor errors of the Newton iteration, so '
                         'roots of perfect powers come out one ulp low in the downward modes'
                         % (nm, 'used at `%s`' % norm(elsewhere[0]._parent, 50) if elsewhere else 'missing'), line=st.lineno))
    # ---- B-R10: guard bits must follow the size of an amplifying multiplier
    from .kernel_rules import check_amplified_error
    run.rule('B-R10', floor=6, desc='amplified intermediates carry multiplier-dependent guard bits')
    check_amplified_error(run, ix, 'B-R10')
    # ---- S-R2: documented limits at 0, +-inf and nan (sa/checks/special_rules.py) ------------------------
    from .special_rules import check_special_values, ELEMENTARY
    run.rule('S-R2', floor=50, desc='documented limits of the elementary kernels on every special operand class')
    check_special_values(run, ix, 'S-R2', sorted(ELEMENTARY))
    # ---- B-R8: real-axis delegation of the complex exp/trig family ---------------------------------
    run.rule('B-R8', floor=10, desc='complex exp/trig kernels delegate real-axis arguments to the real kernel')
    for name in AXIS_FAMILY:
        f = ix.func(LIBMPC, name)
        ok, why = axis_delegation(f)
        if ok:
            run.ok('B-R8', '%s: %s' % (name, why))
        else:
            run.fail(Finding('B-R8', LIBMPC, name, 'def %s' % name,
                             '%s: all %d members of the complex exp/trig family hand a complex-typed real '
                             'argument to the real kernel (which reduces the argument carefully); the general '
                             'formula cancels near the real zeros/poles, so finite values become '
                             'ZeroDivisionError or garbage there' % (why, len(AXIS_FAMILY)), line=f.lineno))
