"""C13 -- exact cases and special values of elementary functions.

Decides one structural clause (rule B-R6): no computed value is re-rounded by
passing its four fields to the finite-only normaliser.  normalize()/normalize1()
map EVERY zero-mantissa tuple -- +inf, -inf and nan included -- to zero, so
`normalize(v[0], v[1], v[2], v[3], prec, rnd)` silently turns a special result
into 0 (acos(mpc('nan', 1)) == 0 on the pinned tree).  mpf_pos is the
special-safe way to round an existing value.  Exactness of perfect powers,
fast paths at multiples of pi/2 etc. are value questions and are not decided.
"""
import ast

from ..index import AnalysisError, norm
from ..prec_effect import _walk_own
from ..report import Finding
from ..round_flow import KERNEL_MODULES

NORMALISERS = {'normalize', 'normalize1', '_normalize', '_normalize1'}


def fieldwise(call):
    """normalize(v[0], v[1], v[2], v[3], ...) with the same base v"""
    if not (isinstance(call, ast.Call) and isinstance(call.func, ast.Name)
            and call.func.id in NORMALISERS and len(call.args) >= 4):
        return None
    bases = []
    for i, a in enumerate(call.args[:4]):
        if isinstance(a, ast.Subscript) and isinstance(a.slice, ast.Constant) and \
                a.slice.value == i:
            bases.append(norm(a.value))
        else:
            return None
    return bases[0] if len(set(bases)) == 1 else None


def run(run, ix, tier):
    run.explanation = (
        'Every call of the finite-only normaliser in the package is inspected: it may be '
        'applied to freshly computed (sign, mantissa, exponent, bitcount) integers, or to '
        'the unpacked fields of a value under a non-zero-mantissa guard, but never '
        'field-wise to an existing value (which may be inf/nan and would become 0).  '
        'A built-in positive example keeps the detector honest (expected count on a '
        'healthy tree is zero).')
    run.assumptions = []
    run.trusted = []
    run.rule('B-R6', floor=20, desc='normaliser call sites inspected')
    # positive control
    sample = ast.parse('re = normalize(re[0], re[1], re[2], re[3], prec, rnd)').body[0].value
    if fieldwise(sample) != 're':
        raise AnalysisError('B-R6 detector does not recognise its positive example')
    n = 0
    for rel, m in sorted(ix.modules.items()):
        for f in m.funcs.values():
            for x in _walk_own(f.node):
                if isinstance(x, ast.Call) and isinstance(x.func, ast.Name) and \
                        x.func.id in NORMALISERS:
                    n += 1
                    base = fieldwise(x)
                    if base is not None:
                        st = x
                        while not isinstance(st, ast.stmt):
                            st = st._parent
                        run.fail(Finding('B-R6', rel, f.qualname, norm(st),
                                         'the existing value `%s` is re-rounded by passing its fields '
                                         'to %s(), which maps inf and nan (zero mantissa) to 0; use '
                                         'mpf_pos' % (base, x.func.id), line=st.lineno))
                    else:
                        run.ok('B-R6', '%s:%s %s' % (rel, f.qualname, norm(x, 60)) if n < 8 else None)
    run.stats['normaliser_call_sites'] = n
