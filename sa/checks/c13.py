"""C13 -- exact cases and special values of elementary functions.

Decides one structural clause (rule B-R6): no computed value is re-rounded by
passing its four fields to the finite-only normaliser.  normalize()/normalize1()
map EVERY zero-mantissa tuple -- +inf, -inf and nan included -- to zero, so
`normalize(v[0], v[1], v[2], v[3], prec, rnd)` silently turns a special result
into 0 (acos(mpc('nan', 1)) == 0 on the pinned tree).  mpf_pos is the
special-safe way to round an existing value.  Exactness of perfect powers,
fast paths at multiples of pi/2 etc. are value questions and are not decided.

Rule B-R9 (sa/guard_bits.py): inside the kernels, an inexact intermediate that is
rounded at the target precision itself must not be an operand of a computation
that runs with guard bits (a contradiction inside one region; it is what makes
root(a**n, n) miss the exact integer when 1/n is rounded at prec).
"""
import ast

from ..index import AnalysisError, norm
from ..prec_effect import _walk_own
from ..report import Finding
from ..round_flow import KERNEL_MODULES
from ..guard_bits import check_guard_bits, GuardScan

LIBMPC = 'mpmath/libmp/libmpc.py'
LIBELE = 'mpmath/libmp/libelefun.py'
# the complex exponential/trigonometric family: every member (10 of 10 on the pinned tree) hands an
# argument with exactly zero imaginary part to the real kernel, which does the careful argument
# reduction; the general formulas cancel catastrophically near the real zeros/poles
AXIS_FAMILY = ['mpc_exp', 'mpc_cos', 'mpc_sin', 'mpc_tan', 'mpc_cos_pi', 'mpc_sin_pi', 'mpc_cos_sin',
               'mpc_cos_sin_pi', 'mpc_expj', 'mpc_expjpi']

NORMALISERS = {'normalize', 'normalize1', '_normalize', '_normalize1'}


def fieldwise(call):
    """normalize(v[0], v[1], v[2], v[3], ...) with the same base v"""
    if not (isinstance(call, ast.Call) and isinstance(call.func, ast.Name)
            and call.func.id in NORMALISERS and len(call.args) >= 4):
        return None
    bases = []
    for i, a in enumerate(call.args[:4]):
        if isinstance(a, ast.Subscript) and isinstance(a.slice, ast.Constant) and \
                a.slice.value == i:
            bases.append(norm(a.value))
        else:
            return None
    return bases[0] if len(set(bases)) == 1 else None


def is_exact_zero_test(test, name):
    """`X == fzero`, `X is fzero`, or `not X[1] and not X[2]` (zero mantissa AND zero exponent)"""
    if isinstance(test, ast.Compare) and len(test.ops) == 1 and isinstance(test.ops[0], (ast.Eq, ast.Is)) and \
            norm(test.left) == name and norm(test.comparators[0]) == 'fzero':
        return True
    if isinstance(test, ast.BoolOp) and isinstance(test.op, ast.And) and len(test.values) == 2:
        parts = sorted(norm(v) for v in test.values)
        if parts == sorted(['not %s[1]' % name, 'not %s[2]' % name]):
            return True
    return False


def axis_delegation(f):
    """-> (ok, reason): the function unpacks its argument into (RE, IM) and, before IM reaches any
    kernel, tests `IM == fzero` and returns from real kernels of RE at the caller's (prec, rnd)"""
    body = [st for st in f.node.body if not (isinstance(st, ast.Expr) and isinstance(st.value, ast.Constant))]
    if not body or not (isinstance(body[0], ast.Assign) and isinstance(body[0].targets[0], ast.Tuple) and
                        len(body[0].targets[0].elts) == 2 and norm(body[0].value) == f.params[0]):
        return False, 'argument is not unpacked into (real, imaginary) first'
    re_, im_ = [norm(e) for e in body[0].targets[0].elts]
    for st in body[1:]:
        if isinstance(st, ast.If) and norm(st.test) in ('not %s[1]' % im_, 'not %s[1]' % re_):
            which = im_ if norm(st.test).endswith(im_ + '[1]') else re_
            return False, ('the axis shortcut tests only the mantissa (`%s`), which is also zero for inf and '
                           'nan: special values are treated as 0' % norm(st.test))
        if isinstance(st, ast.If) and is_exact_zero_test(st.test, im_):
            rets = [x for s2 in st.body for x in ast.walk(s2) if isinstance(x, ast.Return)]
            if not rets:
                return False, 'the zero-imaginary-part branch does not return'
            names = set(n.id for s2 in st.body for n in ast.walk(s2) if isinstance(n, ast.Name))
            if im_ in names:
                return False, 'the zero-imaginary-part branch still computes with the imaginary part'
            calls = [x for s2 in st.body for x in ast.walk(s2) if isinstance(x, ast.Call) and
                     isinstance(x.func, ast.Name) and x.func.id.startswith('mpf_')]
            if not calls or re_ not in names:
                return False, 'the zero-imaginary-part branch does not call a real kernel on the real part'
            for c in calls:
                args = [norm(a) for a in c.args]
                if args[-2:] != [f.params[1], f.params[2]]:
                    return False, 'real kernel %s is not called with the caller\'s (prec, rnd)' % c.func.id
            return True, '%s == fzero -> %s' % (im_, ', '.join(sorted(set(c.func.id for c in calls))))
        # a statement that feeds IM into a kernel before the test
        for x in ast.walk(st):
            if isinstance(x, ast.Call) and isinstance(x.func, ast.Name) and x.func.id.startswith(('mpf_', 'mpc_')):
                if any(isinstance(n, ast.Name) and n.id == im_ for a in x.args for n in ast.walk(a)) and \
                        not (isinstance(st, ast.If) and norm(st.test.left if isinstance(st.test, ast.Compare) else st.test) == re_):
                    return False, 'the imaginary part reaches %s before any exact-zero test' % x.func.id
    return False, 'no `%s == fzero` fast path' % im_


def run(run, ix, tier):
    run.explanation = (
        'Every call of the finite-only normaliser in the package is inspected: it may be '
        'applied to freshly computed (sign, mantissa, exponent, bitcount) integers, or to '
        'the unpacked fields of a value under a non-zero-mantissa guard, but never '
        'field-wise to an existing value (which may be inf/nan and would become 0).  '
        'A built-in positive example keeps the detector honest (expected count on a '
        'healthy tree is zero).  Second clause (B-R9): every (intermediate, consumer) pair of kernel '
        'calls inside the libmp kernels whose precisions are comparable (same symbolic base) is examined; '
        'an intermediate rounded with no guard bits must not feed a consumer that runs with guard bits.')
    run.assumptions = []
    run.trusted = []
    run.rule('B-R6', floor=20, desc='normaliser call sites inspected')
    # positive control
    sample = ast.parse('re = normalize(re[0], re[1], re[2], re[3], prec, rnd)').body[0].value
    if fieldwise(sample) != 're':
        raise AnalysisError('B-R6 detector does not recognise its positive example')
    n = 0
    for rel, m in sorted(ix.modules.items()):
        for f in m.funcs.values():
            for x in _walk_own(f.node):
                if isinstance(x, ast.Call) and isinstance(x.func, ast.Name) and \
                        x.func.id in NORMALISERS:
                    n += 1
                    base = fieldwise(x)
                    if base is not None:
                        st = x
                        while not isinstance(st, ast.stmt):
                            st = st._parent
                        run.fail(Finding('B-R6', rel, f.qualname, norm(st),
                                         'the existing value `%s` is re-rounded by passing its fields '
                                         'to %s(), which maps inf and nan (zero mantissa) to 0; use '
                                         'mpf_pos' % (base, x.func.id), line=st.lineno))
                    else:
                        run.ok('B-R6', '%s:%s %s' % (rel, f.qualname, norm(x, 60)) if n < 8 else None)
    run.stats['normaliser_call_sites'] = n
    # ---- B-R9 ---------------------------------------------------------------------------
    run.rule('B-R9', floor=60, desc='intermediate -> consumer precision pairs examined')
    g = GuardScan()
    g.scan_function(ast.parse(
        'def f(s, n, prec, rnd):\n    prec2 = prec + 10\n    nth = mpf_rdiv_int(1, s, prec)\n'
        '    return mpf_pow(s, nth, prec2, rnd)\n').body[0], 'prec')
    if len(g.findings) != 1:
        raise AnalysisError('B-R9 detector does not recognise its positive example')
    check_guard_bits(run, ix, 'B-R9')
    # ---- B-R4i: the sticky/exact-root idioms that make sqrt of a perfect square exact (rule of C02)
    from ..report import SubRun
    from . import c02
    run.rule('B-R4i', floor=4, desc='exact-remainder idioms of division and square root')
    c02.check_sticky_idioms(SubRun(run, keep=('B-R4i',)), ix)
    # the exactness nudge of mpf_nthroot: for the downward modes the radicand (not the root) is incremented
    # by one unit before nthroot_fixed, which lifts a perfect power above its exact root before truncation
    f = ix.func(LIBELE, 'mpf_nthroot')
    calls = [c for c in _walk_own(f.node) if isinstance(c, ast.Call) and norm(c.func) == 'nthroot_fixed']
    nudges = [x.targets[0].id for x in _walk_own(f.node) if isinstance(x, ast.Assign) and isinstance(x.targets[0], ast.Name)
              and isinstance(x.value, ast.Constant) and x.value.value == 1 and
              isinstance(getattr(x, '_parent', None), ast.If) and 'rnd' in norm(x._parent.test)]
    if len(calls) != 1 or not nudges:
        raise AnalysisError('mpf_nthroot: root call / rounding nudge not found')
    nm = nudges[0]
    arg = calls[0].args[0]
    in_radicand = isinstance(arg, ast.BinOp) and isinstance(arg.op, ast.Add) and nm in (norm(arg.left), norm(arg.right))
    elsewhere = [x for x in _walk_own(f.node) if isinstance(x, ast.Name) and x.id == nm and isinstance(x.ctx, ast.Load)
                 and not any(x is y for y in ast.walk(calls[0]))]
    if in_radicand and not elsewhere:
        run.ok('B-R4i', 'mpf_nthroot: the nudge %s is added to the radicand inside nthroot_fixed(...)' % nm)
    else:
        st = calls[0]
        while not isinstance(st, ast.stmt):
            st = st._parent
        run.fail(Finding('B-R4i', LIBELE, f.qualname, norm(st),
                         'the exactness nudge `%s` is not applied to the radicand (it is %s): one unit on the computed root '
                         'does not cover the truncation of the mantissa and the floor errors of the Newton iteration, so '
                         'roots of perfect powers come out one ulp low in the downward modes'
                         % (nm, 'used at `%s`' % norm(elsewhere[0]._parent, 50) if elsewhere else 'missing'), line=st.lineno))
    # ---- B-R10: guard bits must follow the size of an amplifying multiplier
    from .kernel_rules import check_amplified_error
    run.rule('B-R10', floor=6, desc='amplified intermediates carry multiplier-dependent guard bits')
    check_amplified_error(run, ix, 'B-R10')
    # ---- S-R2: documented limits at 0, +-inf and nan (sa/checks/special_rules.py) ------------------------
    from .special_rules import check_special_values, ELEMENTARY
    run.rule('S-R2', floor=50, desc='documented limits of the elementary kernels on every special operand class')
    check_special_values(run, ix, 'S-R2', sorted(ELEMENTARY))
    check_cancelling_sums(run, ix)
    check_exact_root_exits(run, ix)
    check_half_integer_route(run, ix)
    check_powm1_exact_path(run, ix)
    # E-X5: sqrt of a perfect square is exact under the downward modes only if the integer square root it takes is
    # the exact floor root: the root-offset rules of the C37 module on isqrt_python / sqrtrem_python
    from ..report import SubRun
    from . import c37
    run.rule('E-X5', floor=5, desc='the Python integer square roots return the exact floor root (rules Y-R6 / Y-R7 of C37)')
    c37.check_root_exits(SubRun(run, keep=('Y-R6', 'Y-R7'), rename=lambda r: 'E-X5'), ix)
    check_mod_pi2_escalation(run, ix)
    # ---- B-R8: real-axis delegation of the complex exp/trig family ---------------------------------
    run.rule('B-R8', floor=10, desc='complex exp/trig kernels delegate real-axis arguments to the real kernel')
    for name in AXIS_FAMILY:
        f = ix.func(LIBMPC, name)
        ok, why = axis_delegation(f)
        if ok:
            run.ok('B-R8', '%s: %s' % (name, why))
        else:
            run.fail(Finding('B-R8', LIBMPC, name, 'def %s' % name,
                             '%s: all %d members of the complex exp/trig family hand a complex-typed real '
                             'argument to the real kernel (which reduces the argument carefully); the general '
                             'formula cancels near the real zeros/poles, so finite values become '
                             'ZeroDivisionError or garbage there' % (why, len(AXIS_FAMILY)), line=f.lineno))


# --------------------------------------------------------------------------- R-C1
# value ranges of the real kernels the complex trigonometric family is built from
RANGE_OF_CALL = {
    'mpf_cos_sin': ('UNIT', 'UNIT'), 'mpf_cos_sin_pi': ('UNIT', 'UNIT'),
    'mpf_cosh_sinh': ('GE1', 'ANY'),
    'mpf_cos': 'UNIT', 'mpf_sin': 'UNIT', 'mpf_cos_pi': 'UNIT', 'mpf_sin_pi': 'UNIT',
    'mpf_cosh': 'GE1', 'mpf_sinh': 'ANY', 'mpf_exp': 'POS', 'mpf_abs': 'GE0', 'mpf_sqrt': 'GE0',
}
NONNEG = ('GE0', 'GE1', 'POS')


class RangeScan(object):
    """UNIT = [-1, 1], GE1 = [1, inf), GE0 = [0, inf), POS = (0, inf), ANY.  A sum of a UNIT and a GE1 value
    (cos + cosh, 1 + cos, cosh - cos ...) can vanish although both terms have size one: all digits cancel."""

    def __init__(self, fn):
        self.rng = {}
        self.sites = []          # (call, verdict, text)
        for st in _walk_own(fn):
            if isinstance(st, ast.Assign) and len(st.targets) == 1:
                self.bind(st.targets[0], self.of(st.value))
        for c in _walk_own(fn):
            if isinstance(c, ast.Call) and isinstance(c.func, ast.Name) and c.func.id in ('mpf_add', 'mpf_sub') \
                    and len(c.args) >= 2:
                a, b = self.of(c.args[0]), self.of(c.args[1])
                if isinstance(a, tuple) or isinstance(b, tuple) or a is None or b is None:
                    continue
                sub = c.func.id == 'mpf_sub'
                if {a, b} == {'UNIT', 'GE1'}:
                    self.sites.append((c, 'cancels', '%s of a value in [-1, 1] and a value >= 1' %
                                       ('difference' if sub else 'sum')))
                elif a in NONNEG and b in NONNEG and not sub:
                    self.sites.append((c, 'ok', 'sum of two non-negative values'))
                elif a == b == 'UNIT' or (sub and a in NONNEG and b in NONNEG):
                    self.sites.append((c, 'cancels', 'the two terms can be equal'))

    def bind(self, t, r):
        if isinstance(t, ast.Name):
            if r is not None:
                # a name bound twice keeps a range only when both agree
                self.rng[t.id] = r if self.rng.get(t.id, r) == r else 'ANY'
        elif isinstance(t, ast.Tuple) and isinstance(r, tuple) and len(r) == len(t.elts):
            for e, x in zip(t.elts, r):
                self.bind(e, x)

    def of(self, e):
        if isinstance(e, ast.Name):
            if e.id == 'fone':
                return 'GE1'
            return self.rng.get(e.id)
        if isinstance(e, ast.Call) and isinstance(e.func, ast.Name):
            f = e.func.id
            if f in RANGE_OF_CALL:
                return RANGE_OF_CALL[f]
            if f == 'mpf_mul' and len(e.args) >= 2:
                if norm(e.args[0]) == norm(e.args[1]):
                    return 'GE0'                       # a square
                a, b = self.of(e.args[0]), self.of(e.args[1])
                if a in NONNEG and b in NONNEG:
                    return 'GE0'
                if a == b == 'UNIT':
                    return 'UNIT'
                return 'ANY' if a and b else None
            if f == 'mpf_shift' and e.args:
                r = self.of(e.args[0])
                return {'GE1': 'POS', 'UNIT': 'ANY'}.get(r, r)
            if f in ('mpf_add',) and len(e.args) >= 2:
                a, b = self.of(e.args[0]), self.of(e.args[1])
                if a in NONNEG and b in NONNEG:
                    return 'GE0'
                return 'ANY' if a and b else None
            if f in ('mpf_neg', 'mpf_sub', 'mpf_div'):
                return 'ANY'
        return None


def check_cancelling_sums(run, ix):
    """R-C1.  In the complex trigonometric kernels (functions of libmpc.py that take both a circular and a
    hyperbolic real kernel) a sum or difference at a fixed working precision must not combine a value in [-1, 1]
    with a value >= 1: cos(2a) + cosh(2b) is the denominator of tan(a+bi) and vanishes to working precision near
    every pole, where the function is finite (ZeroDivisionError, or a quotient of rounding noise).  Sums of
    squares / of non-negative values are the cancellation-free form and are counted as discharged."""
    run.rule('R-C1', floor=1, desc='no sum of a [-1,1] value and a >=1 value at fixed precision in the complex trig kernels')
    # positive control
    demo = ast.parse('def f(a, b, wp):\n    c, s = mpf_cos_sin(a, wp)\n    ch, sh = mpf_cosh_sinh(b, wp)\n'
                     '    mag = mpf_add(c, ch, wp)\n    return mpf_div(s, mag, wp)\n').body[0]
    for n_ in ast.walk(demo):
        for ch_ in ast.iter_child_nodes(n_):
            ch_._parent = n_
    if [v for _, v, _ in RangeScan(demo).sites] != ['cancels']:
        raise AnalysisError('R-C1 detector does not recognise its positive example')
    m = ix.module(LIBMPC)
    judged = 0
    for f in m.funcs.values():
        if f.parent is not None or not isinstance(f.node, ast.FunctionDef):
            continue
        names = {c.func.id for c in _walk_own(f.node) if isinstance(c, ast.Call) and isinstance(c.func, ast.Name)}
        if not (names & {'mpf_cos_sin', 'mpf_cos_sin_pi', 'mpf_cos', 'mpf_sin'} and
                names & {'mpf_cosh_sinh', 'mpf_cosh', 'mpf_sinh'}):
            continue
        judged += 1
        for c, verdict, text in RangeScan(f.node).sites:
            if verdict == 'ok':
                run.ok('R-C1', '%s: %s -- %s' % (f.name, norm(c, 70), text))
            else:
                run.fail(Finding('R-C1', LIBMPC, f.name, norm(c), '%s at the fixed precision `%s`: near a zero of the '
                                 'sum every digit cancels (tan(mpc(pi/2, 1e-30)) lost 12 orders of magnitude, and '
                                 'raised ZeroDivisionError where tan is finite); use a cancellation-free form such as '
                                 'cos(a)^2 + sinh(b)^2' % (text, norm(c.args[2]) if len(c.args) > 2 else 'default'),
                                 line=c.lineno))
    run.stats['complex_trig_kernels_scanned'] = judged
    if judged < 6:
        raise AnalysisError('R-C1: only %d complex trigonometric kernels found' % judged)


# --------------------------------------------------------------------------- E-X1
def check_exact_root_exits(run, ix):
    """E-X1.  root(x**n, n) is exact in every rounding mode only if every result of mpf_nthroot for n >= 2 is
    first offered to the perfect-power test: each binding of the value that the function returns (the Newton
    branch and the exp/log branch) has the shape `exact_nthroot(s, n, prec, <approximation>) or <rounded>`, and
    the test itself is sound and complete for its purpose -- it returns a candidate only after `c**n == man`
    held for it, rejects an exponent that is not a multiple of n and a root longer than prec, and tries the
    neighbours of the truncated approximation."""
    run.rule('E-X1', floor=5, desc='every n >= 2 result of mpf_nthroot passes the perfect-power test first')
    f = ix.func(LIBELE, 'mpf_nthroot')
    par = f.params
    roots = [c for c in _walk_own(f.node) if isinstance(c, ast.Call) and isinstance(c.func, ast.Name)
             and c.func.id in ('nthroot_fixed', 'mpf_pow')]
    if len(roots) < 2:
        raise AnalysisError('mpf_nthroot: the two root computations were not found')
    # every final rounding of an approximate root (from_man_exp(..., prec, rnd) / mpf_pos(r, prec, rnd) after a root
    # computation) must be reached only when the perfect-power test has failed
    first = min(rc.lineno for rc in roots)

    def is_exact_call(c):
        return isinstance(c, ast.Call) and norm(c.func) == 'exact_nthroot' and len(c.args) == 4 \
            and [norm(a) for a in c.args[:3]] == [par[0], par[1], par[2]]
    exact_names = {a.targets[0].id for a in _walk_own(f.node) if isinstance(a, ast.Assign) and len(a.targets) == 1
                   and isinstance(a.targets[0], ast.Name) and is_exact_call(a.value)}

    def mentions_exact(e):
        return any(is_exact_call(c) or (isinstance(c, ast.Name) and c.id in exact_names) for c in ast.walk(e))

    def failed_branch(test):
        """'body' / 'orelse': the branch of `if test` taken when the exact test FAILED, None if unclear"""
        t = test
        if isinstance(t, ast.UnaryOp) and isinstance(t.op, ast.Not) and mentions_exact(t.operand):
            return 'body'
        if isinstance(t, ast.Compare) and len(t.ops) == 1 and norm(t.comparators[0]) == 'None' and mentions_exact(t.left):
            return 'body' if isinstance(t.ops[0], (ast.Is, ast.Eq)) else 'orelse'
        if mentions_exact(t) and isinstance(t, (ast.Name, ast.Call)):
            return 'orelse'
        return None
    roundings = [c for c in _walk_own(f.node) if isinstance(c, ast.Call) and c.lineno >= first and
                 ((norm(c.func) == 'from_man_exp' and len(c.args) == 4 and norm(c.args[2]) == par[2]) or
                  (norm(c.func) == 'mpf_pos' and len(c.args) == 3 and norm(c.args[1]) == par[2]) or
                  (norm(c.func) in ('normalize', 'normalize1') and len(c.args) == 6 and norm(c.args[4]) == par[2]))
                 and not any(c is a or any(c is y for y in ast.walk(a)) for e in _walk_own(f.node)
                             if is_exact_call(e) for a in e.args)]
    if len(roundings) < 2:
        raise AnalysisError('mpf_nthroot: the final roundings of the two branches were not found')
    for c in roundings:
        guarded = False
        child, p_ = c, getattr(c, '_parent', None)
        while p_ is not None and p_ is not f.node:
            if isinstance(p_, ast.BoolOp) and isinstance(p_.op, ast.Or):
                k = [i for i, v in enumerate(p_.values) if v is child or any(child is y for y in ast.walk(v))]
                if k and any(mentions_exact(v) for v in p_.values[:k[0]]):
                    guarded = True
            if isinstance(p_, ast.IfExp) and mentions_exact(p_.test):
                guarded = guarded or (child is p_.orelse and isinstance(p_.test, (ast.Name, ast.Call)))
            if isinstance(p_, ast.If):
                br = failed_branch(p_.test)
                if br and child in getattr(p_, br):
                    guarded = True
            child, p_ = p_, getattr(p_, '_parent', None)
        st = c
        while not isinstance(st, ast.stmt):
            st = st._parent
        if guarded:
            run.ok('E-X1', 'mpf_nthroot: `%s` is reached only after the perfect-power test failed' % norm(c, 60))
        else:
            run.fail(Finding('E-X1', LIBELE, 'mpf_nthroot', norm(st), 'this branch rounds its approximate root '
                             'without testing for a perfect power first: under a directed mode the root of x**n '
                             'comes out one unit off (mpf_nthroot(1.0, 17, 53, \'u\') == 1 + 2**-52, the 21st root '
                             'of 2**21 rounded down is 2 - 2**-52)', line=st.lineno))
    h = ix.find_func(LIBELE, 'exact_nthroot')
    if h is None:
        if any(x.rule == 'E-X1' for x in run.findings):
            return
        raise AnalysisError('exact_nthroot not found')
    rets = [r for r in _walk_own(h.node) if isinstance(r, ast.Return)]
    valued = [r for r in rets if not (r.value is None or (isinstance(r.value, ast.Constant) and r.value.value is None))]
    # soundness: every non-None return sits under a test that contains c**n == man
    for r in valued:
        p_, okp = getattr(r, '_parent', None), False
        while p_ is not None and p_ is not h.node:
            if isinstance(p_, ast.If) and any(isinstance(c, ast.Compare) and isinstance(c.ops[0], ast.Eq)
                                              and isinstance(c.left, ast.BinOp) and isinstance(c.left.op, ast.Pow)
                                              and norm(c.comparators[0]) == 'man' for c in ast.walk(p_.test)):
                okp = True
            p_ = getattr(p_, '_parent', None)
        if okp:
            run.ok('E-X1', 'exact_nthroot: `%s` only after c**n == man' % norm(r, 50))
        else:
            run.fail(Finding('E-X1', LIBELE, 'exact_nthroot', norm(r), 'a candidate root is returned without the '
                             'exact test c**n == man', line=r.lineno))
    # the size bound: `K > prec -> None` with K = ceil(bc / n), the bit length of an n-th root of a bc-bit mantissa
    # (a floor under-estimates it by one for almost every root: a (prec+1)-bit root is then returned unrounded)
    kdefs = [a for a in _walk_own(h.node) if isinstance(a, ast.Assign) and norm(a.targets[0]) == 'k']
    ceil_forms = ('(bc + n - 1) // n', '(bc + (n - 1)) // n', '-(-bc // n)', '(n + bc - 1) // n')
    if kdefs and all(norm(a.value) in ceil_forms for a in kdefs):
        run.ok('E-X1', 'exact_nthroot: the size bound uses k = ceil(bc / n)')
    else:
        run.fail(Finding('E-X1', LIBELE, 'exact_nthroot', norm(kdefs[0]) if kdefs else 'def exact_nthroot',
                         'the bit length of the root is not estimated by the ceiling of bc/n (`%s`): a root of prec+1 '
                         'bits passes `k > prec` and is returned unrounded (root((2**53+1)**3, 3) at 53 bits has a '
                         '54-bit mantissa)' % (norm(kdefs[0].value) if kdefs else '?'),
                         line=kdefs[0].lineno if kdefs else h.lineno))
    tests = [norm(t.test) for t in _walk_own(h.node) if isinstance(t, ast.If)]
    for need, why in (('exp % n', 'an exponent that is not a multiple of n'), ('k > prec', 'a root longer than prec')):
        if any(need in t for t in tests):
            run.ok('E-X1', 'exact_nthroot rejects %s' % why)
        else:
            run.fail(Finding('E-X1', LIBELE, 'exact_nthroot', 'def exact_nthroot', 'the test does not reject %s'
                             % why, line=h.lineno))
    loops = [l for l in _walk_own(h.node) if isinstance(l, ast.For) and isinstance(l.iter, ast.Tuple)]
    cands = {norm(e) for l in loops for e in l.iter.elts}
    if {'t - 1', 't', 't + 1'} <= cands:
        run.ok('E-X1', 'exact_nthroot tries the neighbours %s of the truncated approximation' % sorted(cands))
    else:
        run.fail(Finding('E-X1', LIBELE, 'exact_nthroot', 'def exact_nthroot', 'the candidates %s do not include '
                         'both neighbours of the truncated approximation (the approximation may lie on either '
                         'side of the root)' % sorted(cands), line=h.lineno))


# --------------------------------------------------------------------------- E-X6
def check_mod_pi2_escalation(run, ix):
    """E-X6.  "tan, cot, sec and csc return finite values for every finite argument": next to a multiple of pi/2
    the reduced argument is tiny, and mod_pi2 doubles its guard bits until the bits that survive the cancellation
    suffice (`small >> (wp+mag-10)` non-zero).  An argument computed at a much higher precision can be closer than
    any FIXED number of doublings covers; the loop must therefore be unbounded, with the success test as its only
    exit, and the reduced values taken under that test."""
    run.rule('E-X6', floor=2, desc='mod_pi2 escalates its guard bits until the cancellation test passes')
    f = ix.func(LIBELE, 'mod_pi2')
    loops = [x for x in _walk_own(f.node) if isinstance(x, (ast.While, ast.For))]
    esc = [l for l in loops if any(isinstance(a, ast.Assign) and 'cancellation_prec' in norm(a.targets[0])
                                   for a in ast.walk(l))]
    if not esc:
        raise AnalysisError('mod_pi2: escalation loop not found')
    lp = esc[0]
    if isinstance(lp, ast.While) and isinstance(lp.test, ast.Constant) and lp.test.value:
        run.ok('E-X6', 'mod_pi2: the escalation loop is unbounded')
    else:
        run.fail(Finding('E-X6', LIBELE, 'mod_pi2', norm(lp), 'the escalation of the guard bits is bounded (`%s`): an '
                         'argument closer to a multiple of pi/2 than the last step covers is reduced to 0 or noise, and '
                         'tan / sec / cot / csc return 0 or raise ZeroDivisionError for a finite argument'
                         % norm(lp, 50).split(':')[0], line=lp.lineno))
    brk = [b for b in ast.walk(lp) if isinstance(b, ast.Break)]
    ok = brk and all(isinstance(b._parent, ast.If) and 'small' in norm(b._parent.test) and '>>' in norm(b._parent.test)
                     for b in brk)
    if ok:
        run.ok('E-X6', 'mod_pi2: the only exit is the success test `%s`' % norm(brk[0]._parent.test, 40))
    else:
        run.fail(Finding('E-X6', LIBELE, 'mod_pi2', norm(brk[0]) if brk else norm(lp), 'the escalation loop can be left '
                         'without the cancellation test having passed', line=lp.lineno))


# --------------------------------------------------------------------------- E-X4
def check_powm1_exact_path(run, ix):
    """E-X4.  "powm1(x, y) = 0 exactly when x**y = 1", for mantissas of any size.  powm1 ends in
    sum_accurately([x**y, -1]), which raises the precision by the observed cancellation and -- since the repair of
    its non-termination -- gives up and returns 0 once the sum is still exactly zero at 100*prec + 1000 bits.  For an
    operand whose difference from a root of unity lies deeper than that (x = -(1 + 2**-10000), y = 2) the answer 0 is
    wrong.  For an integer exponent the power is a finite binary number; a zero coming out of the summation must
    therefore be re-examined: the value of sum_accurately is not returned directly, but under `not w and
    ctx.isint(y)` a branch (a) sets the working precision from the exponent AND the bit span of x, restoring it in a
    finally clause, (b) assigns x**n - one formed there to the same variable, which is then returned."""
    run.rule('E-X4', floor=3, desc='powm1 re-examines a zero of the cancelling summation for integer exponents')
    f = ix.func('mpmath/functions/functions.py', 'powm1')
    par = f.params
    direct = [r for r in _walk_own(f.node) if isinstance(r, ast.Return) and r.value is not None and
              'sum_accurately' in norm(r.value)]
    stores = [a for a in _walk_own(f.node) if isinstance(a, ast.Assign) and 'sum_accurately' in norm(a.value) and
              isinstance(a.targets[0], ast.Name)]
    if not direct and not stores:
        raise AnalysisError('powm1: the sum_accurately fallback was not found')
    if direct:
        run.fail(Finding('E-X4', f.file, f.qualname, norm(direct[0]),
                         'the value of the cancelling summation is returned as it is: once x**y - 1 vanishes at '
                         '100*prec + 1000 bits it is 0 although x**y != 1 (powm1(-(1 + 2**-10000), 2))',
                         line=direct[0].lineno))
        return
    w = stores[0].targets[0].id
    branch = None
    for x in f.node.body:
        if isinstance(x, ast.If) and x.lineno > stores[0].lineno:
            cs = [norm(c).replace(' ', '') for c in (x.test.values if isinstance(x.test, ast.BoolOp) and
                                                     isinstance(x.test.op, ast.And) else [x.test])]
            if 'not%s' % w in cs and '%s.isint(%s)' % (par[0], par[2]) in cs:
                branch = x
    if branch is None:
        run.fail(Finding('E-X4', f.file, f.qualname, norm(stores[0]),
                         'a zero of the cancelling summation is not re-examined for integer exponents (no branch under '
                         '`not %s and %s.isint(%s)`): powm1(-(1 + 2**-10000), 2) is 0 although x**y != 1'
                         % (w, par[0], par[2]), line=stores[0].lineno))
        return
    run.ok('E-X4', 'a zero of the summation is re-examined for integer exponents: `if %s`' % norm(branch.test, 50))
    sets = [a for a in ast.walk(branch) if isinstance(a, ast.Assign) and norm(a.targets[0]) == '%s.prec' % par[0]]
    tries = [t for t in ast.walk(branch) if isinstance(t, ast.Try) and t.finalbody]
    raised = [a for a in sets if any(a in list(ast.walk(t_)) for t in tries for t_ in t.body)]
    restored = any(isinstance(s_, ast.Assign) and norm(s_.targets[0]) == '%s.prec' % par[0] and
                   isinstance(s_.value, ast.Name) for t in tries for s_ in t.finalbody)
    names = set()
    for a in raised:
        todo = [a.value]
        seen = set()
        while todo:
            e = todo.pop()
            for n_ in ast.walk(e):
                if isinstance(n_, ast.Name) and n_.id not in seen:
                    seen.add(n_.id)
                    for d in ast.walk(branch):
                        if isinstance(d, ast.Assign) and any(norm(t) == n_.id for t in d.targets):
                            todo.append(d.value)
        names |= seen
    uses_exponent = par[2] in names
    uses_size = par[1] in names and any(isinstance(c, ast.Attribute) and c.attr == '_mpf_'
                                        for a in ast.walk(branch) if isinstance(a, ast.Assign)
                                        for c in ast.walk(a.value))
    if raised and restored and uses_exponent and uses_size:
        run.ok('E-X4', 'working precision of the exact power derived from the exponent and the bit span of x: `%s`'
               % norm(raised[0], 60))
    else:
        run.fail(Finding('E-X4', f.file, f.qualname, norm(raised[0]) if raised else norm(branch.test),
                         'the re-examination does not set (and restore) a working precision computed from both the '
                         'exponent and the size of x: the power is not exact and the subtraction can still cancel '
                         'completely', line=branch.lineno))
    power = any(isinstance(a, ast.Assign) and norm(a.targets[0]) == w and isinstance(a.value, ast.BinOp) and
                isinstance(a.value.op, ast.Sub) and norm(a.value.right) in ('one', '1')
                for t in tries for s_ in t.body for a in ast.walk(s_))
    last = f.node.body[-1]
    if power and isinstance(last, ast.Return) and norm(last.value) == w:
        run.ok('E-X4', 'the exact power minus one replaces the zero and is returned')
    else:
        run.fail(Finding('E-X4', f.file, f.qualname, norm(branch.test), 'the re-examination does not replace the zero '
                         'by x**n - 1 formed at the raised precision (or the function does not return it)',
                         line=branch.lineno))


    # a size bound on the exact power needs an else: beyond the bound the zero must not be returned either (fourth C13
    # hunt, repair 399d6d5: powm1(-(1 + 2**-14000), 72) was 0)
    bounded = [i for i in ast.walk(branch) if isinstance(i, ast.If) and i is not branch and
               any(t in list(ast.walk(i)) for t in tries) and
               any(isinstance(c, ast.Constant) or isinstance(c, ast.BinOp) for c in ast.walk(i.test))]
    for i in bounded:
        replaced = [a for b in i.orelse for a in ast.walk(b) if isinstance(a, ast.Assign) and norm(a.targets[0]) == w
                    and not any(isinstance(y_, ast.Name) and y_.id == w for y_ in ast.walk(a.value))]
        if replaced:
            run.ok('E-X4', 'beyond the size bound `%s` the zero is replaced as well (line %d)' % (norm(i.test, 40), replaced[0].lineno))
        else:
            run.fail(Finding('E-X4', f.file, f.qualname, norm(i.test),
                             'the exact power is taken only under `%s` and nothing replaces the zero of the summation beyond '
                             'that bound: powm1(-(1 + 2**-14000), 72) is 0.0 although x**y - 1 is about 2.7e-4213'
                             % norm(i.test, 50), line=i.lineno))


# --------------------------------------------------------------------------- E-X2
def check_half_integer_route(run, ix):
    """E-X2.  (perfect square)**(k/2) is an exact input/output pair (9**1.5 = 27, 4**5000.5 = 2**10001): it is exact
    only because an exponent k/2 is routed through an exact square root followed by an integer power; the general
    exp(t*log s) formula carries a relative error of |t log s| 2**-wp and returns the neighbouring number under a
    directed mode.  In mpf_pow and mpc_pow_mpf the branch for a binary exponent of -1 must therefore cover EVERY
    odd mantissa: its test is the exponent test alone, every path through it returns, and every return is built
    from the square-root kernel."""
    run.rule('E-X2', floor=2, desc='every half-integer exponent is routed through the exact square root')
    for rel, name, sq in ((LIBELE, 'mpf_pow', 'mpf_sqrt'), (LIBMPC, 'mpc_pow_mpf', 'mpc_sqrt')):
        f = ix.func(rel, name)
        cands = [x for x in f.node.body if isinstance(x, ast.If)
                 and any(isinstance(c, ast.Compare) and len(c.ops) == 1 and isinstance(c.ops[0], ast.Eq) and
                         sorted([norm(c.left), norm(c.comparators[0])])[0] == '-1' and
                         sorted([norm(c.left), norm(c.comparators[0])])[1].endswith('exp')
                         for c in ast.walk(x.test))]
        if not cands:
            run.fail(Finding('E-X2', rel, name, 'def %s' % name, 'no branch for exponents k/2 (binary exponent -1): '
                             'x**(k/2) of a perfect square goes through exp(t log x) and is not exact under a '
                             'directed rounding mode (9**1.5 rounded down is 26.999999999999996)', line=f.lineno))
            continue
        br = cands[0]
        problems = []
        if not isinstance(br.test, ast.Compare):
            problems.append('its test `%s` restricts the mantissa of the exponent, so other half-integers '
                            '(1.5, 2.5, -1.5 ...) fall through to exp(t log x)' % norm(br.test))
        from .c06 import _always_leaves
        if not _always_leaves(br.body):
            problems.append('a path through it does not return')
        rets = [r for r in ast.walk(br) if isinstance(r, ast.Return)]
        names_in = {n.id for n in ast.walk(br) if isinstance(n, ast.Name)}
        assigned = {}
        for a in ast.walk(br):
            if isinstance(a, ast.Assign) and len(a.targets) == 1 and isinstance(a.targets[0], ast.Name):
                assigned[a.targets[0].id] = a.value
        for r in rets:
            srcs = [norm(c.func) for c in ast.walk(r.value) if isinstance(c, ast.Call)]
            for n_ in ast.walk(r.value):
                if isinstance(n_, ast.Name) and n_.id in assigned:
                    srcs += [norm(c.func) for c in ast.walk(assigned[n_.id]) if isinstance(c, ast.Call)]
            if sq not in srcs:
                problems.append('`%s` does not use %s' % (norm(r, 60), sq))
        if problems:
            run.fail(Finding('E-X2', rel, name, 'if %s' % norm(br.test), 'the half-integer branch is incomplete: %s; '
                             '(perfect square)**(k/2) is then not exact (9**1.5 rounded down is 26.999999999999996, '
                             '4**5000.5 != 2**10001)' % '; '.join(problems), line=br.lineno))
        else:
            run.ok('E-X2', '%s: `if %s` returns %s-based values on all %d exits' % (name, norm(br.test), sq, len(rets)))
