"""C38 -- contexts are isolated from each other.

"A cloned context computes the same values as mp" is numerical and NOT decided.
Decided clauses: every channel through which one context's precision, settings
or numbers could reach another is closed in the source.

  X-R1  per-instance precision cell and number classes: each context class
        creates, in its own __init__, a fresh list for the precision cell, fresh
        number classes with type(name, (base,), {}), and wires their _ctxdata /
        context back-references to THIS instance's cell and classes
  X-R2  per-instance mutable state: every container attribute of a context
        that is mutated anywhere in the package (ctx.X[k] = v, ctx.X.append, ...,
        also through a local alias) is created fresh in an __init__ of the
        context hierarchy (or lazily by the mutating function itself); none is a
        class-body mutable; none is assigned from another object's attribute
  X-R3  clone: builds a new instance through the class constructor and copies
        scalar settings only (no container, class or cache of the original is
        shared; no copy.copy of the context)
  X-R4  the module globals installed for pickling (ctx_mp_python.mpf/.mpc,
        matrices.matrix: always the global mp's classes) are never read by the
        code of those modules; number-class methods allocate results from the
        receiver's own classes (cls from _ctxdata, <recv>.context.X, <recv>.ctx.X)
  X-R5  no library module refers to the global instances mp / fp / iv (only
        through the explicit ctx._mp back-reference)
  X-R6  foreign precision cell: a function that runs precision-changing code
        on ANOTHER context (passes <x>._mp to a callee whose summary leaves the
        precision changed, or writes <x>._mp.prec) snapshots that context's
        precision first and restores it in a finally clause
  X-R7  settings of the fixed-precision context: FPContext's prec/dps setters
        store nothing (so nothing set on fp can reach mp), and the shared
        class-level registries (defined_functions) are written only at import
        time by the decorators, never from a method
  X-R3c clone copies every public setting the constructors initialise with a
        constant (trap_complex, pretty)
  X-R10 data computed in a borrowed context (<x>._mp passed to a callee) holds
        no unevaluated lazy constant;  X-R11 the borrowed context's
        trap_complex is saved, switched off and restored around the computation
"""
import ast

from ..index import AnalysisError, norm
from ..prec_effect import _walk_own
from ..report import Finding
from ..resolve import get_resolver, CONTEXT_CLASSES

CTXPY = 'mpmath/ctx_mp_python.py'
CTXMP = 'mpmath/ctx_mp.py'
CTXIV = 'mpmath/ctx_iv.py'
CTXFP = 'mpmath/ctx_fp.py'
INIT = 'mpmath/__init__.py'
MUTATORS = {'append', 'update', 'setdefault', 'pop', 'clear', 'extend', 'insert', 'remove',
            'popitem', 'sort', 'reverse', 'add', 'discard'}
# scalar settings clone may copy (immutable values read through the context)
CLONE_SCALARS = {'prec', 'dps', 'pretty', 'trap_complex', 'verbose'}
# references to the other contexts (mp / fp / iv) that some functions compute with
COMPANION_LINKS = ('_mp', '_fp', '_iv')
LINKS_IN_CLONE = set()
# modules allowed to name the global instances
GLOBAL_INSTANCE_OWNERS = {'mpmath/__init__.py'}


def F(rule, file, qn, node_or_text, reason, line=None):
    site = node_or_text if isinstance(node_or_text, str) else norm(node_or_text)
    if line is None and not isinstance(node_or_text, str):
        line = getattr(node_or_text, 'lineno', None)
    return Finding(rule, file, qn, site, reason, line=line)


def is_fresh_container(v):
    if isinstance(v, (ast.Dict, ast.List, ast.Set, ast.ListComp, ast.DictComp, ast.SetComp)):
        # elements must not alias other objects' containers: literals / fresh displays only
        return True
    if isinstance(v, ast.Call) and norm(v.func) in ('dict', 'list', 'set') and not v.args:
        return True
    return False


# --------------------------------------------------------------------------- X-R1
def check_cells(run, ix):
    """the precision cell and number classes of mp and iv contexts"""
    specs = [
        (CTXPY, 'PythonMPContext', '_prec_rounding', ('mpf', 'mpc', 'constant'), 'context'),
        (CTXIV, 'MPIntervalContext', '_prec', ('mpf', 'mpc', '_constant'), 'ctx'),
    ]
    for rel, cname, cell, classes, backref in specs:
        m = ix.module(rel)
        ci = m.classes.get(cname)
        if ci is None or '__init__' not in ci.methods:
            raise AnalysisError('%s.__init__ vanished' % cname)
        init = ci.methods['__init__']
        me = init.params[0]
        assigns = {}
        for st in _walk_own(init.node):
            if isinstance(st, ast.Assign):
                for t in st.targets:
                    assigns.setdefault(norm(t), []).append(st)
        # the cell: assigned once, a list display of constants
        cs = assigns.get('%s.%s' % (me, cell), [])
        if len(cs) == 1 and isinstance(cs[0].value, ast.List) and \
                not any(isinstance(x, (ast.Attribute, ast.Call)) for e in cs[0].value.elts for x in ast.walk(e)):
            run.ok('X-R1', '%s: %s.%s is a fresh list per instance' % (cname, me, cell))
        else:
            run.fail(F('X-R1', rel, init.qualname, cs[0] if cs else '%s.%s = ...' % (me, cell),
                       'the precision cell %s is not created as a fresh list in __init__ (a shared or '
                       'borrowed list couples the precision of several contexts)' % cell, line=init.lineno))
        # class-body definition of the cell would be shared
        for c2 in ix_hierarchy(ix, cname):
            if cell in c2.assigns and is_fresh_container(c2.assigns[cell]):
                run.fail(F('X-R1', c2.module.relpath, c2.qualname, '%s = %s' % (cell, norm(c2.assigns[cell])),
                           'the precision cell is a class attribute: shared by every instance'))
        for k in classes:
            key = '%s.%s' % (me, k)
            ks = assigns.get(key, [])
            v = ks[0].value if len(ks) == 1 else None
            if v is not None and isinstance(v, ast.Call) and norm(v.func) == 'type' and len(v.args) == 3 and \
                    isinstance(v.args[2], ast.Dict) and not v.args[2].keys:
                run.ok('X-R1', '%s: %s is a fresh class per instance' % (cname, key))
            else:
                run.fail(F('X-R1', rel, init.qualname, ks[0] if ks else key + ' = ...',
                           'number class %s is not created per instance with type(name, bases, {}): '
                           'instances of several contexts would share one class and thus one '
                           '_ctxdata / precision' % k, line=init.lineno))
            # _ctxdata wiring: a list whose last element is this instance's cell and whose first is a
            # class of this instance
            ds = assigns.get(key + '._ctxdata', [])
            if len(ds) == 1 and isinstance(ds[0].value, ast.List) and len(ds[0].value.elts) == 3 and \
                    norm(ds[0].value.elts[2]) == '%s.%s' % (me, cell) and \
                    norm(ds[0].value.elts[0]) in ('%s.%s' % (me, c) for c in classes):
                run.ok('X-R1', '%s: %s._ctxdata -> [%s, new, %s.%s]' % (cname, key, norm(ds[0].value.elts[0]), me, cell))
            else:
                run.fail(F('X-R1', rel, init.qualname, ds[0] if ds else key + '._ctxdata = ...',
                           '%s._ctxdata is not [<own class>, new, %s.%s]: numbers of this context would '
                           'round with another cell' % (key, me, cell), line=init.lineno))
            bs = assigns.get('%s.%s' % (key, backref), [])
            if len(bs) == 1 and norm(bs[0].value) == me:
                run.ok('X-R1', '%s: %s.%s = %s' % (cname, key, backref, me))
            else:
                run.fail(F('X-R1', rel, init.qualname, bs[0] if bs else '%s.%s = ...' % (key, backref),
                           'back-reference %s.%s is not this instance' % (key, backref), line=init.lineno))
    # setters write the element of the cell (not a rebind)  -- decided under C11 (A-R6); the fp
    # context has no cell
    # matrix class per context
    m = ix.module('mpmath/matrices/matrices.py')
    mm = m.classes.get('MatrixMethods')
    if mm is None or '__init__' not in mm.methods:
        raise AnalysisError('MatrixMethods.__init__ vanished')
    init = mm.methods['__init__']
    me = init.params[0]
    ok = 0
    for st in _walk_own(init.node):
        if isinstance(st, ast.Assign) and norm(st.targets[0]) == me + '.matrix':
            v = st.value
            if isinstance(v, ast.Call) and norm(v.func) == 'type' and len(v.args) == 3:
                ok += 1
        if isinstance(st, ast.Assign) and norm(st.targets[0]) == me + '.matrix.ctx' and norm(st.value) == me:
            ok += 1
    if ok == 2:
        run.ok('X-R1', 'MatrixMethods: matrix class per context with ctx back-reference')
    else:
        run.fail(F('X-R1', m.relpath, init.qualname, init.node, 'the matrix class is not created per '
                   'context with a back-reference to it'))


def ix_hierarchy(ix, cname):
    res = get_resolver(ix)
    return [res.classes[c] for c in res.mro(cname) if c in res.classes]


# --------------------------------------------------------------------------- X-R2
def ctx_receivers(f, res):
    """names that denote a context inside f: first parameter of methods of the context hierarchy,
    of @defun-style functions (first param named ctx), and `self.ctx`"""
    out = set()
    top = f
    while top.parent is not None:
        top = top.parent
    for g in (f, top):
        if g.params:
            p0 = g.params[0]
            if p0 == 'ctx' or (g.cls and g.cls.split('.')[-1] in res.context_class_names and p0 in ('self', 'ctx', 'cls')):
                out.add(p0)
    return out


def check_instance_state(run, ix):
    res = get_resolver(ix)
    mutated = {}          # attr -> [(func, node)]
    assigned = {}         # attr -> [(func, stmt, value)]
    for m in ix.modules.values():
        for f in m.funcs.values():
            recv = ctx_receivers(f, res)
            if not recv:
                continue
            aliases = {}
            for x in _walk_own(f.node):
                if isinstance(x, ast.Assign):
                    v = x.value
                    for t in x.targets:
                        if isinstance(t, ast.Attribute) and isinstance(t.value, ast.Name) and t.value.id in recv:
                            assigned.setdefault(t.attr, []).append((f, x, v))
                    if isinstance(v, ast.Attribute) and isinstance(v.value, ast.Name) and v.value.id in recv:
                        for t in x.targets:
                            if isinstance(t, ast.Name):
                                aliases[t.id] = v.attr
            for x in _walk_own(f.node):
                tgt = None
                if isinstance(x, ast.Subscript) and isinstance(x.ctx, (ast.Store, ast.Del)):
                    tgt = x.value
                elif isinstance(x, ast.Call) and isinstance(x.func, ast.Attribute) and x.func.attr in MUTATORS:
                    tgt = x.func.value
                if tgt is None:
                    continue
                # peel subscripts: ctx._rs_cache[2][k] = v mutates what hangs off ctx._rs_cache
                while isinstance(tgt, ast.Subscript):
                    tgt = tgt.value
                if isinstance(tgt, ast.Attribute) and isinstance(tgt.value, ast.Name) and tgt.value.id in recv:
                    mutated.setdefault(tgt.attr, []).append((f, x))
                elif isinstance(tgt, ast.Name) and tgt.id in aliases:
                    mutated.setdefault(aliases[tgt.id], []).append((f, x))
    # class-body containers in the hierarchy
    classbody = {}
    for key, (rel, cname) in CONTEXT_CLASSES.items():
        for ci in ix_hierarchy(ix, cname):
            for a, v in ci.assigns.items():
                if is_fresh_container(v) or (isinstance(v, ast.Call) and norm(v.func) in ('dict', 'list', 'set')):
                    classbody.setdefault(a, []).append(ci)
    init_funcs = set()
    for key, (rel, cname) in CONTEXT_CLASSES.items():
        for ci in ix_hierarchy(ix, cname):
            f = ci.methods.get('__init__')
            if f is not None:
                init_funcs.add(f)
    n = 0
    for attr in sorted(mutated):
        sites = mutated[attr]
        f0, x0 = sites[0]
        n += 1
        if attr in classbody:
            # class-level registries: allowed only when never mutated from a function that runs
            # after import (decorators at module level are calls, not function bodies of methods)
            ci = classbody[attr][0]
            run.fail(F('X-R2', f0.file, f0.qualname, x0, 'context attribute `%s` is a class-body container '
                       'of %s (shared by every context instance, clones included) and is mutated in place '
                       'here' % (attr, ci.qualname)))
            continue
        asg = assigned.get(attr, [])
        if not asg:
            # not assigned through a context receiver anywhere: unknown origin
            run.fail(F('X-R2', f0.file, f0.qualname, x0, 'context attribute `%s` is mutated in place but '
                       'never created per instance in the context hierarchy' % attr))
            continue
        site_h = set()
        for g, _ in sites:
            site_h |= hierarchies_of(g, res, ix)
        asg = [(f, st, v) for f, st, v in asg if hierarchies_of(f, res, ix) & site_h]
        if not asg:
            run.fail(F('X-R2', f0.file, f0.qualname, x0, 'context attribute `%s` is mutated in place but '
                       'never created per instance in the context hierarchy' % attr))
            continue
        bad = [(f, st) for f, st, v in asg if not fresh_value(v)]
        in_init = [f for f, st, v in asg if f in init_funcs or f.name in ('__init__', 'clear')]
        lazy = [f for f, st, v in asg if any(f is g for g, _ in sites)]
        if bad:
            f, st = bad[0]
            run.fail(F('X-R2', f.file, f.qualname, st, 'context attribute `%s` (mutated in place in %s) is '
                       'assigned something other than a fresh container: the storage may be shared with '
                       'another context' % (attr, f0.qualname)))
        elif in_init or lazy:
            run.ok('X-R2', 'ctx.%s: fresh container per instance (%s), mutated in %d place(s)'
                   % (attr, (in_init or lazy)[0].qualname, len(sites)))
        else:
            f, st, v = asg[0]
            run.fail(F('X-R2', f.file, f.qualname, st, 'context attribute `%s` is not created in an __init__ '
                       'of the context hierarchy nor by the function that fills it' % attr))
    return n


_H = {}


def hierarchies_of(f, res, ix):
    """context kinds (mp / iv / fp) whose class hierarchy contains the class f is a method of; all of
    them for functions outside the context classes"""
    top = f
    while top.parent is not None:
        top = top.parent
    if not _H:
        for key, (rel, cname) in CONTEXT_CLASSES.items():
            _H[key] = set(res.mro(cname))
    cls = top.cls.split('.')[-1] if top.cls else None
    out = set(k for k, names in _H.items() if cls in names)
    return out or set(_H)


def fresh_value(v):
    if is_fresh_container(v):
        # nested displays are fine; elements that are attribute loads would alias
        for x in ast.walk(v):
            if isinstance(x, ast.Attribute) and not isinstance(getattr(x, '_parent', None), ast.Call):
                pass
        return True
    if isinstance(v, ast.Call) and norm(v.func) in ('dict', 'list', 'set'):
        # a copy of something: fresh storage
        return True
    return False


# --------------------------------------------------------------------------- X-R3
def check_clone(run, ix):
    m = ix.module(CTXMP)
    ci = m.classes.get('MPContext')
    f = ci.methods.get('clone') if ci else None
    if f is None:
        raise AnalysisError('MPContext.clone vanished')
    me = f.params[0]
    new = None
    for st in f.node.body:
        if isinstance(st, ast.Expr) and isinstance(st.value, ast.Constant):
            continue
        if isinstance(st, ast.Assign) and len(st.targets) == 1 and isinstance(st.targets[0], ast.Name) and \
                isinstance(st.value, ast.Call) and not st.value.args and not st.value.keywords and \
                norm(st.value.func) in ('%s.__class__' % me, 'type(%s)' % me, 'MPContext'):
            new = st.targets[0].id
            run.ok('X-R3', 'clone constructs a new instance: %s' % norm(st))
            continue
        # companion-context links: new._mp = new ; for name in ('_fp', '_iv'): if hasattr(me, name): setattr(new, name, getattr(me, name))
        if new and isinstance(st, ast.Assign) and len(st.targets) == 1 and norm(st.targets[0]) == '%s._mp' % new \
                and norm(st.value) == new:
            run.ok('X-R3', 'clone links the copy to itself as its mp context')
            LINKS_IN_CLONE.add('_mp')
            continue
        if new and isinstance(st, ast.For) and isinstance(st.iter, (ast.Tuple, ast.List)) and \
                all(isinstance(e, ast.Constant) and e.value in COMPANION_LINKS for e in st.iter.elts):
            v = norm(st.target)
            body = [norm(x) for x in st.body]
            want = ['if hasattr(%s, %s): setattr(%s, %s, getattr(%s, %s))' % (me, v, new, v, me, v)]
            flat = [norm(x, 200).replace('\n', ' ') for x in st.body]
            ok = len(st.body) == 1 and isinstance(st.body[0], ast.If) and \
                norm(st.body[0].test) == 'hasattr(%s, %s)' % (me, v) and len(st.body[0].body) == 1 and \
                norm(st.body[0].body[0]) == 'setattr(%s, %s, getattr(%s, %s))' % (new, v, me, v)
            if ok:
                run.ok('X-R3', 'clone shares the companion contexts %s (by reference: they are other contexts, not state)'
                       % [e.value for e in st.iter.elts])
                for e in st.iter.elts:
                    LINKS_IN_CLONE.add(e.value)
            else:
                run.fail(F('X-R3', CTXMP, f.qualname, st, 'the loop over link names does more than copy the '
                           'companion-context references'))
            continue
        if new and isinstance(st, ast.Assign) and len(st.targets) == 1 and \
                isinstance(st.targets[0], ast.Attribute) and norm(st.targets[0].value) == new:
            src = st.value
            if isinstance(src, ast.Attribute) and norm(src.value) == me and src.attr in CLONE_SCALARS and \
                    st.targets[0].attr == src.attr:
                run.ok('X-R3', 'clone copies the scalar setting %s' % src.attr)
            elif isinstance(src, ast.Constant):
                run.ok('X-R3', 'clone sets %s to a constant' % st.targets[0].attr)
            else:
                run.fail(F('X-R3', CTXMP, f.qualname, st, 'clone hands `%s` of the original to the copy: only '
                           'scalar settings (%s) may be copied; a shared container, class or cache makes the '
                           'two contexts see each other\'s state' % (norm(src), ', '.join(sorted(CLONE_SCALARS)))))
            continue
        if isinstance(st, ast.Return):
            if new and norm(st.value) == new:
                run.ok('X-R3', 'clone returns the new instance')
            else:
                run.fail(F('X-R3', CTXMP, f.qualname, st, 'clone does not return a freshly constructed '
                           'context (copy.copy / the context itself would share every attribute)'))
            continue
        run.fail(F('X-R3', CTXMP, f.qualname, st, 'statement in clone is not one of: construct new '
                   'instance, copy a scalar setting, return'))
    if new is None:
        run.fail(F('X-R3', CTXMP, f.qualname, f.node, 'clone does not construct a new instance through '
                   'the class constructor'))


# --------------------------------------------------------------------------- X-R8
def check_links(run, ix):
    """X-R8.  Library functions reach companion contexts through ctx._mp / ctx._fp / ctx._iv (zetazero,
    nzeros, primepi2, rs_zeta ...).  Every way of making a context must establish every link that is read:
    the package initialisation for the three global contexts, and clone() for copies -- otherwise a clone
    cannot compute what mp computes (AttributeError)."""
    used = {}
    for rel, m in ix.modules.items():
        if not rel.startswith('mpmath/') or '/tests/' in rel or rel == 'mpmath/__init__.py':
            continue
        for f in m.funcs.values():
            for x in _walk_own(f.node):
                if isinstance(x, ast.Attribute) and x.attr in COMPANION_LINKS and isinstance(x.ctx, ast.Load) and \
                        isinstance(x.value, ast.Name) and x.value.id in ('ctx', 'self'):
                    used.setdefault(x.attr, (rel, f.qualname, x.lineno))
    if len(used) < 2:
        raise AnalysisError('X-R8: uses of the companion-context links not found')
    init = ix.module('mpmath/__init__.py')
    set_in_init = {}
    for x in ast.walk(init.tree):
        if isinstance(x, ast.Assign) and len(x.targets) == 1 and isinstance(x.targets[0], ast.Attribute) and \
                x.targets[0].attr in COMPANION_LINKS and isinstance(x.targets[0].value, ast.Name):
            set_in_init.setdefault(x.targets[0].value.id, set()).add(x.targets[0].attr)
    for link, (rel, qn, line) in sorted(used.items()):
        # iv is not required to have the links: the functions that read them (zeta zeros, Riemann-Siegel,
        # primepi2) do not accept interval arguments at all (iv._mp and iv._iv exist, iv._fp does not)
        for g in ('mp', 'fp'):
            if link in set_in_init.get(g, ()):
                run.ok('X-R8', '%s.%s is set by the package initialisation' % (g, link))
            else:
                run.fail(F('X-R8', 'mpmath/__init__.py', '<module>', '%s.%s' % (g, link),
                           'the global context %s never gets the link %s that %s:%s reads' % (g, link, rel, qn)))
        if link in LINKS_IN_CLONE:
            run.ok('X-R8', 'clone() establishes %s' % link)
        else:
            run.fail(F('X-R8', CTXMP, 'MPContext.clone', 'link %s' % link,
                       'a cloned context has no `%s`, which %s:%s (line %d) reads: the clone raises AttributeError '
                       'where mp returns a value' % (link, rel, qn, line)))


# --------------------------------------------------------------------------- X-R4
def pickle_hack_globals(ix):
    """[(module relpath, global name)] from `<alias>.<name> = mp.<attr>` in __init__.py"""
    m = ix.module(INIT)
    alias = {}
    for st in m.tree.body:
        if isinstance(st, ast.ImportFrom):
            for a in st.names:
                alias[a.asname or a.name] = (st.module or '', a.name)
    out = []
    for st in m.tree.body:
        if isinstance(st, ast.Assign) and len(st.targets) == 1 and isinstance(st.targets[0], ast.Attribute) and \
                isinstance(st.value, ast.Attribute) and norm(st.value.value) == 'mp':
            t = st.targets[0]
            base = norm(t.value)
            rel = None
            if base == '_ctx_mp._mpf_module':
                rel = CTXPY
            elif base in alias:
                mod, name = alias[base]
                cand = 'mpmath/%s/%s.py' % (mod.replace('.', '/'), name) if mod else 'mpmath/%s.py' % name
                if cand in ix.modules:
                    rel = cand
            if rel is not None:
                out.append((rel, t.attr, st))
    return out


def bound_names(f):
    names = set(f.all_params())
    for x in _walk_own(f.node):
        if isinstance(x, ast.Name) and isinstance(x.ctx, ast.Store):
            names.add(x.id)
        elif isinstance(x, (ast.FunctionDef, ast.ClassDef)) and x is not f.node:
            names.add(x.name)
        elif isinstance(x, ast.ExceptHandler) and x.name:
            names.add(x.name)
        elif isinstance(x, (ast.Import, ast.ImportFrom)):
            for a in x.names:
                names.add((a.asname or a.name).split('.')[0])
    # comprehension targets
    for x in ast.walk(f.node):
        if isinstance(x, ast.comprehension):
            for n in ast.walk(x.target):
                if isinstance(n, ast.Name):
                    names.add(n.id)
    return names


def check_hack_globals(run, ix):
    hacks = pickle_hack_globals(ix)
    if len(hacks) < 3:
        raise AnalysisError('pickle registration of mpf/mpc/matrix in __init__.py not found')
    for rel, gname, st in hacks:
        m = ix.module(rel)
        # the module must not define the name itself at top level
        nsites = 0
        for f in m.funcs.values():
            scope = set()
            g = f
            while g is not None:
                scope |= bound_names(g)
                g = g.parent
            for x in _walk_own(f.node):
                if isinstance(x, ast.Name) and isinstance(x.ctx, ast.Load) and x.id == gname and gname not in scope:
                    nsites += 1
                    run.fail(F('X-R4', rel, f.qualname, enclosing_stmt(x), 'reads the module global `%s`, '
                               'which mpmath/__init__.py binds to the GLOBAL mp context\'s class (for pickling): '
                               'a number of a clone built from it belongs to mp and later arithmetic on it uses '
                               'mp\'s precision' % gname))
        if nsites == 0:
            run.ok('X-R4', '%s: no function reads the pickling global `%s`' % (rel, gname))
    # allocation sites inside number classes
    n = 0
    for rel, classes in ((CTXPY, ('_mpf', '_mpc', '_constant')), (CTXIV, ('ivmpf', 'ivmpc', 'ivmpf_constant'))):
        m = ix.module(rel)
        for f in m.funcs.values():
            top = f
            while top.parent is not None:
                top = top.parent
            if top.cls not in classes:
                continue
            for x in _walk_own(f.node):
                if isinstance(x, ast.Call) and norm(x.func) == 'new' and len(x.args) == 1:
                    n += 1
                    a = x.args[0]
                    if alloc_ok(a, f):
                        run.ok('X-R4', '%s: %s' % (f.qualname, norm(x)))
                    else:
                        run.fail(F('X-R4', rel, f.qualname, enclosing_stmt(x), 'result object is allocated '
                                   'from `%s`, which is not derived from the receiver\'s own context' % norm(a)))
    return n


def alloc_ok(a, f):
    txt = norm(a)
    if isinstance(a, ast.Name):
        # must be a local: parameter (cls of __new__/classmethod) or unpacked from <recv>._ctxdata
        g = f
        while g is not None:
            if a.id in bound_names(g):
                # if assigned, the source must be a _ctxdata unpack or a <recv>.context/.ctx attribute
                srcs = []
                for x in _walk_own(g.node):
                    if isinstance(x, ast.Assign):
                        for t in x.targets:
                            for nm in ast.walk(t):
                                if isinstance(nm, ast.Name) and nm.id == a.id:
                                    srcs.append(x.value)
                if not srcs:
                    return True            # parameter
                return all(('_ctxdata' in norm(s)) or ('.context.' in norm(s)) or ('.ctx.' in norm(s)) or
                           norm(s).startswith('type(') for s in srcs)
            g = g.parent
        return False
    if isinstance(a, ast.Attribute):
        return ('.context.' in txt) or ('.ctx.' in txt) or txt.endswith('.__class__')
    if isinstance(a, ast.Call) and norm(a.func) == 'type':
        return True
    return False


def enclosing_stmt(node):
    p = node
    while p is not None and not isinstance(p, ast.stmt):
        p = getattr(p, '_parent', None)
    return p if p is not None else node


# --------------------------------------------------------------------------- X-R5
def check_global_instances(run, ix):
    n = 0
    for rel, m in sorted(ix.modules.items()):
        if rel in GLOBAL_INSTANCE_OWNERS:
            continue
        bad = []
        for name, (mod, orig, level) in m.imports.items():
            if orig in ('mp', 'fp', 'iv') and (mod in ('', 'mpmath') or mod.endswith('mpmath')):
                bad.append((name, orig))
        # the usertools / visualization modules may import inside functions
        for x in ast.walk(m.tree):
            if isinstance(x, ast.ImportFrom) and (x.module in (None, '', 'mpmath') or (x.module or '').endswith('mpmath')):
                for a in x.names:
                    if a.name in ('mp', 'fp', 'iv') and (a.asname or a.name, a.name) not in bad:
                        bad.append((a.asname or a.name, a.name))
        n += 1
        if not bad:
            continue
        for local, orig in bad:
            uses = [x for x in ast.walk(m.tree) if isinstance(x, ast.Name) and x.id == local and
                    isinstance(x.ctx, ast.Load)]
            for u in uses[:3]:
                run.fail(F('X-R5', rel, '<module>', enclosing_stmt(u), 'library code refers to the global '
                           'instance `%s`: the code then runs on that context whatever context it was called '
                           'through' % orig))
            if not uses:
                run.fail(F('X-R5', rel, '<module>', 'import %s' % orig, 'library module imports the global '
                           'instance `%s`' % orig))
    run.ok('X-R5', '%d library modules scanned: none imports mp/fp/iv' % n)
    return n


# --------------------------------------------------------------------------- X-R3c
def check_clone_settings(run, ix):
    """X-R3c.  "A cloned context computes the same values as mp at the same precision": besides the precision, the
    public settings that change what a computation returns or raises must be those of the original.  The settings
    are read off the constructors: public attributes that an __init__ of the MPContext hierarchy initialises with a
    constant (trap_complex, pretty); clone must assign each of them from the original."""
    settings = set()
    for rel, cls in ((CTXMP, 'MPContext'), (CTXPY, 'PythonMPContext')):
        ci = ix.module(rel).classes.get(cls)
        init = ci.methods.get('__init__') if ci else None
        if init is None:
            raise AnalysisError('%s.__init__ vanished' % cls)
        me = init.params[0]
        for st in _walk_own(init.node):
            if isinstance(st, ast.Assign) and len(st.targets) == 1 and isinstance(st.targets[0], ast.Attribute) and \
                    norm(st.targets[0].value) == me and not st.targets[0].attr.startswith('_') and \
                    isinstance(st.value, ast.Constant) and isinstance(st.value.value, bool):
                settings.add(st.targets[0].attr)
    if not settings:
        raise AnalysisError('no constant-initialised public settings found in the MPContext constructors')
    f = ix.module(CTXMP).classes['MPContext'].methods['clone']
    me = f.params[0]
    copied = set()
    for st in _walk_own(f.node):
        if isinstance(st, ast.Assign) and len(st.targets) == 1 and isinstance(st.targets[0], ast.Attribute) and \
                isinstance(st.value, ast.Attribute) and norm(st.value.value) == me and \
                st.value.attr == st.targets[0].attr:
            copied.add(st.value.attr)
    for name in sorted(settings):
        if name in copied:
            run.ok('X-R3c', 'clone copies the setting %s' % name)
        else:
            run.fail(F('X-R3c', CTXMP, f.qualname, 'setting %s' % name,
                       'clone does not copy the setting `%s`, which the constructor initialises: the copy of a context '
                       'with %s set behaves like a fresh context (returns complex values where the original raises '
                       'ComplexResult, prints differently)' % (name, name), line=f.lineno))


# --------------------------------------------------------------------------- X-R13
def check_foreign_constants(run, ix, rule='X-R13'):
    """X-R13.  A lazy constant (pi, e, ...) has no value of its own: its `_mpf_` is its value at the precision of
    the context it BELONGS to.  A context that converts a constant of another context through `_mpf_` therefore gets
    a number that follows the other context's precision -- and the interval context gets ONE value for both
    endpoints (iv.mpf(mp.pi) was a point interval below pi).  Decided: the three conversion sites test for the
    base class `_constant` (not only the context's own constant class) before they look at `_mpf_`, and call the
    constant's function with the receiving precision and rounding mode."""
    sites = [(CTXPY, '_mpf.mpf_convert_arg', 'x'), (CTXPY, 'PythonMPContext.convert', 'x'), (CTXIV, 'convert_mpf_', 'x')]
    for rel, qn, x in sites:
        f = ix.func(rel, qn)
        generic = [a for a in _walk_own(f.node) if isinstance(a, ast.Attribute) and a.attr == '_mpf_' and
                   norm(a.value) == x and isinstance(a.ctx, ast.Load)]
        if not generic:
            raise AnalysisError('%s: generic _mpf_ conversion not found' % qn)
        first = min(a.lineno for a in generic)
        ok = False
        for i in _walk_own(f.node):
            if isinstance(i, ast.If) and i.lineno <= first:
                cs = [norm(c).replace(' ', '') for c in (i.test.values if isinstance(i.test, ast.BoolOp) and
                                                         isinstance(i.test.op, ast.And) else [i.test])]
                if 'isinstance(%s,_constant)' % x in cs:
                    calls = [c for b in i.body for c in ast.walk(b) if isinstance(c, ast.Call) and
                             norm(c.func) == '%s.func' % x and len(c.args) == 2 and
                             norm(c.args[0]) == 'prec' and norm(c.args[1]) == 'rounding']
                    if calls:
                        ok = True
        if ok:
            run.ok(rule, '%s evaluates a constant of any context with its own (prec, rounding)' % qn)
        else:
            run.fail(F(rule, rel, qn, generic[0]._parent if hasattr(generic[0], '_parent') else generic[0],
                       'a lazy constant of another context reaches `%s._mpf_`, its value at the OTHER context\'s precision '
                       '(and in round-to-nearest): iv.mpf(mp.pi) is a one-point interval that excludes pi, '
                       'mp.mpf(clone.pi) follows clone.prec' % x))


# --------------------------------------------------------------------------- X-R14
def check_contextual_constants(run, ix, rule='X-R14'):
    """X-R14 (regression of repair 2a94989, fourth C16 hunt; repair ad677f0).  Not every `_constant` is a mathematical
    constant: eps is 2^(1-prec) of ITS context.  Evaluated at the receiving context's precision it becomes another
    number (mp.eps handed to iv at 100 bits was 2^-99: `mp.eps in iv.mpf([2**-60, 1])` was False).  Decided: (a) every
    constant whose function is a lambda that builds its value from its precision parameter directly (a raw tuple with
    `prec` in it, no kernel call) is marked `<name>.contextual = True` in the function that creates it; (b) each of the
    three sites that evaluate a constant of another context tests `x.contextual` in the same condition."""
    CTXMP = 'mpmath/ctx_mp.py'
    # (a)
    found = 0
    for rel in (CTXMP, CTXPY, CTXIV):
        m = ix.module(rel)
        for f in m.funcs.values():
            for a in _walk_own(f.node):
                if not (isinstance(a, ast.Assign) and isinstance(a.value, ast.Call) and
                        norm(a.value.func).endswith('.constant') and a.value.args and
                        isinstance(a.value.args[0], ast.Lambda)):
                    continue
                lam = a.value.args[0]
                if not lam.args.args:
                    continue
                pname = lam.args.args[0].arg
                uses_prec = any(isinstance(y, ast.Name) and y.id == pname for y in ast.walk(lam.body))
                kernel = any(isinstance(y, ast.Call) for y in ast.walk(lam.body))
                if not uses_prec or kernel:
                    continue
                if rel == CTXIV:
                    continue        # interval constants are evaluated by their own context only
                found += 1
                tgt = norm(a.targets[0])
                marked = any(isinstance(b, ast.Assign) and norm(b.targets[0]) == tgt + '.contextual' and
                             isinstance(b.value, ast.Constant) and b.value.value is True
                             for b in _walk_own(f.node))
                if marked:
                    run.ok(rule, '%s: %s is built from the precision itself and marked contextual' % (f.qualname, tgt))
                else:
                    run.fail(F(rule, rel, f.qualname, a,
                               'the constant %s is a function of the precision of ITS context (no kernel call) and is not '
                               'marked contextual: another context evaluates it at its own precision and gets another '
                               'number (mp.eps in iv at 100 bits was 2^-99)' % tgt))
    if not found:
        raise AnalysisError('no precision-defined constant (eps) found')
    # (b)
    sites = [(CTXPY, '_mpf.mpf_convert_arg', 'x'), (CTXPY, 'PythonMPContext.convert', 'x'), (CTXIV, 'convert_mpf_', 'x')]
    for rel, qn, x in sites:
        f = ix.func(rel, qn)
        hit = False
        for i in _walk_own(f.node):
            if not isinstance(i, ast.If):
                continue
            cs = [c for c in (i.test.values if isinstance(i.test, ast.BoolOp) and isinstance(i.test.op, ast.And)
                              else [i.test])]
            if not any(norm(c).replace(' ', '') == 'isinstance(%s,_constant)' % x for c in cs):
                continue
            if not any(isinstance(c, ast.Call) and norm(c.func) == '%s.func' % x for b in i.body for c in ast.walk(b)):
                continue
            hit = True
            excl = False
            for c in cs:
                for y in ast.walk(c):
                    if isinstance(y, ast.UnaryOp) and isinstance(y.op, ast.Not) and norm(y.operand) == '%s.contextual' % x:
                        excl = True
            if excl:
                run.ok(rule, '%s leaves a contextual constant (eps) at its current value' % qn)
            else:
                run.fail(F(rule, rel, qn, i.test,
                           'every constant of another context is evaluated at the receiver\'s precision, eps included: '
                           'with mp.prec = 53 and iv.prec = 100, iv.mpf(mp.eps) is 2^-99 and iv.mpf(2**-52) == mp.eps is '
                           'False'))
        if not hit:
            # X-R13 reports a site that does not evaluate foreign constants at all
            run.ok(rule, '%s: no evaluation of foreign constants (see X-R13)' % qn)



# --------------------------------------------------------------------------- X-R15
def check_foreign_constants_in_operators(run, ix, rule='X-R15'):
    """X-R15 (fourth C38 hunt and third C17 hunt, independently; repair 0a95f78).  X-R13 covers the constructor, convert
    and the interval context.  The operator layer reads `<operand>._mpf_` on its own: the binary-operator template (a
    string that is exec'd, parsed here), `_mpf._cmp`, `_mpf.mpf_convert_rhs` and `fsum`.  For a lazy constant of another
    context that is its value at the OTHER context's precision (A.mpf(1) + mp.pi at A.prec = 200 had an error of 2^-52
    and followed mp.prec).  Decided: in each of these, every read `<v>._mpf_` of an operand <v> (not the object itself)
    is (a) preceded in the function by a test `isinstance(<v>, _constant)` whose branch returns, or (b) made under a test
    containing `not isinstance(<v>, _constant)`, or (c) followed in the same block by a test `isinstance(<v>, _constant)`
    that reassigns what the read was stored in."""
    m = ix.module(CTXPY)
    units = []
    for qn in ('_mpf.mpf_convert_rhs', '_mpf._cmp', 'PythonMPContext.fsum'):
        f = ix.func(CTXPY, qn)
        units.append((qn, f.node, f.params[0] if f.params else None))
    tmpl = None
    for name, value, st, g in m.toplevel_assigns:
        if name == 'mpf_binary_op' and isinstance(value, ast.Constant) and isinstance(value.value, str):
            tmpl = value.value
    if tmpl is None:
        raise AnalysisError('mpf_binary_op template not found')
    src = tmpl.replace('%NAME%', 'op_')
    for k in ('%WITH_MPF%', '%WITH_INT%', '%WITH_MPC%'):
        src = src.replace(k, 'pass')
    tree = ast.parse(src)
    for n_ in ast.walk(tree):
        for c_ in ast.iter_child_nodes(n_):
            c_._parent = n_
    units.append(('mpf_binary_op (template)', tree.body[0], 'self'))
    total = 0
    for qn, node, me in units:
        reads = [a for a in ast.walk(node) if isinstance(a, ast.Attribute) and a.attr == '_mpf_' and
                 isinstance(a.ctx, ast.Load) and isinstance(a.value, ast.Name) and a.value.id not in (me, 'self', 's', 'cls')]
        for a in reads:
            v = a.value.id
            pat = 'isinstance(%s,_constant)' % v
            # results of a conversion (`t = ctx.convert(x)` then t._mpf_) are numbers of this context
            conv = any(isinstance(x, ast.Assign) and any(isinstance(t, ast.Name) and t.id == v for t in x.targets) and
                       isinstance(x.value, ast.Call) and norm(x.value.func).split('.')[-1] in ('convert', 'mpf')
                       and x.lineno < a.lineno for x in ast.walk(node))
            ok = conv
            why = 'result of a conversion' if conv else ''
            # (b)
            p_ = a
            while not ok and p_ is not node:
                par = getattr(p_, '_parent', None)
                if par is None:
                    break
                if isinstance(par, ast.If) and any(p_ is b or any(p_ is y for y in ast.walk(b)) for b in par.body) and \
                        ('not' + pat) in norm(par.test).replace(' ', ''):
                    ok, why = True, 'read under `not isinstance(%s, _constant)`' % v
                p_ = par
            # (a)
            if not ok:
                for i in ast.walk(node):
                    if isinstance(i, ast.If) and i.lineno < a.lineno and pat in norm(i.test).replace(' ', '') and \
                            ('not' + pat) not in norm(i.test).replace(' ', '') and i.body and isinstance(i.body[-1], ast.Return):
                        ok, why = True, 'constants leave before (line %d)' % i.lineno
            # (c)
            if not ok:
                st = a
                while not isinstance(st, ast.stmt):
                    st = st._parent
                blk = None
                for fld in ('body', 'orelse'):
                    b_ = getattr(st._parent, fld, None)
                    if isinstance(b_, list) and any(st is y for y in b_):
                        blk = b_
                if blk is not None and isinstance(st, ast.Assign):
                    tgt = norm(st.targets[0])
                    for nxt in blk[[i for i, y in enumerate(blk) if y is st][0] + 1:]:
                        if isinstance(nxt, ast.If) and pat in norm(nxt.test).replace(' ', '') and \
                                any(isinstance(y, ast.Assign) and norm(y.targets[0]) == tgt for y in nxt.body):
                            ok, why = True, 'corrected right after (line %d)' % nxt.lineno
            total += 1
            if ok:
                run.ok(rule, '%s: `%s._mpf_` -- %s' % (qn, v, why))
            else:
                run.fail(F(rule, CTXPY, qn.split(' ')[0], '%s._mpf_' % v,
                           'the operand\'s `_mpf_` is used whatever the operand is: for a lazy constant of ANOTHER context '
                           'that is its value at that context\'s precision and rounding -- with A = mp.clone(), A.prec = '
                           '200, `A.mpf(1) + mp.pi` has an error of 2^-52, changes with mp.prec, and `A.mpf(mp.pi) == mp.pi` '
                           'is False', line=getattr(a, 'lineno', None)))
    if total < 4:
        raise AnalysisError('X-R15: only %d operand reads found' % total)



# --------------------------------------------------------------------------- X-R16
def check_difference_point(run, ix, rule='X-R16'):
    """X-R16 (fourth C38 hunt; repair of hsteps).  Numerical differentiation evaluates f at x + k*h with h = 2^-(prec+10)
    under a raised precision of the COMPUTING context.  If x is a number of another context, x + k*h is formed by that
    context at its own precision and h is lost: a clone's diff of an mp number returned 0.0 ("a cloned context computes
    the same values as mp at the same precision").  Decided: in hsteps the point is re-bound from `ctx.convert(<point>)`
    before the first expression that adds a multiple of the step to it."""
    DIFF = 'mpmath/calculus/differentiation.py'
    f = ix.func(DIFF, 'hsteps')
    x = f.params[2]
    uses = [b for b in _walk_own(f.node) if isinstance(b, ast.BinOp) and isinstance(b.op, ast.Add) and
            isinstance(b.left, ast.Name) and b.left.id == x and any(isinstance(y, ast.Name) and y.id == 'h' for y in ast.walk(b.right))]
    uses += [b for b in _walk_own(f.node) if isinstance(b, ast.AugAssign) and isinstance(b.target, ast.Name) and b.target.id == x]
    if not uses:
        raise AnalysisError('hsteps: x + k*h not found')
    first = min(u.lineno for u in uses)
    conv = [a for a in _walk_own(f.node) if isinstance(a, ast.Assign) and norm(a.targets[0]) == x and
            isinstance(a.value, ast.Call) and norm(a.value.func) in ('ctx.convert', 'ctx.mpmathify') and
            a.value.args and norm(a.value.args[0]) == x and a.lineno < first]
    if conv:
        run.ok(rule, 'hsteps: `%s` before the first x + k*h (line %d)' % (norm(conv[0]), first))
    else:
        run.fail(F(rule, DIFF, 'hsteps', uses[0] if not isinstance(uses[0], ast.AugAssign) else uses[0],
                   'the point is used as it is given: a number of another context forms `%s` at that context\'s precision, '
                   'where the step h = 2^-(prec+10) is lost -- for A = mp.clone(), A.diff(A.exp, mp.mpf(\'0.75\')) is 0.0 '
                   'instead of 2.117' % norm(uses[0], 30)))



# --------------------------------------------------------------------------- X-R12
def check_matrix_entry_conversion(run, ix):
    """X-R12.  The numbers a matrix holds belong to the matrix's context: an mpf computes with the precision of ITS
    context, so a clone's matrix that holds mp's numbers computes at mp's precision.  Entries normally arrive through
    __setitem__, which converts.  The places that bypass it -- whole-dict stores `X.__data = Y.__data[.copy()]` and the
    unconverted element transfer `__set_element(k, M.__get_element(..))` -- are accepted only when the source matrix is
    `self`, was built by `self.ctx.matrix(...)`, or is tested with isinstance(M, self.ctx.matrix) (an instance of THIS
    context's matrix class; `type(M.ctx) is type(self.ctx)` is not enough: a clone has the same context class)."""
    MAT = 'mpmath/matrices/matrices.py'
    m = ix.module(MAT)
    ci = m.classes.get('_matrix')
    if ci is None:
        raise AnalysisError('_matrix vanished')
    n = 0
    for f in ci.methods.values():
        me = f.params[0] if f.params else 'self'
        makers = ('%s.ctx.matrix' % me, '%s.copy' % me, '%s.ctx.zeros' % me, '%s.ctx.ones' % me, '%s.ctx.eye' % me)

        def is_own(name, node):
            """`name` at `node` is self, or its nearest preceding definition (same block or an enclosing one) builds
            a matrix of this context"""
            if name == me:
                return True
            p = node
            while p is not None:
                par = getattr(p, '_parent', None)
                if par is None:
                    break
                for field in ('body', 'orelse', 'finalbody'):
                    blk = getattr(par, field, None)
                    if isinstance(blk, list) and any(p is s_ for s_ in blk):
                        idx = [i for i, s_ in enumerate(blk) if s_ is p][0]
                        for s_ in reversed(blk[:idx]):
                            if isinstance(s_, ast.Assign) and any(isinstance(t, ast.Name) and t.id == name
                                                                  for t in s_.targets):
                                return isinstance(s_.value, ast.Call) and norm(s_.value.func) in makers
                if par is f.node:
                    break
                p = par
            return False

        def guarded(node, name):
            if is_own(name, node):
                return True
            p = node
            while p is not None and p is not f.node:
                par = getattr(p, '_parent', None)
                if isinstance(par, ast.If) and any(p is s_ for s_ in par.body):
                    for c in (par.test.values if isinstance(par.test, ast.BoolOp) and isinstance(par.test.op, ast.And)
                              else [par.test]):
                        if norm(c).replace(' ', '') == 'isinstance(%s,%s.ctx.matrix)' % (name, me):
                            return True
                p = par
            return False

        def is_data(e):
            return isinstance(e, ast.Attribute) and e.attr in ('__data', '_matrix__data') and isinstance(e.value, ast.Name)
        for a in _walk_own(f.node):
            if isinstance(a, ast.Assign) and len(a.targets) == 1 and is_data(a.targets[0]):
                srcs = [x for x in ast.walk(a.value) if is_data(x)]
                for x in srcs:
                    n += 1
                    if guarded(a, x.value.id):
                        run.ok('X-R12', '%s: `%s` -- the source matrix belongs to this context' % (f.qualname, norm(a, 60)))
                    else:
                        run.fail(F('X-R12', MAT, f.qualname, a, 'the entries of `%s` are taken over without conversion, '
                                   'and `%s` is not known to be a matrix of this context (built by %s.ctx.matrix or tested '
                                   'with isinstance(%s, %s.ctx.matrix)): a clone\'s matrix built from an mp matrix then holds '
                                   'mp\'s numbers and computes at mp\'s precision' % (x.value.id, x.value.id, me, x.value.id, me)))
            if isinstance(a, ast.Call) and isinstance(a.func, ast.Attribute) and \
                    a.func.attr in ('__set_element', '_matrix__set_element') and len(a.args) == 2:
                v = a.args[1]
                gets = [x for x in ast.walk(v) if isinstance(x, ast.Call) and isinstance(x.func, ast.Attribute) and
                        x.func.attr in ('__get_element', '_matrix__get_element') and isinstance(x.func.value, ast.Name)]
                for g in gets:
                    n += 1
                    src = g.func.value.id
                    if guarded(a, src):
                        run.ok('X-R12', '%s: unconverted element transfer from `%s`, a matrix of this context'
                               % (f.qualname, src))
                    else:
                        st = enclosing_stmt(a)
                        run.fail(F('X-R12', MAT, f.qualname, st, 'elements of `%s` are stored without conversion and `%s` is '
                                   'not known to be a matrix of this context' % (src, src)))
    return n


# --------------------------------------------------------------------------- X-R10 / X-R11
def constant_names(ix):
    """names under which the MP context publishes lazy constants: ctx.X = ctx.constant(...)"""
    out = set()
    for rel in (CTXMP, CTXPY):
        for x in ast.walk(ix.module(rel).tree):
            if isinstance(x, ast.Assign) and isinstance(x.value, ast.Call) and norm(x.value.func).endswith('.constant'):
                for t in x.targets:
                    if isinstance(t, ast.Attribute):
                        out.add(t.attr)
    if len(out) < 10:
        raise AnalysisError('lazy constants of the MP context not found')
    return out


def check_borrowed_computation(run, ix):
    """X-R10 / X-R11.  A function that computes in ANOTHER context (passes <x>._mp to a callee and stores what
    comes back) is a channel between the two contexts.  X-R6 closes it for the precision.  Two more leaks:
    X-R10 -- the data coming back must be numbers: a bare lazy constant (ctx.pi stored as it is) is evaluated
    whenever it is next used, i.e. after the borrowed context's precision was put back, at whatever precision that
    context then has; in the callee every constant that is stored or returned unevaluated is reported.
    X-R11 -- the borrowed context's trap_complex is the caller's business only if the caller IS that context: the
    borrowing function switches it off for the computation and restores it in the finally clause."""
    res = get_resolver(ix)
    consts = constant_names(ix)
    n = 0
    for f in ix.all_funcs():
        for fe in foreign_exprs(f):
            par = getattr(fe, '_parent', None)
            if not (isinstance(par, ast.Call) and fe in par.args and par.args[0] is fe and
                    isinstance(par.func, ast.Name)):
                continue
            kind, targets = res.lookup_name(f, par.func.id)
            st = enclosing_stmt(par)
            if not targets or not isinstance(st, ast.Assign):
                continue
            obj = norm(fe)
            for g in targets:
                n += 1
                gctx = g.params[0]
                bad = []
                for x in _walk_own(g.node):
                    vals = []
                    if isinstance(x, ast.Assign):
                        vals = [x.value] + (list(x.value.elts) if isinstance(x.value, (ast.Tuple, ast.List)) else [])
                        if isinstance(x.value, ast.Dict):
                            vals += list(x.value.values)
                    elif isinstance(x, ast.Return) and x.value is not None:
                        vals = [x.value] + (list(x.value.elts) if isinstance(x.value, (ast.Tuple, ast.List)) else [])
                    for v in vals:
                        if isinstance(v, ast.Attribute) and norm(v.value) == gctx and v.attr in consts:
                            bad.append((x, v))
                if bad:
                    for x, v in bad:
                        run.fail(F('X-R10', g.file, g.qualname, x, 'the lazy constant `%s` is stored unevaluated in data '
                                   'that %s computes in %s for another context: it is evaluated when it is next used, at '
                                   'whatever precision %s has then (fp.siegelz(1e5) changed with mp.prec)'
                                   % (norm(v), f.qualname, obj, obj)))
                else:
                    run.ok('X-R10', '%s (run in %s by %s) stores and returns evaluated numbers only'
                           % (g.qualname, obj, f.qualname))
            # X-R11
            ok = False
            p = st
            while p is not None and p is not f.node:
                par2 = getattr(p, '_parent', None)
                if isinstance(par2, ast.Try) and any(p is s for s in par2.body) and par2.finalbody:
                    off = [s for s in par2.body if isinstance(s, ast.Assign) and
                           norm(s.targets[0]) == obj + '.trap_complex' and isinstance(s.value, ast.Constant) and
                           s.value.value is False and s.lineno < st.lineno]
                    back = [s for s in par2.finalbody if isinstance(s, ast.Assign) and
                            norm(s.targets[0]) == obj + '.trap_complex' and isinstance(s.value, ast.Name)]
                    if off and back:
                        snap = back[0].value.id
                        holder = par2._parent
                        pre = [s for fld in ('body', 'orelse') for s in (getattr(holder, fld, None) or [])
                               if isinstance(s, ast.Assign) and norm(s.targets[0]) == snap and
                               norm(s.value) == obj + '.trap_complex' and s.lineno < par2.lineno]
                        if pre:
                            ok = True
                p = par2
            if ok:
                run.ok('X-R11', '%s: %s.trap_complex saved, switched off for the computation, restored in finally'
                       % (f.qualname, obj))
            else:
                run.fail(F('X-R11', f.file, f.qualname, st, 'the computation borrowed from %s runs under that context\'s '
                           'trap_complex: with mp.trap_complex set, fp.siegelz(1e5) and clone.zetazero(100000) raise '
                           'ComplexResult' % obj))
    return n


# --------------------------------------------------------------------------- X-R6
def foreign_aliases(f):
    """local names bound to <name>._mp / ._fp / ._iv:  mp = ctx._mp"""
    al = {}
    for x in _walk_own(f.node):
        if isinstance(x, ast.Assign) and len(x.targets) == 1 and isinstance(x.targets[0], ast.Name) and \
                isinstance(x.value, ast.Attribute) and x.value.attr in ('_mp', '_fp', '_iv') and \
                isinstance(x.value.value, ast.Name):
            al[x.targets[0].id] = norm(x.value)
    return al


def foreign_exprs(f):
    """expressions <name>._mp / ._fp / ._iv occurring in f, and uses of local aliases of them"""
    out = []
    al = foreign_aliases(f)
    for x in _walk_own(f.node):
        if isinstance(x, ast.Attribute) and x.attr in ('_mp', '_fp', '_iv') and isinstance(x.value, ast.Name):
            if isinstance(getattr(x, '_parent', None), ast.Assign) and x._parent.value is x and \
                    isinstance(x._parent.targets[0], ast.Name):
                continue                      # the aliasing assignment itself
            out.append(x)
        elif isinstance(x, ast.Name) and x.id in al and isinstance(x.ctx, ast.Load):
            out.append(x)
    return out


def check_foreign_cell(run, ix):
    from .c11 import get_engine
    eng = get_engine(ix)
    res = get_resolver(ix)
    n = 0
    for f in ix.all_funcs():
        fes = foreign_exprs(f)
        if not fes:
            continue
        for fe in fes:
            par = getattr(fe, '_parent', None)
            risky = None
            why = ''
            if isinstance(par, ast.Attribute) and par.attr in ('prec', 'dps') and \
                    isinstance(getattr(par, 'ctx', None), ast.Store):
                # restoring store in a finally is the protection itself
                if in_finally(par, f.node):
                    continue
                risky = enclosing_stmt(par)
                why = 'writes the precision of another context'
            elif isinstance(par, ast.Call) and fe in par.args:
                # passed as an argument: does the callee leave the precision changed?
                leak = False
                targets = []
                if isinstance(par.func, ast.Name):
                    kind, fs = res.lookup_name(f, par.func.id)
                    targets = fs
                elif isinstance(par.func, ast.Attribute):
                    targets = [e.func for e in res.entries(par.func.attr) if not e.wrap]
                for g in targets:
                    s = eng.summaries.get(g)
                    if s is not None and (s.leak_n or s.leak_x):
                        leak = True
                        why = 'runs %s, which leaves the precision changed, on another context' % g.qualname
                if not targets:
                    leak = True
                    why = 'passes another context to an unresolved callee'
                if leak:
                    risky = enclosing_stmt(par)
            elif isinstance(par, ast.Attribute) and isinstance(getattr(par, '_parent', None), ast.Call) and \
                    getattr(par, '_parent').func is par:
                # method call on the foreign context: wrapped public methods restore themselves
                ents = res.entries(par.attr)
                leak = False
                for e in ents:
                    if e.wrap:
                        continue
                    s = eng.summaries.get(e.func)
                    if s is not None and (s.leak_n or s.leak_x):
                        leak = True
                        why = 'calls %s, which leaves the precision changed, on another context' % e.func.qualname
                if leak:
                    risky = enclosing_stmt(par)
            if risky is None:
                continue
            n += 1
            obj = norm(fe)
            if protected(risky, f, obj):
                run.ok('X-R6', '%s: `%s` is inside snapshot/try/finally restoring %s.prec'
                       % (f.qualname, norm(risky, 70), obj))
            else:
                run.fail(F('X-R6', f.file, f.qualname, risky, '%s without restoring it: %s.prec must be '
                           'snapshotted before and restored in a finally clause (the caller\'s own '
                           'precision handling acts on the caller\'s context, which is a different object '
                           'for fp / iv / clones)' % (why, obj)))
    return n


def in_finally(node, stop):
    p = node
    while p is not None and p is not stop:
        par = getattr(p, '_parent', None)
        if isinstance(par, ast.Try) and any(p is s for s in par.finalbody):
            return True
        p = par
    return False


def _same_object(text, obj, al):
    """`text` (e.g. 'mp.prec' / 'ctx._mp.prec') denotes attribute prec of the object `obj`, modulo local aliases"""
    if not text.endswith('.prec'):
        return False
    base = text[:-5]
    return al.get(base, base) == al.get(obj, obj)


def protected(stmt, f, obj):
    """stmt lies in the body of a Try whose finalbody assigns <obj>.prec = snap, snap assigned from
    <obj>.prec before the Try in the same block and not reassigned inside the Try"""
    p = stmt
    while p is not None and p is not f.node:
        par = getattr(p, '_parent', None)
        if isinstance(par, ast.Try) and any(p is s for s in par.body) and par.finalbody:
            al = foreign_aliases(f)
            for fs in par.finalbody:
                if isinstance(fs, ast.Assign) and len(fs.targets) == 1 and \
                        _same_object(norm(fs.targets[0]), obj, al) and isinstance(fs.value, ast.Name):
                    snap = fs.value.id
                    # snapshot before the try
                    holder = getattr(par, '_parent', None)
                    body = None
                    for field in ('body', 'orelse', 'finalbody'):
                        b = getattr(holder, field, None)
                        if isinstance(b, list) and par in b:
                            body = b
                    if body is None:
                        continue
                    idx = body.index(par)
                    snaps = [s for s in body[:idx] if isinstance(s, ast.Assign) and len(s.targets) == 1 and
                             norm(s.targets[0]) == snap and _same_object(norm(s.value), obj, al)]
                    rewritten = [x for s in par.body for x in ast.walk(s) if isinstance(x, ast.Name) and
                                 x.id == snap and isinstance(x.ctx, ast.Store)]
                    if snaps and not rewritten:
                        return True
        p = par
    return False


# --------------------------------------------------------------------------- X-R7
def check_fp_settings(run, ix):
    m = ix.module(CTXFP)
    ci = m.classes.get('FPContext')
    if ci is None:
        raise AnalysisError('FPContext vanished')
    for name in ('_set_prec', '_set_dps'):
        f = ci.methods.get(name)
        if f is None:
            raise AnalysisError('FPContext.%s vanished' % name)
        stores = [x for x in _walk_own(f.node) if isinstance(x, (ast.Assign, ast.AugAssign, ast.Call))]
        if stores:
            run.fail(F('X-R7', CTXFP, f.qualname, stores[0], 'the precision setter of the fixed-precision '
                       'context does something: fp.prec = n must not reach any other context'))
        else:
            run.ok('X-R7', 'FPContext.%s stores nothing' % name)
    # class-level registries written from function bodies (other than decorators defined in the
    # registry's own module)
    regs = {}
    for mm in ix.modules.values():
        for c in mm.classes.values():
            for a, v in c.assigns.items():
                if is_fresh_container(v):
                    regs.setdefault(a, []).append(c)
    for mm in ix.modules.values():
        for f in mm.funcs.values():
            for x in _walk_own(f.node):
                tgt = None
                if isinstance(x, ast.Subscript) and isinstance(x.ctx, (ast.Store, ast.Del)):
                    tgt = x.value
                elif isinstance(x, ast.Call) and isinstance(x.func, ast.Attribute) and x.func.attr in MUTATORS:
                    tgt = x.func.value
                if isinstance(tgt, ast.Attribute) and tgt.attr in regs and isinstance(tgt.value, ast.Name):
                    owner = regs[tgt.attr][0]
                    recv = tgt.value.id
                    # decorator functions (module level, take the function to register) are import-time
                    decorator_like = f.parent is None and f.cls is None and len(f.params) == 1 and \
                        f.params[0] in ('f', 'func')
                    if recv in [c.name for c in regs[tgt.attr]] and decorator_like:
                        run.ok('X-R7', 'registry %s.%s is filled by the import-time decorator %s'
                               % (owner.name, tgt.attr, f.qualname))
                    elif recv in [c.name for c in regs[tgt.attr]] or recv in ('ctx', 'self', 'cls'):
                        if owner.name in get_resolver(ix).context_class_names:
                            run.fail(F('X-R7', f.file, f.qualname, enclosing_stmt(x), 'class-level registry '
                                       '%s.%s (shared by every context) is modified at run time' %
                                       (owner.name, tgt.attr)))


def run(run, ix, tier):
    run.explanation = (
        'Isolation is a statement about sharing: it fails exactly when two contexts can reach one mutable '
        'object, or when code bound to one context reads or writes another.  Every such channel is '
        'enumerated from the source on each run: the precision cell and number classes are created per '
        'instance and wired to that instance; every container attribute mutated anywhere is created fresh '
        'per instance; clone copies scalar settings only; the pickling globals (always mp\'s classes) and '
        'the global instances are never read by library code and number-class methods allocate from the '
        'receiver\'s context; code that runs on another context (ctx._mp) restores that context\'s precision '
        'in a finally clause; the fp precision setters store nothing.  Module-level and default-argument '
        'caches holding context-derived values are decided under C33 (D-R3).  That a clone computes the same '
        'values as mp is numerical and not decided.')
    run.assumptions = ['contexts are created only through their class constructors',
                       'shared containers at module level / default arguments are decided by C33 rule D-R3']
    run.trusted = ['Engine A summaries (C11) for "leaves the precision changed"']
    run.rule('X-R1', floor=18)
    run.rule('X-R2', floor=5)
    run.rule('X-R3', floor=3)
    run.rule('X-R4', floor=12)
    run.rule('X-R5', floor=1)
    run.rule('X-R6', floor=1)
    run.rule('X-R7', floor=2)
    check_cells(run, ix)
    n2 = check_instance_state(run, ix)
    LINKS_IN_CLONE.clear()
    check_clone(run, ix)
    run.rule('X-R8', floor=9, desc='companion-context links established for every context')
    check_links(run, ix)
    # X-R9: containers shared between contexts (module level, default arguments, decorator closures) never
    # receive context-derived values: rule D-R3 of the C33 module
    from ..report import SubRun
    from . import c33
    run.rule('X-R9', floor=2, desc='no context-derived value in storage shared between contexts (D-R3)')
    c33.check_cross_context(SubRun(run, keep=('D-R3',), rename=lambda r: 'X-R9'), ix)
    n4 = check_hack_globals(run, ix)
    n5 = check_global_instances(run, ix)
    n6 = check_foreign_cell(run, ix)
    check_fp_settings(run, ix)
    run.rule('X-R3c', floor=2, desc='clone copies every constant-initialised public setting')
    run.rule('X-R10', floor=1, desc='no lazy constant in data computed in a borrowed context')
    run.rule('X-R11', floor=1, desc='a borrowed context\'s trap_complex is neutralised and restored')
    check_clone_settings(run, ix)
    check_borrowed_computation(run, ix)
    run.rule('X-R13', floor=3, desc='constants of another context are evaluated at the receiving context')
    check_foreign_constants(run, ix)
    run.rule('X-R14', floor=4, desc='a constant defined by its context\'s precision (eps) keeps its value in another context')
    check_contextual_constants(run, ix)
    run.rule('X-R15', floor=4, desc='the operator layer does not read the _mpf_ of a constant of another context')
    check_foreign_constants_in_operators(run, ix)
    run.rule('X-R16', floor=1, desc='numerical differentiation converts its point to the computing context')
    check_difference_point(run, ix)
    run.rule('X-R12', floor=3, desc='matrix entries taken over without conversion come from a matrix of the same context')
    check_matrix_entry_conversion(run, ix)
    run.stats.update({'mutated_context_attributes': n2, 'allocation_sites': n4,
                      'modules_scanned': n5, 'foreign_context_sites': n6})
