"""C02 -- basic real arithmetic is correctly rounded in every rounding mode.

Decides the structural clauses:
  B-R1/B-R3  add, sub, mul, mul_int, div, rdiv_int, sqrt, neg, abs, pos, sum,
         from_int/float/rational return on every path a special value or a
         value rounded at the requested precision in the caller's mode
  B-R3   the mode tables shifts_down / negative_rnd / reciprocal_rnd have the
         directed-rounding semantics; mode dispatch in round_int is exhaustive
  B-R3t  every operator method of mpf and fadd..fdiv/fneg thread the context's
         (prec, rounding) into the kernels; mpf() construction rounds
  B-R3c  every conversion of an inexact source (string, rational, Decimal,
         man/exp pair) in the mp context layer supplies the rounding mode to
         the converter (the converters default to round-down); mpf() accepts
         every source type the property names
  S-R1   special values: mpf_add/sub/mul/div/neg/abs/pos/sqrt interpreted on every
         combination of operand classes {0, +inf, -inf, nan, +normal, -normal}
         with a non-normal operand, against the IEEE-style table
         (ZeroDivisionError for a zero divisor) -- exhaustive over the classes
  B-R4i  the sticky-bit idioms that make a single rounding correct are
         present and well-formed (division / integer division: remainder ->
         extra low bit; sqrt: remainder -> extra low bit, floor shortcut only
         for the downward modes; far-exponent addition: guard and shift agree)
  B-R4m  the two tie-mask implementations (table and computed) agree
Not decided: that the rounded value is the nearest one (bit-level algebra of
the idioms and of _normalize).
"""
import ast

from ..index import AnalysisError, norm
from ..prec_effect import _walk_own
from ..report import Finding
from .kernel_rules import (kernel_obligations, check_mode_tables, check_operator_threading)

LIBMPF = 'mpmath/libmp/libmpf.py'
CTXPY = 'mpmath/ctx_mp_python.py'
KERNELS = ['mpf_add', 'mpf_sub', 'mpf_mul', 'mpf_mul_int', 'mpf_div', 'mpf_rdiv_int',
           'mpf_sqrt', 'mpf_neg', 'mpf_abs', 'mpf_pos', 'mpf_sum', 'from_int', 'from_float',
           'from_rational', 'from_man_exp']


def run(run, ix, tier):
    run.explanation = (
        'Rounding-flow analysis of the real arithmetic kernels (bounded result, caller\'s '
        'mode at the final rounding on every path), value checks of the three mode '
        'tables, argument-threading of (prec, rounding) through every operator method and '
        'f* function, and well-formedness of the sticky-bit idioms that turn a truncated '
        'quotient / root / far-exponent sum into a correctly roundable integer.  That the '
        'idioms and _normalize compute the nearest value is bit-level arithmetic and is '
        'not decided.')
    run.assumptions = ['_normalize/_normalize1 round correctly given exact (man, bc) (C01 checks '
                       'their structure)']
    run.trusted = ['sa/round_flow.py']
    run.rule('B-R1', floor=14)
    run.rule('B-R3', floor=18)
    run.rule('B-R3t', floor=25)
    run.rule('B-R3c', floor=8)
    run.rule('B-R4i', floor=5)
    run.rule('B-R4m', floor=1)
    kernel_obligations(run, ix, KERNELS, single=False, rule_single=None)
    check_mode_tables(run, ix)
    check_round_int(run, ix)
    n = check_operator_threading(run, ix, 'B-R3t', '_mpf')
    # generated operator methods
    for g in ix.generated:
        for x in ast.walk(g.node):
            if isinstance(x, ast.Call) and isinstance(x.func, ast.Name) and \
                    x.func.id.startswith(('mpf_', 'mpc_')) and x.func.id not in ('mpf_eq',):
                n += 1
                args = [norm(a) for a in x.args]
                if args[-2:] == ['prec', 'rounding']:
                    run.ok('B-R3t')
                else:
                    run.fail(Finding('B-R3t', CTXPY, g.qualname, norm(x),
                                     'generated operator does not pass (prec, rounding) to the '
                                     'kernel', line=None))
        # the pair comes from self._ctxdata
        first = g.node.body[0]
        if not (isinstance(first, ast.Assign) and norm(first.value).endswith('._ctxdata')):
            run.fail(Finding('B-R3t', CTXPY, g.qualname, norm(first),
                             'precision pair is not read from self._ctxdata', line=None))
    if n < 25:
        raise AnalysisError('only %d kernel calls found in mpf operators' % n)
    check_fstar(run, ix)
    check_mpf_new(run, ix)
    check_keyword_independence(run, ix, 'B-R3t')
    from .kernel_rules import check_exact_operand_conversion
    check_exact_operand_conversion(run, ix, 'B-R3t')
    check_conversion_rounding(run, ix)
    # S-R1: the special-value clause (inf / nan operands, zero divisors), decided on operand classes
    from .special_rules import check_special_values
    run.rule('S-R1', floor=100, desc='special-value table on every operand-class combination')
    check_special_values(run, ix, 'S-R1', ['mpf_add', 'mpf_sub', 'mpf_mul', 'mpf_div', 'mpf_neg', 'mpf_abs',
                                           'mpf_pos', 'mpf_sqrt'])
    check_sticky_idioms(run, ix)
    check_tie_masks(run, ix)
    check_sum_window(run, ix)


CONVERTERS = ('from_str', 'from_rational', 'from_Decimal', 'from_man_exp')
# source types the property names for mpf(): how the dispatch in mpf_convert_arg tests for them
SOURCE_TESTS = {'int': ('int_types',), 'float': ('float',), 'str': ('basestring', 'str'),
                'mpf': ("'_mpf_'",), 'Fraction': ('Rational',), 'mpq': ('mpq',)}


def check_conversion_rounding(run, ix):
    """The converters of inexact sources take `rnd=round_fast` (= round-down) as a DEFAULT: a
    call that omits the mode truncates toward zero whatever the context's rounding is.  Every
    call of such a converter in the mp context layer must supply the mode: positionally, by
    keyword, or by unpacking the context's `_prec_rounding` pair."""
    sig = {}
    for name in CONVERTERS:
        f = ix.func(LIBMPF, name)
        if 'rnd' not in f.params:
            raise AnalysisError('%s has no rnd parameter' % name)
        sig[name] = f.params.index('rnd')
    n = 0
    for rel in (CTXPY, 'mpmath/ctx_mp.py'):
        m = ix.module(rel)
        for f in m.funcs.values():
            for x in _walk_own(f.node):
                if not (isinstance(x, ast.Call) and isinstance(x.func, ast.Name) and x.func.id in sig):
                    continue
                k = sig[x.func.id]
                if x.func.id == 'from_man_exp' and len(x.args) <= 2 and not x.keywords:
                    continue        # exact: no precision given, nothing is rounded
                n += 1
                star = [a for a in x.args if isinstance(a, ast.Starred)]
                ok = len(x.args) > k and not star
                ok = ok or any(kw.arg == 'rnd' for kw in x.keywords)
                ok = ok or any(norm(a.value).endswith('_prec_rounding') for a in star)
                if ok:
                    run.ok('B-R3c', '%s: %s' % (f.qualname, norm(x)) if n < 12 else None)
                else:
                    st = x
                    while not isinstance(st, ast.stmt):
                        st = st._parent
                    run.fail(Finding('B-R3c', rel, f.qualname, norm(st),
                                     '`%s` is called without a rounding mode: the converter falls '
                                     'back to round-down, so the value is truncated toward zero '
                                     'instead of rounded in the context\'s mode' % norm(x),
                                     line=x.lineno))
    if n < 7:
        raise AnalysisError('only %d inexact-source conversions found in the mp context layer' % n)
    # type coverage of mpf(x)
    f = ix.func(CTXPY, '_mpf.mpf_convert_arg')
    tests = ' '.join(norm(st.test) for st in _walk_own(f.node) if isinstance(st, ast.If))
    for kind, pats in sorted(SOURCE_TESTS.items()):
        if any(p in tests for p in pats):
            run.ok('B-R3c', 'mpf() dispatch covers %s' % kind)
        else:
            run.fail(Finding('B-R3c', CTXPY, f.qualname, 'dispatch on %s' % kind,
                             'mpf(x) has no branch for a %s operand (TypeError instead of a '
                             'correctly rounded value)' % kind, line=f.lineno))


def check_round_int(run, ix):
    f = ix.func(LIBMPF, 'round_int')
    seen = set()
    for st in f.node.body:
        if isinstance(st, ast.If) and isinstance(st.test, ast.Compare) and \
                norm(st.test.left) == f.params[2]:
            seen.add(norm(st.test.comparators[0]))
    want = {'round_nearest', 'round_floor', 'round_ceiling', 'round_down', 'round_up'}
    if seen == want:
        run.ok('B-R3', 'round_int dispatches on all five modes')
    else:
        run.fail(Finding('B-R3', LIBMPF, 'round_int', 'def round_int',
                         'mode dispatch not exhaustive: missing %s' % sorted(want - seen),
                         line=f.lineno))


def check_fstar(run, ix):
    for name in ('fneg', 'fadd', 'fsub', 'fmul', 'fdiv'):
        f = ix.func('mpmath/ctx_mp.py', 'MPContext.%s' % name)
        pair = None
        for x in _walk_own(f.node):
            if isinstance(x, ast.Assign) and isinstance(x.targets[0], ast.Tuple) and \
                    '_parse_prec(' in norm(x.value):
                pair = [norm(e) for e in x.targets[0].elts]
        if not pair:
            run.fail(Finding('B-R3t', f.file, f.qualname, 'def %s' % name,
                             'precision/rounding not taken from _parse_prec(kwargs)', line=f.lineno))
            continue
        k = 0
        for x in _walk_own(f.node):
            if isinstance(x, ast.Call) and isinstance(x.func, ast.Name) and \
                    x.func.id.startswith(('mpf_', 'mpc_')):
                k += 1
                args = [norm(a) for a in x.args]
                if args[-2:] == pair:
                    run.ok('B-R3t')
                else:
                    run.fail(Finding('B-R3t', f.file, f.qualname, norm(x),
                                     'kernel does not receive the parsed (prec, rounding)',
                                     line=x.lineno))
        if k == 0:
            raise AnalysisError('%s: no kernel call found' % f.qualname)


def check_mpf_new(run, ix):
    """mpf(x): the operand object itself is returned only for inf/nan;
    every other path stores a freshly rounded value"""
    f = ix.func(CTXPY, '_mpf.__new__')
    val = f.params[1]
    for r in _walk_own(f.node):
        if isinstance(r, ast.Return) and isinstance(r.value, ast.Name) and r.value.id == val:
            par = r._parent
            ok = isinstance(par, ast.If) and r in par.body and \
                norm(par.test) in ('not man and exp', '(not man) and exp')
            if ok:
                run.ok('B-R3t', 'mpf(x) returns x itself only for inf/nan')
            else:
                run.fail(Finding('B-R3t', CTXPY, f.qualname,
                                 norm(par) if isinstance(par, ast.If) else norm(r),
                                 'mpf(x) returns its operand unrounded under a condition other '
                                 'than "x is inf or nan"', line=r.lineno))


def check_sticky_idioms(run, ix):
    # --- division: quot, rem = divmod(num << extra, den); if rem: quot = (quot << 1) + 1; extra += 1
    for name in ('mpf_div', 'mpf_rdiv_int'):
        f = ix.func(LIBMPF, name)
        dm = [x for x in _walk_own(f.node) if isinstance(x, ast.Assign) and
              isinstance(x.value, ast.Call) and norm(x.value.func) == 'divmod' and
              isinstance(x.targets[0], ast.Tuple)]
        problems = []
        if len(dm) != 1:
            problems.append('quotient/remainder are not obtained by a single divmod')
        else:
            q, r = [e.id for e in dm[0].targets[0].elts]
            shiftvar = None
            num = dm[0].value.args[0]
            if isinstance(num, ast.BinOp) and isinstance(num.op, ast.LShift):
                shiftvar = norm(num.right)
            guard = [x for x in _walk_own(f.node) if isinstance(x, ast.If) and norm(x.test) == r]
            if len(guard) != 1:
                problems.append('no `if %s:` (remainder) guard' % r)
            else:
                body = [norm(s) for s in guard[0].body]
                if '%s = (%s << 1) + 1' % (q, q) not in body:
                    problems.append('a non-zero remainder does not set an extra low (sticky) bit')
                if shiftvar and '%s += 1' % shiftvar not in body:
                    problems.append('the exponent is not adjusted for the extra bit')
                rets = [x for x in guard[0].body if isinstance(x, ast.Return)]
                if not rets or q not in norm(rets[0]):
                    problems.append('the sticky quotient is not the value that is rounded')
        if problems:
            run.fail(Finding('B-R4i', LIBMPF, name, 'divmod sticky idiom', '; '.join(problems),
                             line=f.lineno))
        else:
            run.ok('B-R4i', '%s: remainder -> sticky low bit, exponent adjusted' % name)
    # --- sqrt
    f = ix.func(LIBMPF, 'mpf_sqrt')
    problems = []
    ifs = [x for x in _walk_own(f.node) if isinstance(x, ast.If) and norm(x.test).startswith('rnd in')]
    if len(ifs) != 1:
        problems.append('no mode split `rnd in ...`')
    else:
        st = ifs[0]
        modes = norm(st.test.comparators[0]).strip("'\"")
        if set(modes) - set('fd, ()\'"'):
            # isqrt (floor) is only valid when truncation is the requested direction
            bad = set(c for c in modes if c.isalpha()) - {'f', 'd'}
            if bad:
                problems.append('floor square root is used for mode(s) %s that do not round down'
                                % sorted(bad))
        # the downward branch needs the EXACT floor root: isqrt_fast / sqrt_fixed may be one unit
        # short on the pure-Python backend (their documented contract), which turns the root of a
        # perfect square into its predecessor
        names = [norm(c.func) for b in st.body for c in ast.walk(b) if isinstance(c, ast.Call)]
        if any(n in ('isqrt_fast', 'sqrt_fixed', 'sqrt_fixed2', 'isqrt_fast_python') for n in names):
            problems.append('the downward-rounding branch takes the root with an approximate helper (%s) '
                            'instead of the exact floor root isqrt' %
                            [n for n in names if n.startswith(('isqrt_fast', 'sqrt_fixed'))][0])
        elif not any(n in ('isqrt', 'sqrtrem', 'isqrt_python', 'sqrtrem_python') for n in names):
            problems.append('the downward-rounding branch does not compute an exact integer root')
        else_src = [norm(s) for s in ast.walk(ast.Module(body=st.orelse, type_ignores=[]))
                    if isinstance(s, ast.stmt)]
        if not any('sqrtrem(' in s for s in else_src):
            problems.append('other modes do not compute the remainder')
        if not any(s.startswith('if rem') for s in else_src):
            problems.append('no remainder guard')
        if not any(s == 'man = (man << 1) + 1' for s in else_src):
            problems.append('a non-zero remainder does not set the sticky bit')
        if not any(s == 'shift += 2' for s in else_src):
            problems.append('the exponent is not adjusted by 2 for the extra bit of the root')
    if problems:
        run.fail(Finding('B-R4i', LIBMPF, 'mpf_sqrt', 'sqrt sticky idiom', '; '.join(problems),
                         line=f.lineno))
    else:
        run.ok('B-R4i', 'mpf_sqrt: isqrt only for f/d, otherwise sqrtrem + sticky bit')
    # --- far-exponent addition: guard `delta > prec + K` and `offset = prec + K` agree,
    #     perturbation +-1 by sign agreement, both symmetric branches
    f = ix.func(LIBMPF, 'mpf_add')
    blocks = [x for x in _walk_own(f.node) if isinstance(x, ast.If) and
              norm(x.test).startswith('delta > ')]
    if len(blocks) != 2:
        run.fail(Finding('B-R4i', LIBMPF, 'mpf_add', 'far-exponent shortcut',
                         'expected two symmetric `delta > ...` shortcuts, found %d' % len(blocks),
                         line=f.lineno))
    else:
        for b in blocks:
            conj = b.test.values if isinstance(b.test, ast.BoolOp) and isinstance(b.test.op, ast.And) \
                else [b.test]
            dcmp = [c for c in conj if isinstance(c, ast.Compare) and norm(c.left) == 'delta']
            bound = norm(dcmp[0].comparators[0]) if dcmp else '?'
            body = [norm(s) for s in b.body]
            problems = []
            # the smaller operand must lie entirely below the lowest bit of the larger one: the
            # magnitude gap alone does not exclude that it reaches into a mantissa longer than prec
            # (defect of the pinned tree: wrong floor/ceiling for operands with long mantissas)
            shifted_name = [s.split(' ')[0] for s in body if '<<= offset' in s]
            big = shifted_name[0][0] if shifted_name else '?'          # 's' or 't'
            small = 't' if big == 's' else 's'
            want = ['offset >= %sbc' % small, '-offset >= %sbc' % small, 'offset > %sbc' % small,
                    '-offset > %sbc' % small]
            if not any(norm(c) in want for c in conj):
                problems.append('the shortcut is not restricted to operands that do not overlap (`offset >= '
                                '%sbc`): with a mantissa longer than the precision the small operand reaches '
                                'into the kept bits and a directed result lands on the wrong side' % small)
            if 'offset = %s' % bound not in body:
                problems.append('guard `delta > %s` and the shift `offset = ...` disagree (the '
                                'smaller operand may overlap the kept bits)' % bound)
            if 'prec' not in bound:
                problems.append('guard does not depend on the precision')
            else:
                # at least two guard bits beyond the precision are needed for the sticky trick
                try:
                    k = int(bound.replace('prec', '').replace('+', '').strip() or 0)
                except ValueError:
                    k = None
                if k is not None and k < 2:
                    problems.append('fewer than 2 guard bits between the operands')
            shifted = [s for s in body if '<<= offset' in s]
            pm = [x for x in b.body if isinstance(x, ast.If)]
            if not shifted:
                problems.append('larger mantissa is not shifted by the guard width')
            if not pm or not any('+= 1' in norm(s) for s in pm[0].body) or \
                    not any('-= 1' in norm(s) for s in pm[0].orelse):
                problems.append('perturbation is not +1 / -1 according to sign agreement')
            rets = [x for x in b.body if isinstance(x, ast.Return)]
            if not rets or 'offset' not in norm(rets[0]):
                problems.append('exponent not adjusted by the shift')
            if problems:
                run.fail(Finding('B-R4i', LIBMPF, 'mpf_add', norm(b), '; '.join(problems),
                                 line=b.lineno))
            else:
                run.ok('B-R4i', 'mpf_add far-exponent shortcut: guard %s matches the shift' % bound)


def check_tie_masks(run, ix):
    """h_mask_small[n] and h_mask_big()[n] must be the same function of n
    (mask of the n-1 bits below the tie bit)"""
    m = ix.module(LIBMPF)
    big = ix.func(LIBMPF, 'h_mask_big.__getitem__')
    rets = [x for x in _walk_own(big.node) if isinstance(x, ast.Return)]
    small = None
    for name, value, st, g in m.toplevel_assigns:
        if name == 'h_mask_small':
            for x in ast.walk(value):
                if isinstance(x, ast.ListComp):
                    small = x
    if len(rets) != 1 or small is None:
        raise AnalysisError('tie masks: definitions not found')
    a = _rename(rets[0].value, big.params[1])
    var = small.generators[0].target.id
    b = _rename(small.elt, var)
    if a == b:
        run.ok('B-R4m', 'h_mask_big[n] and h_mask_small[n] are both %s' % a)
    else:
        run.fail(Finding('B-R4m', LIBMPF, 'h_mask_big.__getitem__', norm(rets[0]),
                         'the computed tie mask `%s` differs from the tabulated one `%s`: '
                         'round-to-nearest breaks ties differently above 300 discarded bits'
                         % (a, b), line=rets[0].lineno))


def _rename(expr, var):
    e = ast.parse(ast.unparse(expr), mode='eval').body
    for x in ast.walk(e):
        if isinstance(x, ast.Name) and x.id == var:
            x.id = 'N'
    return ast.unparse(e)


def check_keyword_independence(run, ix, rule):
    """the per-call keywords prec / dps / rounding are independent: every function that parses them
    reads `rounding` on every path on which keywords were given, i.e. the read of the rounding key
    is not control-dependent on the presence of the precision keys (and the precision keys are not
    read only under a test of the rounding key).  Otherwise mpf('0.1', dps=30, rounding='f') silently
    rounds to nearest."""
    n = 0
    for m in ix.modules.values():
        for f in m.funcs.values():
            reads = []
            for x in _walk_own(f.node):
                key = None
                if isinstance(x, ast.Call) and isinstance(x.func, ast.Attribute) and x.func.attr == 'get' and \
                        x.args and isinstance(x.args[0], ast.Constant) and norm(x.func.value) == 'kwargs':
                    key = x.args[0].value
                elif isinstance(x, ast.Subscript) and norm(x.value) == 'kwargs' and \
                        isinstance(x.slice, ast.Constant) and isinstance(x.ctx, ast.Load):
                    key = x.slice.value
                if key in ('rounding', 'prec', 'dps'):
                    reads.append((key, x))
            if not any(k == 'rounding' for k, _ in reads):
                continue
            for key, x in reads:
                n += 1
                # enclosing tests
                p = x
                bad = None
                while p is not None and p is not f.node:
                    par = getattr(p, '_parent', None)
                    if isinstance(par, ast.If):
                        in_body = any(p is s2 for s2 in par.body)
                        in_else = any(p is s2 for s2 in par.orelse)
                        t = norm(par.test)
                        others = [k for k in ('rounding', 'prec', 'dps') if k != key and ("'%s'" % k) in t]
                        # prec and dps are alternatives of one setting: `elif 'dps' in kwargs` is fine
                        if key in ('prec', 'dps'):
                            others = [k for k in others if k == 'rounding']
                        if (in_body or in_else) and others:
                            bad = (par, others[0])
                    p = par
                if bad:
                    par, other = bad
                    st = x
                    while not isinstance(st, ast.stmt):
                        st = st._parent
                    run.fail(Finding(rule, f.file, f.qualname, norm(st),
                                     'the keyword `%s` is read only depending on whether `%s` was given '
                                     '(`%s`): the two settings are independent, so one of them is silently '
                                     'ignored for some keyword combinations' % (key, other, norm(par, 50)),
                                     line=st.lineno))
                else:
                    run.ok(rule, '%s reads %r independently' % (f.qualname, key) if n < 12 else None)
    if n < 6:
        raise AnalysisError('keyword parsing sites not found (%d)' % n)


# --------------------------------------------------------------------------- U-R1
def check_sum_window(run, ix):
    """U-R1.  mpf_sum adds a term exactly only while its exponent is within a window of the running sum's; a term
    beyond the window replaces (or is dropped from) the sum.  For the statement's operands this must never
    happen: fsum terms have p-bit mantissas and magnitudes within p bits of each other, so their exponents are
    less than 2p apart; the products that fdot hands over are EXACT products of two p-bit numbers (found by
    following fdot's calls: products formed with mpf_mul without a precision), with mantissas of up to 2p bits,
    so exponents of comparable products can be almost 3p apart.  The window, read from the source as k*prec,
    must therefore have k >= 2 (+1 for every exact multiplication feeding the sum), i.e. k >= 3."""
    run.rule('U-R1', floor=2, desc='the exact-accumulation window of mpf_sum covers the exact products of fdot')
    f = ix.func(LIBMPF, 'mpf_sum')
    win = [a for a in _walk_own(f.node) if isinstance(a, ast.Assign) and len(a.targets) == 1
           and norm(a.targets[0]) == 'max_extra_prec']
    if len(win) != 1:
        raise AnalysisError('mpf_sum: window assignment not found')
    v = win[0].value
    if isinstance(v, ast.BoolOp) and isinstance(v.op, ast.Or):
        v = v.values[0]
    k = None
    if isinstance(v, ast.BinOp) and isinstance(v.op, ast.Mult):
        for a, b in ((v.left, v.right), (v.right, v.left)):
            if norm(a) == 'prec' and isinstance(b, ast.Constant) and isinstance(b.value, int):
                k = b.value
    if k is None:
        raise AnalysisError('mpf_sum: window `%s` is not k*prec' % norm(win[0].value))
    # does fdot feed exact products?
    g = ix.func('mpmath/ctx_mp_python.py', 'PythonMPContext.fdot')
    exact_products = [c for c in _walk_own(g.node) if isinstance(c, ast.Call) and norm(c.func) in ('mpf_mul', 'mpf_mul_int')
                      and len(c.args) == 2 and not c.keywords]
    sums = [c for c in _walk_own(g.node) if isinstance(c, ast.Call) and norm(c.func) == 'mpf_sum']
    if not sums:
        raise AnalysisError('fdot: mpf_sum call not found')
    need = 3 if exact_products else 2
    run.ok('U-R1', 'fdot hands mpf_sum %d kinds of exact products (2p-bit mantissas)' % len(exact_products))
    if k >= need:
        run.ok('U-R1', 'mpf_sum adds exactly within %d*prec bits (needed: %d*prec)' % (k, need))
    else:
        run.fail(Finding('U-R1', LIBMPF, 'mpf_sum', norm(win[0]), 'terms whose exponents are more than %d*prec apart '
                         'are not added exactly, but fdot sums exact products with 2*prec-bit mantissas, whose exponents '
                         'can be almost 3*prec apart at comparable magnitude: a running sum that cancelled to a small '
                         'value is replaced by the next product (fdot([2**53-2, 2**53-1, 2**80, 2**80], [2**53-2, '
                         '-(2**53-3), 2**76, -2**76]) == 0, exact value 1)' % k, line=win[0].lineno))
