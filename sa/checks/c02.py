"""C02 -- basic real arithmetic is correctly rounded in every rounding mode.

Decides the structural clauses:
  B-R1/B-R3  add, sub, mul, mul_int, div, rdiv_int, sqrt, neg, abs, pos, sum,
         from_int/float/rational return on every path a special value or a
         value rounded at the requested precision in the caller's mode
  B-R3   the mode tables shifts_down / negative_rnd / reciprocal_rnd have the
         directed-rounding semantics; mode dispatch in round_int is exhaustive
  B-R3t  every operator method of mpf and fadd..fdiv/fneg thread the context's
         (prec, rounding) into the kernels; mpf() construction rounds
  B-R4i  the sticky-bit idioms that make a single rounding correct are
         present and well-formed (division / integer division: remainder ->
         extra low bit; sqrt: remainder -> extra low bit, floor shortcut only
         for the downward modes; far-exponent addition: guard and shift agree)
  B-R4m  the two tie-mask implementations (table and computed) agree
Not decided: that the rounded value is the nearest one (bit-level algebra of
the idioms and of _normalize).
"""
import ast

from ..index import AnalysisError, norm
from ..prec_effect import _walk_own
from ..report import Finding
from .kernel_rules import (kernel_obligations, check_mode_tables, check_operator_threading)

LIBMPF = 'mpmath/libmp/libmpf.py'
CTXPY = 'mpmath/ctx_mp_python.py'
KERNELS = ['mpf_add', 'mpf_sub', 'mpf_mul', 'mpf_mul_int', 'mpf_div', 'mpf_rdiv_int',
           'mpf_sqrt', 'mpf_neg', 'mpf_abs', 'mpf_pos', 'mpf_sum', 'from_int', 'from_float',
           'from_rational', 'from_man_exp']


def run(run, ix, tier):
    run.explanation = (
        'Rounding-flow analysis of the real arithmetic kernels (bounded result, caller\'s '
        'mode at the final rounding on every path), value checks of the three mode '
        'tables, argument-threading of (prec, rounding) through every operator method and '
        'f* function, and well-formedness of the sticky-bit idioms that turn a truncated '
        'quotient / root / far-exponent sum into a correctly roundable integer.  That the '
        'idioms and _normalize compute the nearest value is bit-level arithmetic and is '
        'not decided.')
    run.assumptions = ['_normalize/_normalize1 round correctly given exact (man, bc) (C01 checks '
                       'their structure)']
    run.trusted = ['sa/round_flow.py']
    run.rule('B-R1', floor=14)
    run.rule('B-R3', floor=18)
    run.rule('B-R3t', floor=25)
    run.rule('B-R4i', floor=5)
    run.rule('B-R4m', floor=1)
    kernel_obligations(run, ix, KERNELS, single=False, rule_single=None)
    check_mode_tables(run, ix)
    check_round_int(run, ix)
    n = check_operator_threading(run, ix, 'B-R3t', '_mpf')
    # generated operator methods
    for g in ix.generated:
        for x in ast.walk(g.node):
            if isinstance(x, ast.Call) and isinstance(x.func, ast.Name) and \
                    x.func.id.startswith(('mpf_', 'mpc_')) and x.func.id not in ('mpf_eq',):
                n += 1
                args = [norm(a) for a in x.args]
                if args[-2:] == ['prec', 'rounding']:
                    run.ok('B-R3t')
                else:
                    run.fail(Finding('B-R3t', CTXPY, g.qualname, norm(x),
                                     'generated operator does not pass (prec, rounding) to the '
                                     'kernel', line=None))
        # the pair comes from self._ctxdata
        first = g.node.body[0]
        if not (isinstance(first, ast.Assign) and norm(first.value).endswith('._ctxdata')):
            run.fail(Finding('B-R3t', CTXPY, g.qualname, norm(first),
                             'precision pair is not read from self._ctxdata', line=None))
    if n < 25:
        raise AnalysisError('only %d kernel calls found in mpf operators' % n)
    check_fstar(run, ix)
    check_mpf_new(run, ix)
    check_sticky_idioms(run, ix)
    check_tie_masks(run, ix)


def check_round_int(run, ix):
    f = ix.func(LIBMPF, 'round_int')
    seen = set()
    for st in f.node.body:
        if isinstance(st, ast.If) and isinstance(st.test, ast.Compare) and \
                norm(st.test.left) == f.params[2]:
            seen.add(norm(st.test.comparators[0]))
    want = {'round_nearest', 'round_floor', 'round_ceiling', 'round_down', 'round_up'}
    if seen == want:
        run.ok('B-R3', 'round_int dispatches on all five modes')
    else:
        run.fail(Finding('B-R3', LIBMPF, 'round_int', 'def round_int',
                         'mode dispatch not exhaustive: missing %s' % sorted(want - seen),
                         line=f.lineno))


def check_fstar(run, ix):
    for name in ('fneg', 'fadd', 'fsub', 'fmul', 'fdiv'):
        f = ix.func('mpmath/ctx_mp.py', 'MPContext.%s' % name)
        pair = None
        for x in _walk_own(f.node):
            if isinstance(x, ast.Assign) and isinstance(x.targets[0], ast.Tuple) and \
                    '_parse_prec(' in norm(x.value):
                pair = [norm(e) for e in x.targets[0].elts]
        if not pair:
            run.fail(Finding('B-R3t', f.file, f.qualname, 'def %s' % name,
                             'precision/rounding not taken from _parse_prec(kwargs)', line=f.lineno))
            continue
        k = 0
        for x in _walk_own(f.node):
            if isinstance(x, ast.Call) and isinstance(x.func, ast.Name) and \
                    x.func.id.startswith(('mpf_', 'mpc_')):
                k += 1
                args = [norm(a) for a in x.args]
                if args[-2:] == pair:
                    run.ok('B-R3t')
                else:
                    run.fail(Finding('B-R3t', f.file, f.qualname, norm(x),
                                     'kernel does not receive the parsed (prec, rounding)',
                                     line=x.lineno))
        if k == 0:
            raise AnalysisError('%s: no kernel call found' % f.qualname)


def check_mpf_new(run, ix):
    """mpf(x): the operand object itself is returned only for inf/nan;
    every other path stores a freshly rounded value"""
    f = ix.func(CTXPY, '_mpf.__new__')
    val = f.params[1]
    for r in _walk_own(f.node):
        if isinstance(r, ast.Return) and isinstance(r.value, ast.Name) and r.value.id == val:
            par = r._parent
            ok = isinstance(par, ast.If) and r in par.body and \
                norm(par.test) in ('not man and exp', '(not man) and exp')
            if ok:
                run.ok('B-R3t', 'mpf(x) returns x itself only for inf/nan')
            else:
                run.fail(Finding('B-R3t', CTXPY, f.qualname,
                                 norm(par) if isinstance(par, ast.If) else norm(r),
                                 'mpf(x) returns its operand unrounded under a condition other '
                                 'than "x is inf or nan"', line=r.lineno))


def check_sticky_idioms(run, ix):
    # --- division: quot, rem = divmod(num << extra, den); if rem: quot = (quot << 1) + 1; extra += 1
    for name in ('mpf_div', 'mpf_rdiv_int'):
        f = ix.func(LIBMPF, name)
        dm = [x for x in _walk_own(f.node) if isinstance(x, ast.Assign) and
              isinstance(x.value, ast.Call) and norm(x.value.func) == 'divmod' and
              isinstance(x.targets[0], ast.Tuple)]
        problems = []
        if len(dm) != 1:
            problems.append('quotient/remainder are not obtained by a single divmod')
        else:
            q, r = [e.id for e in dm[0].targets[0].elts]
            shiftvar = None
            num = dm[0].value.args[0]
            if isinstance(num, ast.BinOp) and isinstance(num.op, ast.LShift):
                shiftvar = norm(num.right)
            guard = [x for x in _walk_own(f.node) if isinstance(x, ast.If) and norm(x.test) == r]
            if len(guard) != 1:
                problems.append('no `if %s:` (remainder) guard' % r)
            else:
                body = [norm(s) for s in guard[0].body]
                if '%s = (%s << 1) + 1' % (q, q) not in body:
                    problems.append('a non-zero remainder does not set an extra low (sticky) bit')
                if shiftvar and '%s += 1' % shiftvar not in body:
                    problems.append('the exponent is not adjusted for the extra bit')
                rets = [x for x in guard[0].body if isinstance(x, ast.Return)]
                if not rets or q not in norm(rets[0]):
                    problems.append('the sticky quotient is not the value that is rounded')
        if problems:
            run.fail(Finding('B-R4i', LIBMPF, name, 'divmod sticky idiom', '; '.join(problems),
                             line=f.lineno))
        else:
            run.ok('B-R4i', '%s: remainder -> sticky low bit, exponent adjusted' % name)
    # --- sqrt
    f = ix.func(LIBMPF, 'mpf_sqrt')
    problems = []
    ifs = [x for x in _walk_own(f.node) if isinstance(x, ast.If) and norm(x.test).startswith('rnd in')]
    if len(ifs) != 1:
        problems.append('no mode split `rnd in ...`')
    else:
        st = ifs[0]
        modes = norm(st.test.comparators[0]).strip("'\"")
        if set(modes) - set('fd, ()\'"'):
            # isqrt (floor) is only valid when truncation is the requested direction
            bad = set(c for c in modes if c.isalpha()) - {'f', 'd'}
            if bad:
                problems.append('floor square root is used for mode(s) %s that do not round down'
                                % sorted(bad))
        else_src = [norm(s) for s in ast.walk(ast.Module(body=st.orelse, type_ignores=[]))
                    if isinstance(s, ast.stmt)]
        if not any('sqrtrem(' in s for s in else_src):
            problems.append('other modes do not compute the remainder')
        if not any(s.startswith('if rem') for s in else_src):
            problems.append('no remainder guard')
        if not any(s == 'man = (man << 1) + 1' for s in else_src):
            problems.append('a non-zero remainder does not set the sticky bit')
        if not any(s == 'shift += 2' for s in else_src):
            problems.append('the exponent is not adjusted by 2 for the extra bit of the root')
    if problems:
        run.fail(Finding('B-R4i', LIBMPF, 'mpf_sqrt', 'sqrt sticky idiom', '; '.join(problems),
                         line=f.lineno))
    else:
        run.ok('B-R4i', 'mpf_sqrt: isqrt only for f/d, otherwise sqrtrem + sticky bit')
    # --- far-exponent addition: guard `delta > prec + K` and `offset = prec + K` agree,
    #     perturbation +-1 by sign agreement, both symmetric branches
    f = ix.func(LIBMPF, 'mpf_add')
    blocks = [x for x in _walk_own(f.node) if isinstance(x, ast.If) and
              norm(x.test).startswith('delta > ')]
    if len(blocks) != 2:
        run.fail(Finding('B-R4i', LIBMPF, 'mpf_add', 'far-exponent shortcut',
                         'expected two symmetric `delta > ...` shortcuts, found %d' % len(blocks),
                         line=f.lineno))
    else:
        for b in blocks:
            bound = norm(b.test.comparators[0])
            body = [norm(s) for s in b.body]
            problems = []
            if 'offset = %s' % bound not in body:
                problems.append('guard `delta > %s` and the shift `offset = ...` disagree (the '
                                'smaller operand may overlap the kept bits)' % bound)
            if 'prec' not in bound:
                problems.append('guard does not depend on the precision')
            else:
                # at least two guard bits beyond the precision are needed for the sticky trick
                try:
                    k = int(bound.replace('prec', '').replace('+', '').strip() or 0)
                except ValueError:
                    k = None
                if k is not None and k < 2:
                    problems.append('fewer than 2 guard bits between the operands')
            shifted = [s for s in body if '<<= offset' in s]
            pm = [x for x in b.body if isinstance(x, ast.If)]
            if not shifted:
                problems.append('larger mantissa is not shifted by the guard width')
            if not pm or not any('+= 1' in norm(s) for s in pm[0].body) or \
                    not any('-= 1' in norm(s) for s in pm[0].orelse):
                problems.append('perturbation is not +1 / -1 according to sign agreement')
            rets = [x for x in b.body if isinstance(x, ast.Return)]
            if not rets or 'offset' not in norm(rets[0]):
                problems.append('exponent not adjusted by the shift')
            if problems:
                run.fail(Finding('B-R4i', LIBMPF, 'mpf_add', norm(b), '; '.join(problems),
                                 line=b.lineno))
            else:
                run.ok('B-R4i', 'mpf_add far-exponent shortcut: guard %s matches the shift' % bound)


def check_tie_masks(run, ix):
    """h_mask_small[n] and h_mask_big()[n] must be the same function of n
    (mask of the n-1 bits below the tie bit)"""
    m = ix.module(LIBMPF)
    big = ix.func(LIBMPF, 'h_mask_big.__getitem__')
    rets = [x for x in _walk_own(big.node) if isinstance(x, ast.Return)]
    small = None
    for name, value, st, g in m.toplevel_assigns:
        if name == 'h_mask_small':
            for x in ast.walk(value):
                if isinstance(x, ast.ListComp):
                    small = x
    if len(rets) != 1 or small is None:
        raise AnalysisError('tie masks: definitions not found')
    a = _rename(rets[0].value, big.params[1])
    var = small.generators[0].target.id
    b = _rename(small.elt, var)
    if a == b:
        run.ok('B-R4m', 'h_mask_big[n] and h_mask_small[n] are both %s' % a)
    else:
        run.fail(Finding('B-R4m', LIBMPF, 'h_mask_big.__getitem__', norm(rets[0]),
                         'the computed tie mask `%s` differs from the tabulated one `%s`: '
                         'round-to-nearest breaks ties differently above 300 discarded bits'
                         % (a, b), line=rets[0].lineno))


def _rename(expr, var):
    e = ast.parse(ast.unparse(expr), mode='eval').body
    for x in ast.walk(e):
        if isinstance(x, ast.Name) and x.id == var:
            x.id = 'N'
    return ast.unparse(e)
