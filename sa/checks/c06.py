"""C06 -- integer-part functions and modulo follow their exact definitions.

Decides the structural clause: floor/ceil/nint/frac/mod (real and complex)
return, on every path, a special value or a SINGLE rounding -- at the
requested precision and in the caller's rounding mode -- of the exact result
(B-R1 bounded, B-R3 mode threading, B-R4 single rounding); each public name is
wired to the like-named kernel; int() truncates.  The integer-part arithmetic
itself (mpf_round_int, the modulo reduction) is not decided.
"""
import ast

from ..index import AnalysisError, norm
from ..prec_effect import _walk_own
from ..report import Finding
from .kernel_rules import kernel_obligations

CTXMP = 'mpmath/ctx_mp.py'
CTXPY = 'mpmath/ctx_mp_python.py'
LIBMPF = 'mpmath/libmp/libmpf.py'

KERNELS = ['mpf_floor', 'mpf_ceil', 'mpf_nint', 'mpf_frac', 'mpf_mod',
           'mpc_floor', 'mpc_ceil', 'mpc_nint', 'mpc_frac']


def run(run, ix, tier):
    run.explanation = (
        'Rounding-flow analysis (Engine B) of mpf_floor/ceil/nint/frac/mod and their '
        'complex versions: every return path yields a special value or a single '
        'rounding, at the requested precision and in the caller\'s mode, of an exactly '
        'computed value; plus wiring rules (public names -> like-named kernels, the '
        'direction constants passed to mpf_round_int, int() truncation).  The integer '
        'arithmetic of mpf_round_int and of the modulo reduction is not decided.')
    run.assumptions = ['mpf_round_int returns the exact integer part (trusted)',
                       'rounding primitives are correct (C01/C02)']
    run.trusted = ['sa/round_flow.py']
    run.rule('B-R1', floor=9, desc='bounded result')
    run.rule('B-R3', floor=9, desc='caller\'s rounding mode reaches the final rounding')
    run.rule('B-R4', floor=9, desc='single rounding of an exact value')
    run.rule('H-C06', floor=9, desc='wiring of names, directions and truncation')
    kernel_obligations(run, ix, KERNELS)
    # S-R1: zeros, infinities and nan through floor / ceil / nint / frac / mod (sa/checks/special_rules.py)
    from .special_rules import check_special_values
    run.rule('S-R1', floor=30, desc='special-value table on every operand-class combination')
    check_special_values(run, ix, 'S-R1', ['mpf_floor', 'mpf_ceil', 'mpf_nint', 'mpf_frac', 'mpf_mod'])

    # direction constants: floor -> round_floor, ceil -> round_ceiling, nint -> round_nearest
    for name, const in (('mpf_floor', 'round_floor'), ('mpf_ceil', 'round_ceiling'),
                        ('mpf_nint', 'round_nearest')):
        f = ix.func(LIBMPF, name)
        calls = [x for x in _walk_own(f.node) if isinstance(x, ast.Call)
                 and norm(x.func) == 'mpf_round_int']
        if len(calls) == 1 and len(calls[0].args) == 2 and norm(calls[0].args[1]) == const \
                and norm(calls[0].args[0]) == f.params[0]:
            run.ok('H-C06', '%s takes the integer part with %s' % (name, const))
        else:
            run.fail(Finding('H-C06', LIBMPF, name, 'def %s' % name,
                             'integer part is not mpf_round_int(x, %s)' % const, line=f.lineno))
    # frac(x) = x - floor(x), floor taken exactly
    f = ix.func(LIBMPF, 'mpf_frac')
    rets = [x for x in _walk_own(f.node) if isinstance(x, ast.Return)]
    want = 'mpf_sub(%s, mpf_floor(%s), %s, %s)' % (f.params[0], f.params[0], f.params[1], f.params[2])
    if len(rets) == 1 and norm(rets[0].value) == want:
        run.ok('H-C06', 'mpf_frac = x - floor(x) with an exact floor')
    else:
        run.fail(Finding('H-C06', LIBMPF, 'mpf_frac', norm(rets[0]) if rets else 'def mpf_frac',
                         'frac is not mpf_sub(x, mpf_floor(x), prec, rnd) (floor taken exactly)',
                         line=f.lineno))
    # public wiring
    init = ix.func(CTXMP, 'MPContext.init_builtins')
    want = {'floor': ('mpf_floor', 'mpc_floor'), 'ceil': ('mpf_ceil', 'mpc_ceil'),
            'nint': ('mpf_nint', 'mpc_nint'), 'frac': ('mpf_frac', 'mpc_frac')}
    seen = set()
    for st in init.node.body:
        if isinstance(st, ast.Assign) and isinstance(st.value, ast.Call) and \
                norm(st.value.func).endswith('_wrap_libmp_function'):
            for t in st.targets:
                if isinstance(t, ast.Attribute) and t.attr in want:
                    got = tuple(norm(a).split('.')[-1] for a in st.value.args[:2])
                    seen.add(t.attr)
                    if got == want[t.attr]:
                        run.ok('H-C06', 'ctx.%s -> %s/%s' % ((t.attr,) + got))
                    else:
                        run.fail(Finding('H-C06', CTXMP, init.qualname, norm(st),
                                         'ctx.%s is wired to %s, expected %s' % (t.attr, got, want[t.attr]),
                                         line=st.lineno))
    if seen != set(want):
        raise AnalysisError('init_builtins: wiring of %s not found' % sorted(set(want) - seen))
    # complex versions are componentwise
    for name, real in (('mpc_floor', 'mpf_floor'), ('mpc_ceil', 'mpf_ceil'),
                       ('mpc_nint', 'mpf_nint'), ('mpc_frac', 'mpf_frac')):
        f = ix.func('mpmath/libmp/libmpc.py', name)
        rets = [x for x in _walk_own(f.node) if isinstance(x, ast.Return)]
        ok = len(rets) == 1 and isinstance(rets[0].value, ast.Tuple) and \
            all(isinstance(e, ast.Call) and norm(e.func) == real for e in rets[0].value.elts)
        if ok:
            run.ok('H-C06', '%s applies %s to both parts' % (name, real))
        else:
            run.fail(Finding('H-C06', f.file, name, norm(rets[0]) if rets else 'def',
                             'complex version is not %s of both components' % real, line=f.lineno))
    # int() truncates toward zero: to_int without a rounding argument
    f = ix.func(CTXPY, '_mpf.__int__')
    calls = [x for x in _walk_own(f.node) if isinstance(x, ast.Call) and norm(x.func) == 'to_int']
    if len(calls) == 1 and len(calls[0].args) == 1 and not calls[0].keywords:
        run.ok('H-C06', 'int(x) = to_int(x) with default (truncating) rounding')
    else:
        run.fail(Finding('H-C06', CTXPY, '_mpf.__int__', 'def __int__',
                         'int() does not call to_int(x) with the default truncation', line=f.lineno))
