"""C06 -- integer-part functions and modulo follow their exact definitions.

Decides the structural clause: floor/ceil/nint/frac/mod (real and complex)
return, on every path, a special value or a SINGLE rounding -- at the
requested precision and in the caller's rounding mode -- of the exact result
(B-R1 bounded, B-R3 mode threading, B-R4 single rounding); each public name is
wired to the like-named kernel; int() truncates; special values follow the
table (S-R1); the modulo reduction never writes out a number as large as the
exponent gap of its operands (M-R1).  The integer-part arithmetic itself
(mpf_round_int, the value of the modulo reduction) is not decided.
"""
import ast

from ..index import AnalysisError, norm
from ..prec_effect import _walk_own
from ..report import Finding
from .kernel_rules import kernel_obligations

CTXMP = 'mpmath/ctx_mp.py'
CTXPY = 'mpmath/ctx_mp_python.py'
LIBMPF = 'mpmath/libmp/libmpf.py'

KERNELS = ['mpf_floor', 'mpf_ceil', 'mpf_nint', 'mpf_frac', 'mpf_mod',
           'mpc_floor', 'mpc_ceil', 'mpc_nint', 'mpc_frac']


def run(run, ix, tier):
    run.explanation = (
        'Rounding-flow analysis (Engine B) of mpf_floor/ceil/nint/frac/mod and their '
        'complex versions: every return path yields a special value or a single '
        'rounding, at the requested precision and in the caller\'s mode, of an exactly '
        'computed value; plus wiring rules (public names -> like-named kernels, the '
        'direction constants passed to mpf_round_int, int() truncation).  The integer '
        'arithmetic of mpf_round_int and of the modulo reduction is not decided.')
    run.assumptions = ['mpf_round_int returns the exact integer part (trusted)',
                       'rounding primitives are correct (C01/C02)']
    run.trusted = ['sa/round_flow.py']
    run.rule('B-R1', floor=9, desc='bounded result')
    run.rule('B-R3', floor=9, desc='caller\'s rounding mode reaches the final rounding')
    run.rule('B-R4', floor=9, desc='single rounding of an exact value')
    run.rule('H-C06', floor=9, desc='wiring of names, directions and truncation')
    kernel_obligations(run, ix, KERNELS)
    # S-R1: zeros, infinities and nan through floor / ceil / nint / frac / mod (sa/checks/special_rules.py)
    from .special_rules import check_special_values
    run.rule('S-R1', floor=30, desc='special-value table on every operand-class combination')
    check_special_values(run, ix, 'S-R1', ['mpf_floor', 'mpf_ceil', 'mpf_nint', 'mpf_frac', 'mpf_mod'])

    # direction constants: floor -> round_floor, ceil -> round_ceiling, nint -> round_nearest
    for name, const in (('mpf_floor', 'round_floor'), ('mpf_ceil', 'round_ceiling'),
                        ('mpf_nint', 'round_nearest')):
        f = ix.func(LIBMPF, name)
        calls = [x for x in _walk_own(f.node) if isinstance(x, ast.Call)
                 and norm(x.func) == 'mpf_round_int']
        if len(calls) == 1 and len(calls[0].args) == 2 and norm(calls[0].args[1]) == const \
                and norm(calls[0].args[0]) == f.params[0]:
            run.ok('H-C06', '%s takes the integer part with %s' % (name, const))
        else:
            run.fail(Finding('H-C06', LIBMPF, name, 'def %s' % name,
                             'integer part is not mpf_round_int(x, %s)' % const, line=f.lineno))
    # frac(x) = x - floor(x), floor taken exactly
    f = ix.func(LIBMPF, 'mpf_frac')
    rets = [x for x in _walk_own(f.node) if isinstance(x, ast.Return)]
    want = 'mpf_sub(%s, mpf_floor(%s), %s, %s)' % (f.params[0], f.params[0], f.params[1], f.params[2])
    if len(rets) == 1 and norm(rets[0].value) == want:
        run.ok('H-C06', 'mpf_frac = x - floor(x) with an exact floor')
    else:
        run.fail(Finding('H-C06', LIBMPF, 'mpf_frac', norm(rets[0]) if rets else 'def mpf_frac',
                         'frac is not mpf_sub(x, mpf_floor(x), prec, rnd) (floor taken exactly)',
                         line=f.lineno))
    # public wiring
    init = ix.func(CTXMP, 'MPContext.init_builtins')
    want = {'floor': ('mpf_floor', 'mpc_floor'), 'ceil': ('mpf_ceil', 'mpc_ceil'),
            'nint': ('mpf_nint', 'mpc_nint'), 'frac': ('mpf_frac', 'mpc_frac')}
    seen = set()
    for st in init.node.body:
        if isinstance(st, ast.Assign) and isinstance(st.value, ast.Call) and \
                norm(st.value.func).endswith('_wrap_libmp_function'):
            for t in st.targets:
                if isinstance(t, ast.Attribute) and t.attr in want:
                    got = tuple(norm(a).split('.')[-1] for a in st.value.args[:2])
                    seen.add(t.attr)
                    if got == want[t.attr]:
                        run.ok('H-C06', 'ctx.%s -> %s/%s' % ((t.attr,) + got))
                    else:
                        run.fail(Finding('H-C06', CTXMP, init.qualname, norm(st),
                                         'ctx.%s is wired to %s, expected %s' % (t.attr, got, want[t.attr]),
                                         line=st.lineno))
    if seen != set(want):
        raise AnalysisError('init_builtins: wiring of %s not found' % sorted(set(want) - seen))
    # complex versions are componentwise
    for name, real in (('mpc_floor', 'mpf_floor'), ('mpc_ceil', 'mpf_ceil'),
                       ('mpc_nint', 'mpf_nint'), ('mpc_frac', 'mpf_frac')):
        f = ix.func('mpmath/libmp/libmpc.py', name)
        rets = [x for x in _walk_own(f.node) if isinstance(x, ast.Return)]
        ok = len(rets) == 1 and isinstance(rets[0].value, ast.Tuple) and \
            all(isinstance(e, ast.Call) and norm(e.func) == real for e in rets[0].value.elts)
        if ok:
            run.ok('H-C06', '%s applies %s to both parts' % (name, real))
        else:
            run.fail(Finding('H-C06', f.file, name, norm(rets[0]) if rets else 'def',
                             'complex version is not %s of both components' % real, line=f.lineno))
    # int() truncates toward zero: to_int without a rounding argument
    f = ix.func(CTXPY, '_mpf.__int__')
    calls = [x for x in _walk_own(f.node) if isinstance(x, ast.Call) and norm(x.func) == 'to_int']
    if len(calls) == 1 and len(calls[0].args) == 1 and not calls[0].keywords:
        run.ok('H-C06', 'int(x) = to_int(x) with default (truncating) rounding')
    else:
        run.fail(Finding('H-C06', CTXPY, '_mpf.__int__', 'def __int__',
                         'int() does not call to_int(x) with the default truncation', line=f.lineno))
    check_gap_shifts(run, ix)


# --------------------------------------------------------------------------- M-R1
EXPN = ('sexp', 'texp', 'exp', 'base', 'offset')


def _conjuncts(t):
    if isinstance(t, ast.BoolOp) and isinstance(t.op, ast.And):
        out = []
        for v in t.values:
            out += _conjuncts(v)
        return out
    return [t]


def _always_leaves(body):
    last = body[-1] if body else None
    if isinstance(last, (ast.Return, ast.Raise)):
        return True
    if isinstance(last, ast.If) and last.orelse:
        return _always_leaves(last.body) and _always_leaves(last.orelse)
    return False


def check_gap_shifts(run, ix):
    """M-R1.  The remainder is smaller than the divisor, so mpf_mod must never write out a number whose
    size is the DIFFERENCE of the two exponents (2**(10**12) % 3 has a one-digit answer).  Every left shift
    in mpf_mod whose amount mentions an exponent must be gap-guarded: an earlier statement of the function
    body is an `if` that always leaves and whose test consists only of (a) the truth value of the shifted
    mantissa and (b) a comparison `hi > lo + <bit count>` of the two exponents in the direction of the shift
    -- a further conjunct (equal signs, a particular mantissa) leaves the other cases unguarded.  A modular
    power `pow(2, gap, m)` is bounded by construction."""
    run.rule('M-R1', floor=2, desc='no operand of the modulo reduction is as large as the exponent gap')
    f = ix.func(LIBMPF, 'mpf_mod')
    body = f.node.body
    guards = []            # (stmt index, set of normalised conjuncts)
    for i, st in enumerate(body):
        if isinstance(st, ast.If) and not st.orelse and _always_leaves(st.body):
            guards.append((i, [norm(c) for c in _conjuncts(st.test)]))

    def top_index(node):
        p = node
        while getattr(p, '_parent', None) is not f.node:
            p = p._parent
        return body.index(p)

    for x in _walk_own(f.node):
        if isinstance(x, ast.Call) and norm(x.func) == 'pow' and len(x.args) == 3 and \
                any(isinstance(n, ast.Name) and n.id in EXPN for n in ast.walk(x.args[1])):
            run.ok('M-R1', 'mpf_mod: %s reduces the power of two modulo the divisor' % norm(x))
        if not (isinstance(x, ast.BinOp) and isinstance(x.op, ast.LShift)):
            continue
        names = {n.id for n in ast.walk(x.right) if isinstance(n, ast.Name)}
        if not names & set(EXPN):
            continue
        # which exponent grows the shift: A in `A - base` / `A - B`
        amt = x.right
        if not (isinstance(amt, ast.BinOp) and isinstance(amt.op, ast.Sub) and isinstance(amt.left, ast.Name)
                and amt.left.id in ('sexp', 'texp')):
            run.fail(Finding('M-R1', LIBMPF, 'mpf_mod', norm(x), 'left shift by an exponent expression of a form '
                             'the rule cannot bound', line=x.lineno))
            continue
        hi = amt.left.id
        lo = 'texp' if hi == 'sexp' else 'sexp'
        lobc = 'tbc' if hi == 'sexp' else 'sbc'
        src = norm(x.left)
        want_cmp = {'%s > %s + %s' % (hi, lo, lobc), '%s + %s < %s' % (lo, lobc, hi)}
        idx = top_index(x)
        good = None
        for i, conj in guards:
            if i >= idx:
                continue
            rest = [c for c in conj if c not in want_cmp]
            if len(rest) < len(conj) and all(c == src for c in rest):
                good = body[i]
        if good is not None:
            run.ok('M-R1', 'mpf_mod: `%s` is reached only with %s <= %s + %s (line %d leaves otherwise)'
                   % (norm(x), hi, lo, lobc, good.lineno))
        else:
            run.fail(Finding('M-R1', LIBMPF, 'mpf_mod', norm(x), 'the shift materialises 2**(%s - %s): no earlier '
                             'exit leaves for every operand pair with %s > %s + %s (a test with further '
                             'conditions, such as equal signs or a particular mantissa, does not cover the '
                             'other pairs), so x %% y needs memory proportional to the exponent gap'
                             % (hi, lo, hi, lo, lobc), line=x.lineno))
