"""C29 -- root finders return genuine roots.

Convergence, multiplicity handling and the ordering of polyroots' output are
numerical and NOT decided.  Decided clauses:

  R-R1  verify gate: in findroot every return of a computed root is preceded
        (same block, nothing rebinding the ingredients in between) by
        `if verify and |f(x)|^2 > tol: raise`, where the residual is the squared
        norm of f evaluated at the value that is returned and the threshold is
        the tolerance itself (the parameter, or its documented default) -- not
        a scaled or otherwise weakened bound; the only other returns are the
        starting point under an exact-zero residual test
  R-R2  bracket invariant (exhaustive over the sign abstraction, sa/sign_abs.py):
        for every bracketing solver (Bisection, Illinois with each of its three
        scaling rules, Ridder) one loop iteration started from any state with
        sign f(a) = -sign f(b) ends with sign f(a') = -sign f(b') for the new
        endpoints, and every stored function value has the sign of f at the
        point it is stored for.  A scaling factor that can be negative, a
        swapped arm, a missing update of the stored value are the findings
  R-R3  bracketing solvers insist on exactly two starting points
  R-P1  polyroots returns exactly deg values: the root list is created with
        deg entries, never resized, returned unfiltered
  R-P2  polyroots returns only after the convergence test: the NoConvergence
        gate (max error >= tol -> raise) dominates every return of roots
"""
import ast

from ..index import AnalysisError, norm
from ..prec_effect import _walk_own
from ..report import Finding
from ..sign_abs import SignInterp, State, Val, NEG, POS, ZERO

OPT = 'mpmath/calculus/optimization.py'
POLY = 'mpmath/calculus/polynomials.py'


def F(rule, file, qn, node_or_text, reason, line=None, path=None):
    site = node_or_text if isinstance(node_or_text, str) else norm(node_or_text)
    if line is None and not isinstance(node_or_text, str):
        line = getattr(node_or_text, 'lineno', None)
    return Finding(rule, file, qn, site, reason, line=line, path=path)


# --------------------------------------------------------------------------- R-R1
def single_defs(fn):
    """names assigned exactly once (plain Name target) in fn -> value"""
    cnt = {}
    for x in _walk_own(fn):
        if isinstance(x, ast.Assign):
            for t in x.targets:
                for n in ast.walk(t):
                    if isinstance(n, ast.Name) and isinstance(n.ctx, ast.Store):
                        cnt.setdefault(n.id, []).append(x if isinstance(t, ast.Name) else None)
        elif isinstance(x, (ast.AugAssign, ast.For)):
            t = x.target
            for n in ast.walk(t):
                if isinstance(n, ast.Name):
                    cnt.setdefault(n.id, []).append(None)
    return dict((k, v[0].value) for k, v in cnt.items() if len(v) == 1 and v[0] is not None)


def residual_of(e, fname, normnames, derives):
    """e is norm(f(*xl))**2 / norm(..)*norm(..) with the argument derived from the returned value:
    -> True / reason string"""
    def is_normcall(x):
        return isinstance(x, ast.Call) and norm(x.func) in normnames and len(x.args) == 1 and \
            isinstance(x.args[0], ast.Call) and norm(x.args[0].func) == fname and \
            len(x.args[0].args) == 1 and derives(x.args[0].args[0])
    if isinstance(e, ast.BinOp) and isinstance(e.op, ast.Pow) and isinstance(e.right, ast.Constant) and \
            e.right.value == 2 and is_normcall(e.left):
        return True
    if isinstance(e, ast.BinOp) and isinstance(e.op, ast.Mult) and is_normcall(e.left) and \
            is_normcall(e.right) and norm(e.left) == norm(e.right):
        return True
    return 'the tested quantity `%s` is not the squared norm of f at the returned value' % norm(e, 80)


def check_verify(run, ix):
    f = ix.func(OPT, 'findroot')
    fn = f.node
    if 'verify' not in f.all_params() or 'tol' not in f.all_params():
        raise AnalysisError('findroot lost its verify/tol parameters')
    d = f.defaults()
    if norm(d.get('verify')) != 'True':
        run.fail(F('R-R1', OPT, 'findroot', 'verify=%s' % norm(d.get('verify')), 'verification is not the '
                   'default', line=fn.lineno))
    else:
        run.ok('R-R1', 'verify defaults to True')
    # tol: parameter; only assignment allowed: the default under `if tol is None`
    for x in _walk_own(fn):
        if isinstance(x, (ast.Assign, ast.AugAssign)):
            tg = x.targets if isinstance(x, ast.Assign) else [x.target]
            for t in tg:
                for n in ast.walk(t):
                    if isinstance(n, ast.Name) and isinstance(n.ctx, ast.Store) and n.id in ('tol', 'verify'):
                        par = getattr(x, '_parent', None)
                        if n.id == 'tol' and isinstance(par, ast.If) and norm(par.test) == 'tol is None' and \
                                isinstance(x, ast.Assign):
                            run.ok('R-R1', 'tol default: %s' % norm(x))
                        else:
                            run.fail(F('R-R1', OPT, 'findroot', x, '`%s` is reassigned before the verification '
                                       '(the residual would be compared with something other than the '
                                       'caller\'s tolerance)' % n.id))
    defs = single_defs(fn)
    # loop variable that carries the computed root
    loops = [x for x in _walk_own(fn) if isinstance(x, ast.For) and isinstance(x.target, ast.Tuple) and
             len(x.target.elts) == 2 and isinstance(x.target.elts[0], ast.Name)]
    if len(loops) != 1:
        raise AnalysisError('findroot: solver loop `for x, error in iterations` not found')
    root = loops[0].target.elts[0].id
    rets = [x for x in _walk_own(fn) if isinstance(x, ast.Return)]
    n_gated = 0
    for r in rets:
        if r.value is None:
            continue
        mentions_root = any(isinstance(n, ast.Name) and n.id == root for n in ast.walk(r.value))
        if not mentions_root:
            # starting point: must be under an exact-zero residual test
            p = r
            ok = False
            while p is not None and p is not fn:
                par = getattr(p, '_parent', None)
                if isinstance(par, ast.If) and any(p is s for s in par.body):
                    t = par.test
                    if isinstance(t, ast.Compare) and len(t.ops) == 1 and isinstance(t.ops[0], ast.Eq) and \
                            isinstance(t.comparators[0], ast.Constant) and t.comparators[0].value == 0 and \
                            norm(t.left).startswith('norm('):
                        ok = True
                p = par
            if ok:
                run.ok('R-R1', 'early return of the starting point under an exact-zero residual test')
            else:
                run.fail(F('R-R1', OPT, 'findroot', r, 'a value is returned without the residual test'))
            continue
        if norm(r.value) != root:
            run.fail(F('R-R1', OPT, 'findroot', r, 'the returned expression is not the verified value `%s`' % root))
            continue
        # find the gate in the same block before r
        holder = getattr(r, '_parent', None)
        body = None
        for field in ('body', 'orelse', 'finalbody'):
            b = getattr(holder, field, None)
            if isinstance(b, list) and r in b:
                body = b
        idx = body.index(r)
        gate = None
        for st in reversed(body[:idx]):
            if isinstance(st, ast.If) and st.body and isinstance(st.body[-1], ast.Raise) and not st.orelse:
                gate = st
                break
        if gate is None:
            run.fail(F('R-R1', OPT, 'findroot', r, 'the computed root is returned without a preceding '
                       '`if verify and residual > tol: raise` in the same block'))
            continue
        # nothing between gate and return rebinding root
        between = body[body.index(gate) + 1: idx]
        if any(isinstance(n, ast.Name) and isinstance(n.ctx, ast.Store) and n.id == root
               for st in between for n in ast.walk(st)):
            run.fail(F('R-R1', OPT, 'findroot', r, '`%s` is rebound between the verification and the return' % root))
            continue
        # argument derivation: xl = [x] / xl = x (assigned in an if/else just before), or x itself
        xl_names = set([root])
        for st in body[:body.index(gate)]:
            for x in ast.walk(st):
                if isinstance(x, ast.Assign) and len(x.targets) == 1 and isinstance(x.targets[0], ast.Name):
                    v = x.value
                    if norm(v) in ('[%s]' % root, root, '(%s,)' % root):
                        xl_names.add(x.targets[0].id)

        def derives(a):
            if isinstance(a, ast.Starred):
                a = a.value
            return isinstance(a, ast.Name) and a.id in xl_names
        conj = []

        def flat(t):
            if isinstance(t, ast.BoolOp) and isinstance(t.op, ast.And):
                for v in t.values:
                    flat(v)
            else:
                conj.append(t)
        flat(gate.test)
        comps = [c for c in conj if not (isinstance(c, ast.Name) and c.id == 'verify')]
        others = [c for c in conj if isinstance(c, ast.Name) and c.id != 'verify']
        if isinstance(gate.test, ast.BoolOp) and isinstance(gate.test.op, ast.Or):
            run.fail(F('R-R1', OPT, 'findroot', gate, 'the verification test is a disjunction'))
            continue
        if len(comps) != 1 or others:
            run.fail(F('R-R1', OPT, 'findroot', gate, 'the verification raises only under additional '
                       'conditions (%s): some unverified values are returned' %
                       ', '.join(norm(c, 40) for c in comps[1:] + others)))
            continue
        c = comps[0]
        neg = False
        while isinstance(c, ast.UnaryOp) and isinstance(c.op, ast.Not):
            neg = not neg
            c = c.operand
        if not (isinstance(c, ast.Compare) and len(c.ops) == 1):
            run.fail(F('R-R1', OPT, 'findroot', gate, 'the verification test is not a comparison of the '
                       'residual with the tolerance'))
            continue
        op = type(c.ops[0])
        lhs, rhs = c.left, c.comparators[0]
        # normalise to  residual > tol
        if (op, neg) in ((ast.Gt, False), (ast.Lt, False)):
            # residual > tol is False for a nan residual (f(x) = nan, x = nan): nan would be returned
            # as a verified root.  The gate must raise unless residual <= tol HOLDS.
            run.fail(F('R-R1', OPT, 'findroot', gate, 'the verification raises only when `residual > tol` is true: a '
                       'nan residual (x*log(x) at 0, a nan iterate) compares false and the value is returned as a '
                       'verified root; the test must be `not residual <= tol`'))
            continue
        form = {(ast.LtE, True): 'lr', (ast.GtE, True): 'rl'}.get((op, neg))
        if form is None:
            run.fail(F('R-R1', OPT, 'findroot', gate, 'the verification does not raise exactly when the '
                       'residual exceeds the tolerance (operator %s%s)' % ('not ' if neg else '', op.__name__)))
            continue
        res, thr = (lhs, rhs) if form == 'lr' else (rhs, lhs)

        def inl(e):
            while isinstance(e, ast.Name) and e.id in defs and e.id not in ('tol', root):
                e = defs[e.id]
            return e
        res, thr = inl(res), inl(thr)
        if norm(thr) != 'tol':
            run.fail(F('R-R1', OPT, 'findroot', gate, 'the residual is compared with `%s`, not with the '
                       'tolerance itself: values with tol < |f(x)|^2 <= %s are returned as roots'
                       % (norm(thr, 60), norm(thr, 60))))
            continue
        normnames = ('norm', 'abs')
        rr = residual_of(res, 'f', normnames, derives)
        if rr is not True:
            run.fail(F('R-R1', OPT, 'findroot', gate, rr))
            continue
        # the raise is not swallowed: no enclosing except clause
        p = gate
        swallowed = False
        while p is not None and p is not fn:
            par = getattr(p, '_parent', None)
            if isinstance(par, ast.Try) and any(p is s for s in par.body) and par.handlers:
                swallowed = True
            p = par
        if swallowed:
            run.fail(F('R-R1', OPT, 'findroot', gate, 'the verification failure is raised inside a try '
                       'with except clauses'))
            continue
        n_gated += 1
        run.ok('R-R1', 'return %s is dominated by `%s`' % (root, norm(gate, 80)))
    if n_gated == 0 and not run.findings:
        raise AnalysisError('findroot: no verified return found')


# --------------------------------------------------------------------------- R-R2 / R-R3
def bracketing_solvers(ix):
    """classes whose __init__ requires len(x0) == 2 and stores x0[0], x0[1]"""
    m = ix.module(OPT)
    out = []
    for ci in m.classes.values():
        init = ci.methods.get('__init__')
        it = ci.methods.get('__iter__')
        if init is None or it is None:
            continue
        ends = {}
        for x in _walk_own(init.node):
            if isinstance(x, ast.Assign) and len(x.targets) == 1 and isinstance(x.targets[0], ast.Attribute) and \
                    norm(x.targets[0].value) == 'self' and isinstance(x.value, ast.Subscript) and \
                    norm(x.value.value) == 'x0' and isinstance(x.value.slice, ast.Constant):
                ends[x.value.slice.value] = x.targets[0].attr
        guard = None
        for x in _walk_own(init.node):
            if isinstance(x, ast.If) and 'len(x0)' in norm(x.test) and any(isinstance(s, ast.Raise) for s in x.body):
                guard = x
        if sorted(ends) == [0, 1] and guard is not None and \
                norm(guard.test) in ('len(x0) != 2', 'not len(x0) == 2'):
            out.append((ci, init, it, ends, guard))
    return out


def getm_variants(ix):
    """{method string: FunctionDef} from the if-chain in _getm"""
    g = ix.find_func(OPT, '_getm')
    if g is None:
        return None
    out = {}
    node = None
    for st in g.node.body:
        if isinstance(st, ast.If):
            node = st
    while isinstance(node, ast.If):
        t = node.test
        if isinstance(t, ast.Compare) and isinstance(t.comparators[0], ast.Constant) and \
                isinstance(t.comparators[0].value, str):
            defs = [s for s in node.body if isinstance(s, ast.FunctionDef)]
            if len(defs) == 1:
                out[t.comparators[0].value] = defs[0]
        nxt = node.orelse
        node = nxt[0] if len(nxt) == 1 and isinstance(nxt[0], ast.If) else None
    return out


def analyse_solver(run, ix, ci, it, ends, inline, label):
    fn = it.node
    loop = None
    prologue = []
    for st in fn.body:
        if isinstance(st, ast.While) and (norm(st.test) in ('True', '1')):
            loop = st
            break
        prologue.append(st)
    if loop is None:
        raise AnalysisError('%s.__iter__: no `while True` loop' % ci.name)
    fnames = set(['f'])
    endpoint = {}          # local name -> index 0/1
    valvar = {}            # index -> local name holding f(endpoint)
    for st in prologue:
        if isinstance(st, ast.Assign) and len(st.targets) == 1 and isinstance(st.targets[0], ast.Name):
            t = st.targets[0].id
            v = st.value
            if isinstance(v, ast.Attribute) and norm(v.value) == 'self':
                if v.attr == 'f':
                    fnames.add(t)
                for i, a in ends.items():
                    if v.attr == a:
                        endpoint[t] = i
            if isinstance(v, ast.Call) and isinstance(v.func, ast.Name) and v.func.id in fnames and \
                    len(v.args) == 1 and isinstance(v.args[0], ast.Name) and v.args[0].id in endpoint:
                valvar[endpoint[v.args[0].id]] = t
    if sorted(endpoint.values()) != [0, 1]:
        raise AnalysisError('%s.__iter__: bracket endpoints not found in the prologue' % ci.name)
    A = [n for n, i in endpoint.items() if i == 0][0]
    B = [n for n, i in endpoint.items() if i == 1][0]
    value_names = set(valvar.values())
    for x in ast.walk(loop):
        if isinstance(x, ast.Assign) and isinstance(x.value, ast.Call) and isinstance(x.value.func, ast.Name) \
                and x.value.func.id in fnames:
            for t in x.targets:
                if isinstance(t, ast.Name):
                    value_names.add(t.id)
    interp = SignInterp(fnames, 'self', inline)
    interp.value_names = value_names
    npaths = 0
    bad = {}
    for sA, sB in ((NEG, POS), (POS, NEG)):
        st = State()
        st.pt[A] = 1
        st.pt[B] = 2
        st.ntok = 2
        st.F = {1: sA, 2: sB}
        if 0 in valvar:
            st.val[valvar[0]] = Val([sA])
        if 1 in valvar:
            st.val[valvar[1]] = Val([sB])
        st.trace.append('f(%s) %s 0, f(%s) %s 0' % (A, '<' if sA < 0 else '>', B, '<' if sB < 0 else '>'))
        for kind, s1, v in interp.exec_block(loop.body, st):
            if kind not in ('normal', 'continue'):
                continue          # the path leaves the loop
            npaths += 1
            problem = None
            ta, tb = s1.pt.get(A), s1.pt.get(B)
            if ta is None or tb is None or ta not in s1.F or tb not in s1.F:
                problem = 'an endpoint is replaced by a point at which f was not evaluated'
            elif s1.F[ta] * s1.F[tb] != -1:
                problem = 'the new bracket [%s, %s] has no sign change (sign f(%s) = %+d, sign f(%s) = %+d)' % (
                    A, B, A, s1.F[ta], B, s1.F[tb])
            else:
                for i, nm in valvar.items():
                    tok = ta if i == 0 else tb
                    pname = A if i == 0 else B
                    v1 = s1.val.get(nm)
                    if v1 is None or v1.kind != 'sign' or v1.s != frozenset([s1.F[tok]]):
                        problem = 'the stored value %s may not have the sign of f(%s) any more (possible signs ' \
                                  '%s, sign f(%s) = %+d): the next secant point falls outside the bracket' % (
                                      nm, pname, sorted(v1.s) if v1 is not None else '?', pname, s1.F[tok])
                        if v1 is not None and not v1.modelled:
                            s1.unmodelled.append('value of %s' % nm)
                        break
            if problem:
                if s1.unmodelled:
                    raise AnalysisError('%s.__iter__ (%s): bracket update depends on an expression outside '
                                        'the modelled fragment: %s' % (ci.name, label, s1.unmodelled[0]))
                bad.setdefault(problem, s1.trace)
    return A, B, npaths, bad, loop


def check_brackets(run, ix):
    solvers = bracketing_solvers(ix)
    variants = getm_variants(ix)
    names = sorted(ci.name for ci, _, _, _, _ in solvers)
    run.stats['bracketing_solvers'] = names
    total = 0
    for ci, init, it, ends, guard in solvers:
        run.ok('R-R3', '%s requires exactly two starting points: `%s`' % (ci.name, norm(guard.test)))
        uses_getm = any(isinstance(x, ast.Attribute) and x.attr == 'getm' for x in ast.walk(it.node))
        configs = [({}, ci.name)]
        if uses_getm:
            if not variants:
                raise AnalysisError('_getm variants not found')
            configs = [({'getm': fd}, '%s[%s]' % (ci.name, k)) for k, fd in sorted(variants.items())]
        for inline, label in configs:
            A, B, npaths, bad, loop = analyse_solver(run, ix, ci, it, ends, inline, label)
            total += npaths
            if npaths == 0:
                raise AnalysisError('%s: no path reaches the back edge' % label)
            if not bad:
                run.ok('R-R2', '%s: %d paths through one iteration keep sign f(%s) = -sign f(%s) and the '
                       'stored values consistent' % (label, npaths, A, B))
            for problem, trace in sorted(bad.items()):
                qn = '%s.__iter__' % ci.name
                site = 'while True: [%s]' % label
                run.fail(F('R-R2', OPT, qn, site, problem, line=loop.lineno, path=trace[:8]))
    run.stats['bracket_paths'] = total
    return len(solvers)


# --------------------------------------------------------------------------- R-P1 / R-P2
def check_polyroots(run, ix):
    f = ix.func(POLY, 'polyroots')
    fn = f.node
    rets = [x for x in _walk_own(fn) if isinstance(x, ast.Return) and x.value is not None]
    root_rets = []
    for r in rets:
        v = r.value
        elts = v.elts if isinstance(v, ast.Tuple) else [v]
        for e in elts:
            if isinstance(e, ast.ListComp) and norm(e.generators[0].iter) == 'roots':
                root_rets.append((r, e))
    if not root_rets:
        raise AnalysisError('polyroots: return of the root list not found')
    # creation with deg entries
    creations = [x for x in _walk_own(fn) if isinstance(x, ast.Assign) and norm(x.targets[0]) == 'roots']
    for c in creations:
        v = c.value
        ok = (isinstance(v, ast.ListComp) and norm(v.generators[0].iter) in ('xrange(deg)', 'range(deg)')
              and not v.generators[0].ifs) or norm(v) == '[None] * deg'
        if not ok and isinstance(v, ast.ListComp) and len(v.generators) == 1 and not v.generators[0].ifs and \
                isinstance(v.generators[0].iter, ast.Name) and \
                norm(v.elt) == 'roots[%s]' % norm(v.generators[0].target):
            # a permutation: roots = [roots[i] for i in order], order = sorted(range(deg), key=...)
            od = [x for x in _walk_own(fn) if isinstance(x, ast.Assign) and norm(x.targets[0]) == v.generators[0].iter.id]
            ok = len(od) == 1 and isinstance(od[0].value, ast.Call) and norm(od[0].value.func) == 'sorted' and \
                norm(od[0].value.args[0]) in ('range(deg)', 'xrange(deg)')
        if ok:
            run.ok('R-P1', 'roots created with deg entries: %s' % norm(c, 70))
        else:
            run.fail(F('R-P1', POLY, 'polyroots', c, 'the root list is not created with exactly deg entries'))
    # never resized
    for x in _walk_own(fn):
        if isinstance(x, ast.Call) and isinstance(x.func, ast.Attribute) and norm(x.func.value) == 'roots' and \
                x.func.attr in ('append', 'pop', 'remove', 'extend', 'insert', 'clear'):
            run.fail(F('R-P1', POLY, 'polyroots', x, 'the root list is resized'))
        if isinstance(x, ast.Delete) and any(norm(t).startswith('roots') for t in x.targets):
            run.fail(F('R-P1', POLY, 'polyroots', x, 'entries of the root list are deleted'))
        if isinstance(x, ast.Assign) and isinstance(x.targets[0], ast.Subscript) and \
                norm(x.targets[0].value) == 'roots' and isinstance(x.targets[0].slice, ast.Slice):
            # same-length slice replacement: both sides sliced by the same bound
            s = x.targets[0].slice
            t = norm(x.targets[0].slice)
            v = x.value
            same = False
            if s.lower is None and s.upper is not None:
                b = norm(s.upper)
                same = norm(v) in ('list(roots_init[:%s])' % b, 'roots_init[:%s]' % b)
            elif s.lower is not None and s.upper is None:
                b = norm(s.lower)
                same = isinstance(v, ast.ListComp) and norm(v.generators[0].iter) in (
                    'xrange(%s, deg)' % b, 'range(%s, deg)' % b) and not v.generators[0].ifs
            if same:
                run.ok('R-P1', 'slice %s replaced by as many entries' % t)
            else:
                run.fail(F('R-P1', POLY, 'polyroots', x, 'slice assignment may change the number of roots'))
    for r, e in root_rets:
        if e.generators[0].ifs or len(e.generators) != 1:
            run.fail(F('R-P1', POLY, 'polyroots', r, 'the returned list filters the roots'))
        else:
            run.ok('R-P1', 'returned unfiltered: %s' % norm(r, 60))
    # R-P2: NoConvergence gate before every return, in program order at the function's top level chain
    gates = [x for x in _walk_own(fn) if isinstance(x, ast.If) and x.body and isinstance(x.body[-1], ast.Raise)
             and 'NoConvergence' in norm(x.body[-1], 200)]
    good = None
    for g in gates:
        t = g.test
        if isinstance(t, ast.Compare) and len(t.ops) == 1 and isinstance(t.ops[0], (ast.GtE, ast.Gt)) and \
                norm(t.comparators[0]) == 'tol' and 'err' in norm(t.left):
            good = g
    if good is None:
        run.fail(F('R-P2', POLY, 'polyroots', 'if abs(max(err)) >= tol: raise NoConvergence',
                   'no convergence gate comparing the error estimates with the tolerance', line=fn.lineno))
        return
    # the gate must come before the returns and not be nested under a condition other than the
    # enclosing with-block
    p = getattr(good, '_parent', None)
    while isinstance(p, ast.With):
        p = getattr(p, '_parent', None)
    if p is not fn:
        run.fail(F('R-P2', POLY, 'polyroots', good, 'the convergence gate is conditional'))
        return
    for r, e in root_rets:
        if r.lineno > good.lineno:
            run.ok('R-P2', 'return of roots after the convergence gate `%s`' % norm(good, 60))
        else:
            run.fail(F('R-P2', POLY, 'polyroots', r, 'roots are returned before the convergence gate'))
    # the loop's own exit test and the gate use the same quantity
    brk = [x for x in _walk_own(fn) if isinstance(x, ast.If) and len(x.body) == 1 and isinstance(x.body[0], ast.Break)]
    for b in brk:
        if isinstance(b.test, ast.Compare) and norm(b.test.left) == norm(good.test.left) and \
                norm(b.test.comparators[0]) == 'tol':
            run.ok('R-P2', 'iteration stops on the same quantity the gate tests')
    # err is updated for every root in the sweep
    upd = [x for x in _walk_own(fn) if isinstance(x, ast.Assign) and norm(x.targets[0]) == 'err[i]']
    if upd:
        run.ok('R-P2', 'error estimate updated per root: %s' % norm(upd[0]))
    else:
        run.fail(F('R-P2', POLY, 'polyroots', 'err[i] = ...', 'the per-root error estimate is never updated',
                   line=fn.lineno))


# --------------------------------------------------------------------------- R-R4 / R-R5 / R-P3 / R-M1
def check_keyword_lookups(run, ix):
    """R-R4.  The solvers take optional callbacks from **kwargs with the idiom
           if not 'd2f' in kwargs: <default>  else: d2f = kwargs['d2f']
    The key that is looked up must be the key whose presence was tested, and the name it is bound to the
    like-named attribute (MNewton / Halley read kwargs['df'] for d2f: the user's second derivative was
    silently replaced by the first)."""
    m = ix.module(OPT)
    n = 0
    for f in m.funcs.values():
        if not isinstance(f.node, ast.FunctionDef):
            continue
        for st in _walk_own(f.node):
            if not isinstance(st, ast.If):
                continue
            t = st.test
            neg = False
            while isinstance(t, ast.UnaryOp) and isinstance(t.op, ast.Not):
                neg = not neg
                t = t.operand
            if not (isinstance(t, ast.Compare) and len(t.ops) == 1 and isinstance(t.ops[0], (ast.In, ast.NotIn)) and
                    isinstance(t.left, ast.Constant) and isinstance(t.left.value, str) and
                    norm(t.comparators[0]) == 'kwargs'):
                continue
            key = t.left.value
            present = st.orelse if (neg != isinstance(t.ops[0], ast.NotIn)) else st.body
            for x in ast.walk(ast.Module(body=present, type_ignores=[])):
                if isinstance(x, ast.Subscript) and norm(x.value) == 'kwargs' and isinstance(x.slice, ast.Constant) \
                        and isinstance(x.ctx, ast.Load):
                    n += 1
                    if x.slice.value == key:
                        run.ok('R-R4', '%s: kwargs[%r] read under its own presence test' % (f.qualname, key))
                    else:
                        stt = x
                        while not isinstance(stt, ast.stmt):
                            stt = stt._parent
                        run.fail(F('R-R4', OPT, f.qualname, stt, 'under the test for the keyword %r the code reads '
                                   'kwargs[%r]: the caller\'s %s is ignored (and a call that passes only %r raises '
                                   'KeyError)' % (key, x.slice.value, key, key)))
    if n < 8:
        raise AnalysisError('R-R4: only %d guarded keyword lookups found' % n)


def check_mnewton_guard(run, ix):
    """R-R5.  MNewton divides by f'(x): near a multiple root of an expanded polynomial f(x) is rounding noise
    (non-zero) while the derivative is exactly 0.  The division must be preceded by a test of the derivative
    that leaves the iteration."""
    f = ix.func(OPT, 'MNewton.__iter__')
    divs = [x for x in _walk_own(f.node) if isinstance(x, ast.BinOp) and isinstance(x.op, ast.Div) and
            isinstance(x.right, ast.Name)]
    if not divs:
        raise AnalysisError('MNewton.__iter__: division by the derivative not found')
    for x in _walk_own(f.node):
        if isinstance(x, ast.BinOp) and isinstance(x.op, ast.Div) and isinstance(x.right, ast.BinOp) and \
                isinstance(x.right.op, (ast.Sub, ast.Add)):
            run.fail(F('R-R5', OPT, f.qualname, x, 'division by the difference `%s`, which cannot be tested for zero '
                       'before it is formed: in the rounding noise next to a multiple root f\' - f f\'\'/f\' vanishes '
                       'while f\' does not (ZeroDivisionError one step after (x-1)^5 was solved to 3e-13)' % norm(x.right)))
    for d in divs:
        nm = d.right.id
        st = d
        while not isinstance(st, ast.stmt):
            st = st._parent
        body = st._parent.body
        guarded = any(isinstance(g, ast.If) and norm(g.test) in ('%s == 0' % nm, 'not %s' % nm) and g.body and
                      isinstance(g.body[-1], (ast.Break, ast.Return, ast.Raise))
                      for g in body[:body.index(st)])
        if guarded:
            run.ok('R-R5', 'division by %s is preceded by a zero test that leaves the iteration' % nm)
            # leaving before anything was yielded makes findroot raise "Could not find root using the given solver"
            # although the current point is as good as the noise allows: the guard must hand it out first
            for g in body[:body.index(st)]:
                if isinstance(g, ast.If) and norm(g.test) in ('%s == 0' % nm, 'not %s' % nm) and \
                        isinstance(g.body[-1], ast.Break):
                    if any(isinstance(y, ast.Yield) for b_ in g.body for y in ast.walk(b_)):
                        run.ok('R-R5', 'the %s == 0 exit yields the current point before leaving' % nm)
                    else:
                        run.fail(F('R-R5', OPT, f.qualname, g.test, 'the iteration is left on `%s` without yielding the '
                                   'current point: when this happens on the first step (a start in the rounding noise of '
                                   'a multiple root, where the derivative is exactly 0) findroot raises "Could not find '
                                   'root using the given solver" instead of returning the start, which is within the '
                                   'attainable accuracy' % norm(g.test)))
        else:
            run.fail(F('R-R5', OPT, f.qualname, st, 'division by %s without a zero test: at a multiple root of an '
                       'expanded polynomial the derivative is exactly 0 while f is non-zero rounding noise '
                       '(ZeroDivisionError instead of the root)' % nm))


def check_polyroots_order(run, ix):
    """R-P3.  Conjugate roots computed by the iteration are equal only up to rounding.  A sort whose leading key
    is the exact |Im| (or Re) puts a second pair with nominally the same |Im| between the two members of the
    first.  The leading keys of the final ordering must be tolerance ranks (computed with a comparison against
    tol), exact values may only break ties."""
    f = ix.func(POLY, 'polyroots')
    sorts = [x for x in _walk_own(f.node) if isinstance(x, ast.Call) and
             (norm(x.func) in ('sorted',) or (isinstance(x.func, ast.Attribute) and x.func.attr == 'sort')) and
             any(k.arg == 'key' for k in x.keywords) and
             ('roots' in norm(x) )]
    final = [x for x in sorts if 'roots' in norm([k.value for k in x.keywords if k.arg == 'key'][0]) or
             norm(x.func) == 'roots.sort']
    if not final:
        raise AnalysisError('polyroots: ordering of the roots not found')
    x = final[-1]
    key = [k.value for k in x.keywords if k.arg == 'key'][0]
    comps = key.body.elts if isinstance(key, ast.Lambda) and isinstance(key.body, ast.Tuple) else [getattr(key, 'body', key)]
    rankers = set()
    for g in f.nested:
        if any(isinstance(c, ast.Compare) and 'tol' in norm(c) for c in ast.walk(g.node)):
            rankers.add(g.name)
    # the tolerance of a rank has an absolute floor: the noise of the iteration on Re and Im is absolute (eps times the
    # scale of the roots), so a threshold  K*tol*|value|  without `max(1, ...)` falls below the noise for small |Im| and
    # the members of two conjugate pairs with equal small |Im| interleave (seed C29-6)
    def _factors(e):
        if isinstance(e, ast.BinOp) and isinstance(e.op, ast.Mult):
            return _factors(e.left) + _factors(e.right)
        return [e]

    def _floored(e):
        for t in _factors(e):
            if isinstance(t, ast.Constant) and isinstance(t.value, (int, float)) and t.value > 0:
                continue
            if isinstance(t, ast.Name) and ('tol' in t.id or 'eps' in t.id):
                continue
            if isinstance(t, ast.Call) and norm(t.func) == 'max' and \
                    any(isinstance(a, ast.Constant) and isinstance(a.value, (int, float)) and a.value > 0 for a in t.args):
                continue
            return t
        return None
    for g in f.nested:
        if g.name not in rankers:
            continue
        for c in ast.walk(g.node):
            if isinstance(c, ast.Compare) and 'tol' in norm(c) and len(c.ops) == 1 and isinstance(c.ops[0], (ast.Gt, ast.GtE)):
                t = _floored(c.comparators[0])
                if t is None:
                    run.ok('R-P3', '%s: the rank tolerance `%s` has an absolute floor' % (g.name, norm(c.comparators[0], 50)))
                else:
                    run.fail(F('R-P3', POLY, 'polyroots.%s' % g.name, c,
                               'the rank tolerance `%s` is proportional to `%s` and vanishes with it: the noise of the iteration '
                               'on a small |Im| is absolute, so two conjugate pairs with equal small |Im| are ranked by noise '
                               'and interleave (roots +-1 +- 0.001j come back as -1-0.001j, 1-0.001j, 1+0.001j, -1+0.001j)'
                               % (norm(c.comparators[0], 50), norm(t, 30))))
    ranked = {}
    for st in _walk_own(f.node):
        if isinstance(st, ast.Assign) and isinstance(st.value, ast.Call) and norm(st.value.func) in rankers:
            ranked[norm(st.targets[0])] = norm(st.value.args[0]) if st.value.args else ''
    # a leading "is not exactly real" key is exact by design: cleanup replaces imaginary parts below the tolerance by
    # an exact zero, and the documented order is "real roots first"
    def exact_real_flag(c):
        return isinstance(c, ast.Compare) and len(c.ops) == 1 and isinstance(c.ops[0], (ast.NotEq, ast.Eq)) and \
            '_im' in norm(c.left) and norm(c.comparators[0]) == '0'
    flags = [c for c in comps[:1] if exact_real_flag(c)]
    if flags:
        if isinstance(flags[0].ops[0], ast.NotEq):
            run.ok('R-P3', 'roots whose imaginary part is exactly zero are listed first')
        else:
            run.fail(F('R-P3', POLY, 'polyroots', x, 'the leading key `%s` lists the exactly real roots LAST' % norm(flags[0])))
        comps = comps[1:]
    else:
        run.fail(F('R-P3', POLY, 'polyroots', x, 'the ordering has no leading key that separates the exactly real roots: a '
                   'conjugate pair whose tiny imaginary part was not removed shares the rank of the real roots and is '
                   'listed among them (polyroots([1, -1, 2**-102, -2**-102]) returned [4.45e-16j, -4.55e-16j, 1.0])'))
    lead = comps[:2]
    bad = [c for c in lead if not (isinstance(c, ast.Subscript) and norm(c.value) in ranked)]
    if bad:
        run.fail(F('R-P3', POLY, 'polyroots', x, 'the ordering compares `%s` exactly: conjugate roots differ by '
                   'rounding in |Im| and Re, so another pair with nominally equal |Im| is sorted between them '
                   '(polyroots([1,0,-16,0,100]) returned 3+1j, -3+1j, -3-1j, 3-1j)' % norm(bad[0])))
    else:
        what = [ranked[norm(c.value)] for c in lead]
        if any('_im' in w for w in what[:1]) and any('_re' in w for w in what[1:2]):
            run.ok('R-P3', 'ordering by tolerance ranks of |Im| then Re; exact values only break ties')
        else:
            run.fail(F('R-P3', POLY, 'polyroots', x, 'the tolerance ranks are not those of |Im| and then Re (%s)' % what))


def check_error_floor(run, ix):
    """R-P4.  The returned roots are rounded to the caller's precision, so the error estimate cannot be below
    |r| * 2^-prec for ANY root r: the floor must scale with the largest modulus among ALL roots (the list is sorted
    by |Im| and Re, not by modulus, so its ends say nothing)."""
    f = ix.func(POLY, 'polyroots')
    floors = [x for x in _walk_own(f.node) if isinstance(x, ast.Call) and norm(x.func) == 'ctx.ldexp' and
              any('orig' in norm(a) for a in x.args)]
    if not floors:
        raise AnalysisError('polyroots: precision floor of the error estimate not found')
    for fl in floors:
        a0 = fl.args[0]
        src = a0
        if isinstance(a0, ast.Name):
            defs = [x for x in _walk_own(f.node) if isinstance(x, ast.Assign) and norm(x.targets[0]) == a0.id]
            src = defs[-1].value if defs else a0
        over_all = any(isinstance(c, (ast.ListComp, ast.GeneratorExp)) and norm(c.generators[0].iter) == 'roots' and
                       not c.generators[0].ifs for c in ast.walk(src)) or 'map(abs, roots)' in norm(src)
        if isinstance(src, ast.Constant):
            run.fail(F('R-P4', POLY, 'polyroots', fl, 'the floor of the error estimate is the absolute %s * 2^-prec: the '
                       'roots are rounded to prec bits, which costs up to |r| * 2^-prec' % norm(src)))
        elif over_all and 'max' in norm(src):
            run.ok('R-P4', 'error floor scales with the largest modulus over all roots')
        else:
            run.fail(F('R-P4', POLY, 'polyroots', fl, 'the floor of the error estimate scales with `%s`, which is not the '
                       'largest modulus over ALL roots: a larger root elsewhere in the list is rounded with an error '
                       'above the reported estimate' % norm(src, 80)))


def check_multiplicity(run, ix):
    """R-M1.  multiplicity() counts vanishing derivatives up to maxsteps.  If the loop runs out without
    finding a non-vanishing derivative, the last loop index (maxsteps - 1) is not the multiplicity: at least
    maxsteps derivatives vanish."""
    f = ix.func(OPT, 'multiplicity')
    loops = [x for x in _walk_own(f.node) if isinstance(x, ast.For)]
    if len(loops) != 1:
        raise AnalysisError('multiplicity: loop not found')
    lp = loops[0]
    var = norm(lp.target)
    rets = [x for x in _walk_own(f.node) if isinstance(x, ast.Return)]
    if len(rets) == 1 and norm(rets[0].value) == var:
        if lp.orelse and any(isinstance(s, ast.Assign) and norm(s.targets[0]) == var for s in lp.orelse):
            run.ok('R-M1', 'exhausted loop sets the count in its else clause')
        else:
            run.fail(F('R-M1', OPT, 'multiplicity', rets[0], 'when all %s derivatives vanish the loop variable is '
                       'returned as it was left by the last iteration (maxsteps - 1): (x-1)**10 has multiplicity 9'
                       % norm(lp.iter)))
    else:
        run.ok('R-M1', 'result is not the bare loop variable')


def check_md_nan(run, ix):
    """R-R6.  "Every value findroot returns satisfies |f(x)|^2 <= tol": the multidimensional driver measures the
    residual with norm(., inf) = the largest magnitude.  Python's max() drops a nan unless it comes first, so
    norm([0, nan]) was 0 and a point with a nan residual passed both the descent test and the verification.
    Decided: the infinity-norm branch of ctx.norm returns a nan component before taking max; and MDNewton raises
    when its step contains a nan (the damping loop -- exit on x1 == x0 or on a smaller norm -- cannot end then)."""
    f = ix.func('mpmath/matrices/matrices.py', 'MatrixMethods.norm')
    infb = [x for x in _walk_own(f.node) if isinstance(x, ast.If) and 'ctx.inf' in norm(x.test)]
    ok = False
    for b in infb:
        loops = [l for l in b.body if isinstance(l, ast.For)]
        for l in loops:
            v = norm(l.target)
            if any(isinstance(i, ast.If) and norm(i.test).replace(' ', '') == '%s!=%s' % (v, v) and
                   any(isinstance(r, ast.Return) for r in i.body) for i in l.body):
                mx = [r for r in b.body if isinstance(r, ast.Return) and 'max(' in norm(r.value)]
                if mx and mx[0].lineno > l.lineno:
                    ok = True
    if ok:
        run.ok('R-R6', 'norm(x, inf) returns a nan component before taking the maximum')
    else:
        rets = [r for b in infb for r in b.body if isinstance(r, ast.Return)]
        run.fail(Finding('R-R6', f.file, f.qualname, norm(rets[0]) if rets else 'def norm',
                         'the infinity norm is the plain max() of the magnitudes, which drops a nan unless it comes '
                         'first: norm([0, nan]) is 0, and findroot accepts a point whose residual is [0, nan]',
                         line=rets[0].lineno if rets else f.lineno))
    g = ix.func(OPT, 'MDNewton.__iter__')
    solve = [a for a in _walk_own(g.node) if isinstance(a, ast.Assign) and 'lu_solve' in norm(a.value)]
    if not solve:
        raise AnalysisError('MDNewton: the linear solve was not found')
    s_ = norm(solve[0].targets[0])
    inner = [w for w in _walk_own(g.node) if isinstance(w, ast.While) and isinstance(w.test, ast.Constant)]
    guards = [i for i in _walk_own(g.node) if isinstance(i, ast.If) and any(isinstance(r, ast.Raise) for r in i.body)
              and ' != ' in norm(i.test) and s_ in norm(i.test) and i.lineno > solve[0].lineno and
              (not inner or i.lineno < inner[0].lineno)]
    if guards:
        run.ok('R-R6', 'MDNewton raises when the Newton step is not a number, before the damping loop')
    else:
        run.fail(Finding('R-R6', g.file, g.qualname, norm(solve[0]), 'a nan in f or its Jacobian makes the step nan; the '
                         'damping loop ends only when the halved step no longer changes x or the norm decreases, neither '
                         'of which can happen: findroot(lambda x, y: [x-1, nan], (3, 5)) does not return',
                         line=solve[0].lineno))


def run(run, ix, tier):
    run.explanation = (
        'Two structural guarantees behind "findroot returns genuine roots": (1) the verification gate - '
        'every computed root is returned only after |f(x)|^2 was compared with the caller\'s tolerance, in '
        'the raising direction, unconditionally when verify is set; (2) the bracket invariant of the '
        'bracketing solvers, decided exhaustively over the sign abstraction: the solvers use f(a), f(b), '
        'f(z) only through signs when choosing the endpoint to replace, so one loop iteration is interpreted '
        'over all sign assignments (forking on each new f-value) and must re-establish sign f(a) = -sign f(b) '
        'with stored values of the right sign.  polyroots: exactly deg values, returned only past the '
        'convergence gate.  Convergence speed, multiplicities, the order of polyroots\' output and the '
        'accuracy of returned roots are numerical and not decided.')
    run.assumptions = ['user function f is deterministic (same sign when re-evaluated at the same point)',
                       'self.tol > 0']
    run.trusted = ['sa/sign_abs.py (sign arithmetic lemmas)']
    run.exhaustive = False
    run.rule('R-R1', floor=4)
    run.rule('R-R2', floor=5)
    run.rule('R-R3', floor=3)
    run.rule('R-P1', floor=4)
    run.rule('R-P2', floor=3)
    check_verify(run, ix)
    n = check_brackets(run, ix)
    if n < 3:
        raise AnalysisError('only %d bracketing solvers recognised (Bisection, Illinois, Ridder expected)' % n)
    check_polyroots(run, ix)
    run.rule('R-R4', floor=8, desc='keyword callbacks read under their own presence test')
    run.rule('R-R5', floor=4, desc='mnewton: divisions guarded, and the guards yield the current point')
    run.rule('R-P3', floor=2, desc='polyroots ordering: exactly real roots first, then tolerance ranks')
    run.rule('R-M1', floor=1, desc='multiplicity: exhausted loop')
    check_keyword_lookups(run, ix)
    check_mnewton_guard(run, ix)
    check_polyroots_order(run, ix)
    run.rule('R-P4', floor=1, desc='polyroots error floor scales with the largest root')
    check_error_floor(run, ix)
    check_multiplicity(run, ix)
    run.rule('R-R6', floor=2, desc='multidimensional Newton: a nan residual is seen by the norm, a nan step ends the iteration')
    check_md_nan(run, ix)
    # built-in positive example: a negative scaling factor must break the invariant
    src = ("def getm(fz, fb):\n    return (1 - fz/fb) or 0.5\n")
    fd = ast.parse(src).body[0]
    solvers = [s for s in bracketing_solvers(ix) if any(isinstance(x, ast.Attribute) and x.attr == 'getm'
                                                         for x in ast.walk(s[2].node))]
    if solvers:
        ci, init, it, ends, guard = solvers[0]
        A, B, npaths, bad, loop = analyse_solver(run, ix, ci, it, ends, {'getm': fd}, 'positive-example')
        if not bad:
            raise AnalysisError('built-in positive example for R-R2 did not fire')
