"""Special-value tables of the raw kernels, decided by abstract interpretation over operand classes.

Rule S-R1 (used by C02 and C06): a kernel handles zeros, infinities and nan in explicit code that reads its
operands only through class-determined tests (sa/classdom.py: KernelInterp).  That code is interpreted for
every combination of operand classes {0, +inf, -inf, nan, positive normal, negative normal} in which at least
one operand is not a normal number; where a test is not determined by the classes (the size of an exponent)
BOTH outcomes are followed.  Every outcome - a result class, or an exception - must be the entry of the
special-value table below (IEEE-754 semantics, with ZeroDivisionError for a zero divisor as documented).
Paths that reach arithmetic on two normal numbers are outside the rule.
"""
import ast

from ..index import AnalysisError, norm
from ..report import Finding
from ..classdom import (KernelInterp, NeedChoice, Raised, Arith, Unsupported, Raw, Int)

LIBMPF = 'mpmath/libmp/libmpf.py'
KINDS = ('Z', 'PINF', 'NINF', 'NAN', 'N+', 'N-')


def mk(kind, tag):
    if kind == 'N+':
        return Raw('N', 0, 'ANY', tag=tag)
    if kind == 'N-':
        return Raw('N', 1, 'ANY', tag=tag)
    return Raw(kind, 1 if kind == 'NINF' else 0, tag=tag)


def label(r):
    if isinstance(r, Raw):
        if r.kind == 'N':
            if r.const == 'fone':
                return 'ONE'
            if r.const == 'fnone':
                return 'MONE'
            return 'N-' if r.sign else 'N+'
        return r.kind
    if hasattr(r, 'items'):
        return '(' + ', '.join(label(x) for x in r.items) + ')'
    return repr(r)


def neg(k):
    return {'Z': 'Z', 'PINF': 'NINF', 'NINF': 'PINF', 'NAN': 'NAN', 'N+': 'N-', 'N-': 'N+'}[k]


def sgn(k):
    return {'PINF': 1, 'N+': 1, 'NINF': -1, 'N-': -1}.get(k, 0)


def inf_of(s):
    return 'PINF' if s > 0 else 'NINF'


# ---- the special-value tables: (s, t) -> set of admissible outcomes; None = not specified ---------------------
def spec_add(s, t):
    if 'NAN' in (s, t):
        return {'NAN'}
    if s in ('PINF', 'NINF') and t in ('PINF', 'NINF'):
        return {s} if s == t else {'NAN'}
    if s in ('PINF', 'NINF'):
        return {s}
    if t in ('PINF', 'NINF'):
        return {t}
    if s == 'Z':
        return {t}
    if t == 'Z':
        return {s}
    return None


def spec_sub(s, t):
    return spec_add(s, neg(t))


def spec_mul(s, t):
    if 'NAN' in (s, t):
        return {'NAN'}
    if 'Z' in (s, t):
        return {'NAN'} if (s in ('PINF', 'NINF') or t in ('PINF', 'NINF')) else {'Z'}
    if s in ('PINF', 'NINF') or t in ('PINF', 'NINF'):
        return {inf_of(sgn(s) * sgn(t))}
    return None


def spec_div(s, t):
    if t == 'Z':
        return {'!ZeroDivisionError'}
    if 'NAN' in (s, t):
        return {'NAN'}
    if s in ('PINF', 'NINF'):
        return {'NAN'} if t in ('PINF', 'NINF') else {inf_of(sgn(s) * sgn(t))}
    if t in ('PINF', 'NINF'):
        return {'Z'}
    if s == 'Z':
        return {'Z'}
    return None


def spec_mod(s, t):
    if t == 'Z' and s in ('Z', 'N+', 'N-'):
        return {'!ZeroDivisionError'}
    if 'NAN' in (s, t):
        return {'NAN'}
    if s == 'Z' and t in ('N+', 'N-'):
        return {'Z'}
    return None          # infinite operands: not specified


UNARY = {
    'mpf_neg': lambda s: {neg(s)},
    'mpf_abs': lambda s: {{'NINF': 'PINF', 'N-': 'N+'}.get(s, s)},
    'mpf_pos': lambda s: {s},
    'mpf_sqrt': lambda s: {'!ComplexResult'} if s in ('NINF', 'N-') else ({s} if s != 'N+' else None),
    'mpf_floor': lambda s: {s} if s not in ('N+', 'N-') else None,
    'mpf_ceil': lambda s: {s} if s not in ('N+', 'N-') else None,
    'mpf_nint': lambda s: {s} if s not in ('N+', 'N-') else None,
    'mpf_frac': lambda s: ({'NAN'} if s in ('PINF', 'NINF', 'NAN') else {'Z'} if s == 'Z' else None),
}
# documented limits of the elementary functions (C13); only entries that are not in doubt are listed
def _tab(**kw):
    return lambda s: kw.get(s)


ELEMENTARY = {
    'mpf_exp': _tab(Z={'ONE'}, PINF={'PINF'}, NINF={'Z'}, NAN={'NAN'}),
    'mpf_log': _tab(Z={'NINF'}, PINF={'PINF'}, NAN={'NAN'}, NINF={'!ComplexResult'}, **{'N-': {'!ComplexResult'}}),
    'mpf_atan': _tab(Z={'Z'}, PINF={'N+'}, NINF={'N-'}, NAN={'NAN'}),
    'mpf_cos': _tab(Z={'ONE'}, PINF={'NAN'}, NINF={'NAN'}, NAN={'NAN'}),
    'mpf_sin': _tab(Z={'Z'}, PINF={'NAN'}, NINF={'NAN'}, NAN={'NAN'}),
    'mpf_tan': _tab(Z={'Z'}, PINF={'NAN'}, NINF={'NAN'}, NAN={'NAN'}),
    'mpf_cos_sin': _tab(Z={'(ONE, Z)'}, PINF={'(NAN, NAN)'}, NINF={'(NAN, NAN)'}, NAN={'(NAN, NAN)'}),
    'mpf_cos_pi': _tab(Z={'ONE'}, PINF={'NAN'}, NINF={'NAN'}, NAN={'NAN'}),
    'mpf_sin_pi': _tab(Z={'Z'}, PINF={'NAN'}, NINF={'NAN'}, NAN={'NAN'}),
    'mpf_cosh': _tab(Z={'ONE'}, PINF={'PINF'}, NINF={'PINF'}, NAN={'NAN'}),
    'mpf_sinh': _tab(Z={'Z'}, PINF={'PINF'}, NINF={'NINF'}, NAN={'NAN'}),
    'mpf_tanh': _tab(Z={'Z'}, PINF={'ONE'}, NINF={'MONE'}, NAN={'NAN'}),
    'mpf_cosh_sinh': _tab(PINF={'(PINF, PINF)'}, NINF={'(PINF, NINF)'}, NAN={'(NAN, NAN)'}),
    'mpf_cbrt': _tab(Z={'Z'}, PINF={'PINF'}, NAN={'NAN'}),
    'mpf_asin': _tab(Z={'Z'}, NAN={'NAN'}),
    'mpf_acos': _tab(NAN={'NAN'}),
}
UNARY.update(ELEMENTARY)
BINARY = {'mpf_add': spec_add, 'mpf_sub': spec_sub, 'mpf_mul': spec_mul, 'mpf_div': spec_div, 'mpf_mod': spec_mod}


LIBELE = 'mpmath/libmp/libelefun.py'


def check_pow_int_specials(run, ix, rule):
    """x**n for x in {0, +inf, -inf, nan} and n in {-3 .. 3}: the entries that are not in doubt"""
    lookup = make_lookup(ix)
    table = {}
    for n in (1, 2, 3):
        table[('Z', n)] = {'Z'}
        table[('PINF', n)] = {'PINF'}
        table[('NINF', n)] = {'NINF'} if n & 1 else {'PINF'}
        table[('NAN', n)] = {'NAN'}
        table[('PINF', -n)] = {'Z'}
        table[('NINF', -n)] = {'Z'}
        table[('NAN', -n)] = {'NAN'}
        table[('Z', -n)] = {'!ZeroDivisionError'}
    table[('Z', 0)] = {'ONE'}
    bad = []
    n_ok = 0
    for (k, n), want in sorted(table.items()):
        r = mk(k, '_0')
        got = outcomes(lookup, 'mpf_pow_int', [r, Int(n), Int(53), Int('round_nearest')], symclasses(r))
        if 'ARITH' in got:
            continue
        if got <= want:
            run.ok(rule)
            n_ok += 1
        else:
            bad.append((k, n, sorted(got), sorted(want)))
            run.rule(rule)['sites'] += 1
            run.obligations += 1
    if bad:
        run.rule(rule)['failed'] += len(bad)
        k, n, got, want = bad[0]
        rel, f = owner(ix, 'mpf_pow_int')
        run.findings.append(Finding(rule, rel, f.qualname, 'def mpf_pow_int (special values)',
                                    'mpf_pow_int(%s, %d) can give %s; expected %s (%d entries wrong)'
                                    % (k, n, got, want, len(bad)), line=f.lineno))
    run.sample(rule, 'mpf_pow_int: %d special (base, exponent) combinations' % n_ok)


RANK = {'NINF': 0, 'N-': 1, 'Z': 2, 'N+': 3, 'PINF': 4}


def check_order_tables(run, ix, rule):
    """mpf_eq / lt / le / gt / ge on every pair of operand classes except two normal numbers of the same sign: nan is
    unordered and unequal to everything including itself; -inf < negative < 0 < positive < +inf; equal specials are
    equal."""
    lookup = make_lookup(ix)
    import operator
    ops = {'mpf_eq': operator.eq, 'mpf_lt': operator.lt, 'mpf_le': operator.le, 'mpf_gt': operator.gt,
           'mpf_ge': operator.ge}
    for kern, op in sorted(ops.items()):
        bad = []
        n = 0
        for s in KINDS:
            for t in KINDS:
                if s == t and s in ('N+', 'N-'):
                    continue
                want = False if 'NAN' in (s, t) else op(RANK[s], RANK[t])
                a, b = mk(s, '_0'), mk(t, '_1')
                got = outcomes(lookup, kern, [a, b], symclasses(a, b))
                n += 1
                vals = set()
                for g in got:
                    vals.add(g)
                ok = vals == {'Int(%r)' % want}
                if ok:
                    run.ok(rule)
                else:
                    bad.append((s, t, sorted(vals), want))
                    run.rule(rule)['sites'] += 1
                    run.obligations += 1
        if bad:
            run.rule(rule)['failed'] += len(bad)
            s_, t_, got, want = bad[0]
            rel, f = owner(ix, kern)
            run.findings.append(Finding(rule, rel, f.qualname, 'def %s (classes)' % kern,
                                        '%s(%s, %s) gives %s, expected %r (%d of %d class pairs wrong)'
                                        % (kern, s_, t_, got, want, len(bad), n), line=f.lineno))
        run.sample(rule, '%s: %d class pairs' % (kern, n))


# ---------------------------------------------------------------------------------------------------------------
# C-R16: interval kernels on zero / infinite endpoints, at the level of endpoint classes
IK = ['NINF', 'N-', 'Z', 'N+', 'PINF']
REP_LO = {'NINF': float('-inf'), 'N-': -2.0, 'Z': 0.0, 'N+': 1.0, 'PINF': float('inf')}
REP_HI = {'NINF': float('-inf'), 'N-': -1.0, 'Z': 0.0, 'N+': 2.0, 'PINF': float('inf')}


def _cls(x):
    if x != x:
        return 'NAN'
    if x == float('inf'):
        return 'PINF'
    if x == float('-inf'):
        return 'NINF'
    return 'Z' if x == 0 else ('N+' if x > 0 else 'N-')


def _true_range(op, S, T):
    """inf and sup of {x op y : x in S, y in T} for concrete representative intervals (open at infinite ends),
    None when the operation is not defined on the whole box (0 in T for division)"""
    (a, b), (c, d) = S, T
    inf = float('inf')

    def mul(x, y):
        return 0.0 if (x == 0 or y == 0) else x * y
    if op == 'add':
        return a + c, b + d
    if op == 'sub':
        return a - d, b - c
    if op == 'mul':
        ps = [mul(a, c), mul(a, d), mul(b, c), mul(b, d)]
        return min(ps), max(ps)
    if op == 'div':
        def dv(x, y):
            if abs(y) == inf:
                return 0.0 if abs(x) != inf else None
            return x / y
        if c == 0 and d == 0:
            return None
        if a == 0 and b == 0 and (c <= 0 <= d):
            return 0.0, 0.0
        if c < 0 < d:
            return -inf, inf
        if c == 0:                      # y in (0, d]
            lo = -inf if a < 0 else dv(a, d)
            hi = inf if b > 0 else dv(b, d)
            return (lo, hi) if None not in (lo, hi) else None
        if d == 0:                      # y in [c, 0)
            lo = -inf if b > 0 else dv(b, c)
            hi = inf if a < 0 else dv(a, c)
            return (lo, hi) if None not in (lo, hi) else None
        qs = [x / y if abs(y) != inf else 0.0 if abs(x) != inf else None for x in (a, b) for y in (c, d)]
        if None in qs:
            return None
        return min(qs), max(qs)


def check_interval_endpoints(run, ix, rule):
    """mpi_add / sub / mul / div on every valid combination of endpoint classes (-inf, negative, 0, positive,
    +inf; lower <= upper; no interval that is a single point at infinity).  The kernels' explicit handling of zero
    and infinite endpoints (inf * 0 -> nan fix-ups, division by intervals touching zero) is interpreted with
    arithmetic on two normal numbers summarised by signs; the classes of the returned endpoints must enclose the
    exact range of the operation on representative intervals: lower class <= class of the true infimum, upper
    class >= class of the true supremum, never nan."""
    import itertools
    from ..classdom import Tuple as CTuple

    def lookup(name):
        for rel in ('mpmath/libmp/libmpi.py', LIBMPF):
            f = ix.find_func(rel, name)
            if f is not None and f.parent is None:
                return f.node
        if name == 'mpf_mul':
            return ix.find_func(LIBMPF, 'python_mpf_mul').node
        return None
    rank = dict((k, i) for i, k in enumerate(IK))
    total = 0
    for kern, op in (('mpi_add', 'add'), ('mpi_sub', 'sub'), ('mpi_mul', 'mul'), ('mpi_div', 'div')):
        if lookup(kern) is None:
            raise AnalysisError('%s vanished' % kern)
        bad = []
        n = 0
        undec = 0
        for sa, sb, ta, tb in itertools.product(IK, IK, IK, IK):
            if rank[sa] > rank[sb] or rank[ta] > rank[tb]:
                continue
            # a point at infinity as operand, or a range that is not defined on the whole box (inf - inf,
            # inf / inf, 0 in the divisor): no enclosure to compare with, but an endpoint must still never be nan
            nan_only = (sa == sb and sa in ('NINF', 'PINF')) or (ta == tb and ta in ('NINF', 'PINF'))
            tr = None
            if not nan_only:
                tr = _true_range(op, (REP_LO[sa], REP_HI[sb]), (REP_LO[ta], REP_HI[tb]))
                if tr is None or tr[0] != tr[0] or tr[1] != tr[1]:
                    nan_only = True
            want_lo, want_hi = (None, None) if nan_only else (_cls(tr[0]), _cls(tr[1]))
            s = CTuple([mk(sa, '_sa'), mk(sb, '_sb')])
            t = CTuple([mk(ta, '_ta'), mk(tb, '_tb')])
            out = set()
            work = [()]
            k = 0
            while work:
                ch = work.pop()
                k += 1
                if k > 4000:
                    raise AnalysisError('%s: too many undetermined tests' % kern)
                it = KernelInterp(lookup, {}, ch)
                it.summarise_normals = True
                try:
                    r = it.run(lookup(kern), [s, t, Int(53)])
                    out.add(label(r))
                except NeedChoice:
                    work.append(ch + (True,))
                    work.append(ch + (False,))
                except Raised as e:
                    out.add('!' + e.what.split('(')[0])
                except Arith:
                    out.add('ARITH')
                except Unsupported as u:
                    raise AnalysisError('%s: %s' % (kern, u))
            if any('ARITH' in o for o in out):
                undec += 1
                continue
            n += 1
            ok = True
            why = None
            for o in out:
                parts = o.strip('()').split(', ')
                if len(parts) != 2:
                    ok, why = False, 'outcome %s' % o
                    break
                lo, hi = parts
                for e_, want, side in ((lo, want_lo, 'lower'), (hi, want_hi, 'upper')):
                    if e_ == 'NAN':
                        ok, why = False, 'the %s endpoint can be nan' % side
                    elif nan_only:
                        pass
                    elif e_ == 'FIN':
                        # a finite value of unknown sign: acceptable only where a finite bound is admissible
                        if (side == 'lower' and want == 'NINF') or (side == 'upper' and want == 'PINF'):
                            ok, why = False, 'the %s endpoint is finite but the range is unbounded' % side
                    elif e_ in rank:
                        if side == 'lower' and rank[e_] > rank[want]:
                            ok, why = False, 'lower endpoint class %s lies above the infimum class %s' % (e_, want)
                        if side == 'upper' and rank[e_] < rank[want]:
                            ok, why = False, 'upper endpoint class %s lies below the supremum class %s' % (e_, want)
                    elif e_ in ('ONE',):
                        pass
                    else:
                        ok, why = False, 'endpoint %s' % e_
            if ok:
                run.ok(rule)
            else:
                bad.append(((sa, sb), (ta, tb), why, sorted(out)))
                run.rule(rule)['sites'] += 1
                run.obligations += 1
        total += n
        run.stats.setdefault('interval_class_combinations', {})[kern] = {'decided': n, 'undecided': undec}
        if bad:
            run.rule(rule)['failed'] += len(bad)
            S_, T_, why, outs = bad[0]
            f = ix.func('mpmath/libmp/libmpi.py', kern)
            run.findings.append(Finding(rule, 'mpmath/libmp/libmpi.py', kern, 'def %s (endpoint classes)' % kern,
                                        '%s([%s, %s], [%s, %s]): %s (outcomes %s; %d of %d class combinations wrong)'
                                        % (kern, S_[0], S_[1], T_[0], T_[1], why, outs[:3], len(bad), n), line=f.lineno))
        run.sample(rule, '%s: %d endpoint-class combinations decided, %d left to arithmetic' % (kern, n, undec))
    return total


def make_lookup(ix):
    def lookup(name):
        for rel in (LIBMPF, LIBELE):
            f = ix.find_func(rel, name)
            if f is not None and f.parent is None:
                return f.node
        if name == 'mpf_mul':
            return ix.find_func(LIBMPF, 'python_mpf_mul').node
        return None
    return lookup


def owner(ix, name):
    for rel in (LIBMPF, LIBELE):
        f = ix.find_func(rel, name) or ix.find_func(rel, 'python_' + name)
        if f is not None:
            return rel, f
    raise AnalysisError('kernel %s vanished' % name)


def outcomes(lookup, kernel, args, symclass):
    """all outcomes of the kernel on these operand classes, following both sides of undetermined tests"""
    out = set()
    work = [()]
    n = 0
    while work:
        ch = work.pop()
        n += 1
        if n > 400:
            raise AnalysisError('%s: too many undetermined tests' % kernel)
        it = KernelInterp(lookup, symclass, ch)
        try:
            r = it.run(lookup(kernel), list(args))
            out.add(label(r))
        except NeedChoice:
            work.append(ch + (True,))
            work.append(ch + (False,))
        except Raised as e:
            out.add('!' + e.what.split('(')[0])
        except Arith:
            out.add('ARITH')
        except Unsupported as u:
            raise AnalysisError('%s: %s' % (kernel, u))
    return out


def symclasses(*raws):
    d = {'r': 'POS', 'prod': 'POS', 'bc_new': 'POS'}
    for r in raws:
        if r.kind == 'N':
            d['man' + r.tag] = 'POS'
            d['bc' + r.tag] = 'POS'
    return d


def check_special_values(run, ix, rule, kernels):
    lookup = make_lookup(ix)
    total = 0
    for kernel in kernels:
        name = kernel
        fnode = lookup(kernel)
        if fnode is None:
            raise AnalysisError('kernel %s vanished' % kernel)
        bad = []
        n = 0
        if kernel in UNARY:
            cases = [((s,), UNARY[kernel](s)) for s in KINDS]
        else:
            cases = [((s, t), BINARY[kernel](s, t)) for s in KINDS for t in KINDS
                     if not (s in ('N+', 'N-') and t in ('N+', 'N-'))]
        for ops, want in cases:
            if want is None:
                continue
            raws = [mk(k, '_%d' % i) for i, k in enumerate(ops)]
            got = outcomes(lookup, kernel, raws + [Int(53), Int('round_nearest')], symclasses(*raws))
            if 'ARITH' in got and got - {'ARITH'} <= want:
                # the value at this class is produced by arithmetic (cosh(0) through exp): not decided here
                run.stats.setdefault('special_values_undecided', []).append('%s%s' % (kernel, ops))
                continue
            got = got - {'ARITH'}        # a path that leaves the table is a finding whatever the others do
            n += 1
            if got <= want:
                run.ok(rule)
            else:
                bad.append((ops, sorted(got - want), sorted(want)))
                run.rule(rule)['sites'] += 1
                run.obligations += 1
        total += n
        if bad:
            run.rule(rule)['failed'] += len(bad)
            ops, got, want = bad[0]
            rel, f = owner(ix, kernel)
            run.findings.append(Finding(
                rule, rel, f.qualname, 'def %s (special values)' % kernel,
                '%s%s can give %s; the special-value table requires %s (%d of %d operand-class combinations wrong)'
                % (kernel, ops, got, want, len(bad), n), line=f.lineno))
        run.sample(rule, '%s: %d operand-class combinations against the special-value table' % (kernel, n))
    return total
