"""Special-value tables of the raw kernels, decided by abstract interpretation over operand classes.

Rule S-R1 (used by C02 and C06): a kernel handles zeros, infinities and nan in explicit code that reads its
operands only through class-determined tests (sa/classdom.py: KernelInterp).  That code is interpreted for
every combination of operand classes {0, +inf, -inf, nan, positive normal, negative normal} in which at least
one operand is not a normal number; where a test is not determined by the classes (the size of an exponent)
BOTH outcomes are followed.  Every outcome - a result class, or an exception - must be the entry of the
special-value table below (IEEE-754 semantics, with ZeroDivisionError for a zero divisor as documented).
Paths that reach arithmetic on two normal numbers are outside the rule.
"""
import ast

from ..index import AnalysisError, norm
from ..report import Finding
from ..classdom import (KernelInterp, NeedChoice, Raised, Arith, Unsupported, Raw, Int)

LIBMPF = 'mpmath/libmp/libmpf.py'
KINDS = ('Z', 'PINF', 'NINF', 'NAN', 'N+', 'N-')


def mk(kind, tag):
    if kind == 'N+':
        return Raw('N', 0, 'ANY', tag=tag)
    if kind == 'N-':
        return Raw('N', 1, 'ANY', tag=tag)
    return Raw(kind, 1 if kind == 'NINF' else 0, tag=tag)


def label(r):
    if isinstance(r, Raw):
        if r.kind == 'N':
            return 'N-' if r.sign else 'N+'
        return r.kind
    return repr(r)


def neg(k):
    return {'Z': 'Z', 'PINF': 'NINF', 'NINF': 'PINF', 'NAN': 'NAN', 'N+': 'N-', 'N-': 'N+'}[k]


def sgn(k):
    return {'PINF': 1, 'N+': 1, 'NINF': -1, 'N-': -1}.get(k, 0)


def inf_of(s):
    return 'PINF' if s > 0 else 'NINF'


# ---- the special-value tables: (s, t) -> set of admissible outcomes; None = not specified ---------------------
def spec_add(s, t):
    if 'NAN' in (s, t):
        return {'NAN'}
    if s in ('PINF', 'NINF') and t in ('PINF', 'NINF'):
        return {s} if s == t else {'NAN'}
    if s in ('PINF', 'NINF'):
        return {s}
    if t in ('PINF', 'NINF'):
        return {t}
    if s == 'Z':
        return {t}
    if t == 'Z':
        return {s}
    return None


def spec_sub(s, t):
    return spec_add(s, neg(t))


def spec_mul(s, t):
    if 'NAN' in (s, t):
        return {'NAN'}
    if 'Z' in (s, t):
        return {'NAN'} if (s in ('PINF', 'NINF') or t in ('PINF', 'NINF')) else {'Z'}
    if s in ('PINF', 'NINF') or t in ('PINF', 'NINF'):
        return {inf_of(sgn(s) * sgn(t))}
    return None


def spec_div(s, t):
    if t == 'Z':
        return {'!ZeroDivisionError'}
    if 'NAN' in (s, t):
        return {'NAN'}
    if s in ('PINF', 'NINF'):
        return {'NAN'} if t in ('PINF', 'NINF') else {inf_of(sgn(s) * sgn(t))}
    if t in ('PINF', 'NINF'):
        return {'Z'}
    if s == 'Z':
        return {'Z'}
    return None


def spec_mod(s, t):
    if t == 'Z' and s in ('Z', 'N+', 'N-'):
        return {'!ZeroDivisionError'}
    if 'NAN' in (s, t):
        return {'NAN'}
    if s == 'Z' and t in ('N+', 'N-'):
        return {'Z'}
    return None          # infinite operands: not specified


UNARY = {
    'mpf_neg': lambda s: {neg(s)},
    'mpf_abs': lambda s: {{'NINF': 'PINF', 'N-': 'N+'}.get(s, s)},
    'mpf_pos': lambda s: {s},
    'mpf_sqrt': lambda s: {'!ComplexResult'} if s in ('NINF', 'N-') else ({s} if s != 'N+' else None),
    'mpf_floor': lambda s: {s} if s not in ('N+', 'N-') else None,
    'mpf_ceil': lambda s: {s} if s not in ('N+', 'N-') else None,
    'mpf_nint': lambda s: {s} if s not in ('N+', 'N-') else None,
    'mpf_frac': lambda s: ({'NAN'} if s in ('PINF', 'NINF', 'NAN') else {'Z'} if s == 'Z' else None),
}
BINARY = {'mpf_add': spec_add, 'mpf_sub': spec_sub, 'mpf_mul': spec_mul, 'mpf_div': spec_div, 'mpf_mod': spec_mod}


def make_lookup(ix):
    def lookup(name):
        f = ix.find_func(LIBMPF, name)
        if f is None and name == 'mpf_mul':
            f = ix.find_func(LIBMPF, 'python_mpf_mul')
        return f.node if f is not None else None
    return lookup


def outcomes(lookup, kernel, args, symclass):
    """all outcomes of the kernel on these operand classes, following both sides of undetermined tests"""
    out = set()
    work = [()]
    n = 0
    while work:
        ch = work.pop()
        n += 1
        if n > 400:
            raise AnalysisError('%s: too many undetermined tests' % kernel)
        it = KernelInterp(lookup, symclass, ch)
        try:
            r = it.run(lookup(kernel), list(args))
            out.add(label(r))
        except NeedChoice:
            work.append(ch + (True,))
            work.append(ch + (False,))
        except Raised as e:
            out.add('!' + e.what.split('(')[0])
        except Arith:
            out.add('ARITH')
        except Unsupported as u:
            raise AnalysisError('%s: %s' % (kernel, u))
    return out


def symclasses(*raws):
    d = {'r': 'POS', 'prod': 'POS', 'bc_new': 'POS'}
    for r in raws:
        if r.kind == 'N':
            d['man' + r.tag] = 'POS'
            d['bc' + r.tag] = 'POS'
    return d


def check_special_values(run, ix, rule, kernels):
    lookup = make_lookup(ix)
    total = 0
    for kernel in kernels:
        name = kernel
        fnode = lookup(kernel)
        if fnode is None:
            raise AnalysisError('kernel %s vanished' % kernel)
        bad = []
        n = 0
        if kernel in UNARY:
            cases = [((s,), UNARY[kernel](s)) for s in KINDS]
        else:
            cases = [((s, t), BINARY[kernel](s, t)) for s in KINDS for t in KINDS
                     if not (s in ('N+', 'N-') and t in ('N+', 'N-'))]
        for ops, want in cases:
            if want is None:
                continue
            raws = [mk(k, '_%d' % i) for i, k in enumerate(ops)]
            got = outcomes(lookup, kernel, raws + [Int(53), Int('round_nearest')], symclasses(*raws))
            n += 1
            if got <= want:
                run.ok(rule)
            else:
                bad.append((ops, sorted(got - want), sorted(want)))
                run.rule(rule)['sites'] += 1
                run.obligations += 1
        total += n
        if bad:
            run.rule(rule)['failed'] += len(bad)
            ops, got, want = bad[0]
            f = ix.find_func(LIBMPF, kernel) or ix.find_func(LIBMPF, 'python_' + kernel)
            run.findings.append(Finding(
                rule, LIBMPF, f.qualname, 'def %s (special values)' % kernel,
                '%s%s can give %s; the special-value table requires %s (%d of %d operand-class combinations wrong)'
                % (kernel, ops, got, want, len(bad), n), line=f.lineno))
        run.sample(rule, '%s: %d operand-class combinations against the special-value table' % (kernel, n))
    return total
