"""C07 -- decimal strings convert to correctly rounded binary values.

Decides the structural clause (rules B-R3/B-R4/B-R5 on the conversion path):
  * from_str derives its value from the exact integer (mantissa, exponent)
    pair of str_to_man_exp (no detour through a machine float), and every
    path ends in a rounding with the caller's mode at the requested precision
  * for |exponent| <= 400 that rounding is a SINGLE rounding of exact integers
  * for larger exponents the mantissa stays exact and the power of ten is
    rounded in a direction chosen from the caller's mode and the sign of the
    mantissa, so a directed result cannot cross the exact value
  * mpf('...')/convert thread (prec, rounding) into from_str; interval string
    forms convert lower endpoints with round_floor and upper endpoints with
    round_ceiling directly from the literal text (no shared pre-rounded value)
  * no memo table on this path is keyed without the rounding mode
Not decided: correct rounding of from_rational/from_int themselves (C02).
"""
import ast

from ..index import AnalysisError, norm
from ..prec_effect import _walk_own
from ..report import Finding
from ..round_flow import describe
from .kernel_rules import kernel_obligations, find_return, bad_mode, bad_single, iter_R
from .c10 import get_round_engine

LIBMPF = 'mpmath/libmp/libmpf.py'
LIBMPI = 'mpmath/libmp/libmpi.py'
CTXPY = 'mpmath/ctx_mp_python.py'


def run(run, ix, tier):
    run.explanation = (
        'Data-flow rules over from_str and its callers: values derive from the exact '
        '(mantissa, exponent) integers; final rounding in the caller\'s mode on every '
        'path; single rounding for moderate exponents; direction-consistent '
        'intermediate for huge exponents; endpoint-specific directed conversion of '
        'interval literals; the rounding mode is part of every call and of every cache '
        'key on the path.')
    run.assumptions = ['from_int / from_rational are correctly rounded (C02)',
                       'mpf_pow_int honours directed modes (C03)']
    run.trusted = ['sa/round_flow.py']
    run.rule('B-R1', floor=1)
    run.rule('B-R3', floor=1)
    run.rule('B-R5', floor=5, desc='exact sources / direction-consistent intermediates in from_str')
    run.rule('C-R7', floor=10, desc='interval literals: floor for lower, ceiling for upper, from the text')
    run.rule('B-R3t', floor=3, desc='(prec, rounding) threaded into from_str')
    eng = get_round_engine(ix)
    kernel_obligations(run, ix, ['from_str'], single=False, rule_single=None)
    check_from_str_exact(run, ix)
    check_threading(run, ix)
    from .c02 import check_keyword_independence
    check_keyword_independence(run, ix, 'B-R3t')
    check_interval_literals(run, ix, eng)
    check_shared_prefix_sign(run, ix)
    check_interval_forms(run, ix)
    check_no_lossy_cache(run, ix)
    check_literal_length(run, ix)
    check_text_never_through_float(run, ix)


def check_from_str_exact(run, ix, rule='B-R5'):
    """from_str derives its value from the exact integer (mantissa, exponent) pair: no float detour, one rounding of exact
    integers for moderate exponents, exact mantissa times a direction-consistent power of ten for huge ones.  Also run by
    C08 (rule W-R6): the read-back half of eval(repr(x)) == x needs it."""
    RULE = rule
    f = ix.func(LIBMPF, 'from_str')
    xs, pname, rname = f.params[:3]

    def fail(site, why, line=None, rule=None):
        run.fail(Finding(rule or RULE, LIBMPF, 'from_str', site, why, line=line))
    # (1) no machine-float detour
    bad = [x for x in _walk_own(f.node) if isinstance(x, ast.Call) and
           norm(x.func) in ('float', 'from_float', 'math.ldexp')]
    if bad:
        st = bad[0]
        while not isinstance(st, ast.stmt):
            st = st._parent
        fail(norm(st), 'the literal is routed through a machine float: it is rounded to 53 bits '
             'first and then again to the target precision (double rounding)', st.lineno)
    else:
        run.ok(RULE, 'from_str never converts through a Python float')
    # (2) the integers come from str_to_man_exp
    src = [x for x in _walk_own(f.node) if isinstance(x, ast.Assign) and
           isinstance(x.value, ast.Call) and norm(x.value.func) == 'str_to_man_exp']
    if len(src) != 1 or not isinstance(src[0].targets[0], ast.Tuple):
        fail('str_to_man_exp', 'exact (mantissa, exponent) extraction not found', f.lineno)
        return
    man, exp = [e.id for e in src[0].targets[0].elts]
    run.ok(RULE, '%s, %s = str_to_man_exp(...) are exact integers' % (man, exp))
    # (3) branch structure on |exp|
    big = [x for x in _walk_own(f.node) if isinstance(x, ast.If) and
           norm(x.test).startswith('abs(%s) >' % exp)]
    if len(big) != 1:
        fail('if abs(exp) > ...', 'split between moderate and huge exponents not found', f.lineno)
        return
    b = big[0]
    # moderate exponents: single rounding of exact integers with (prec, rnd)
    n_ok = 0
    for x in ast.walk(ast.Module(body=b.orelse, type_ignores=[])):
        if isinstance(x, ast.Call) and norm(x.func) in ('from_int', 'from_rational'):
            args = [norm(a) for a in x.args]
            names = set(y.id for a in x.args[:-2] for y in ast.walk(a) if isinstance(y, ast.Name))
            if args[-2:] == [pname, rname] and names <= {man, exp}:
                n_ok += 1
                run.ok(RULE, 'moderate exponent: %s is one rounding of exact integers' % norm(x, 60))
            else:
                fail(norm(x), 'moderate-exponent conversion is not a single rounding of the exact '
                     'integers with the caller\'s (prec, rnd)', x.lineno)
    if n_ok < 2:
        fail(norm(b), 'expected exact integer / rational conversion for both exponent signs', b.lineno)
    # huge exponents
    body = b.body
    calls = [x for st in body for x in ast.walk(st) if isinstance(x, ast.Call)]
    problems = []
    fi = [c for c in calls if norm(c.func) == 'from_int']
    if not fi or len(fi[0].args) != 1 or norm(fi[0].args[0]) != man:
        problems.append('the mantissa is rounded before the multiplication (must stay exact)')
    pw = [c for c in calls if norm(c.func) == 'mpf_pow_int']
    if len(pw) != 1:
        problems.append('power of ten not computed by mpf_pow_int')
    else:
        pa = pw[0].args
        mode = pa[3] if len(pa) > 3 else None
        okmode = False
        if isinstance(mode, ast.Name):
            # mode variable selected by the sign of the mantissa between rnd and negative_rnd[rnd]
            vals = {}
            for x in ast.walk(ast.Module(body=body, type_ignores=[])):
                if isinstance(x, ast.If) and norm(x.test) in ('%s < 0' % man, '%s >= 0' % man, '%s > 0' % man):
                    neg_branch = x.body if norm(x.test) == '%s < 0' % man else x.orelse
                    pos_branch = x.orelse if norm(x.test) == '%s < 0' % man else x.body
                    nb = [norm(s) for s in neg_branch]
                    pb = [norm(s) for s in pos_branch]
                    if nb == ['%s = negative_rnd[%s]' % (mode.id, rname)] and \
                            pb == ['%s = %s' % (mode.id, rname)]:
                        okmode = True
        if not okmode:
            problems.append('the power of ten is not rounded in a direction chosen from the '
                            'caller\'s mode and the sign of the mantissa (rnd for positive, '
                            'negative_rnd[rnd] for negative literals)')
        extra = pa[2] if len(pa) > 2 else None
        if not (isinstance(extra, ast.BinOp) and isinstance(extra.op, ast.Add) and
                norm(extra.left) == pname and isinstance(extra.right, ast.Constant)
                and extra.right.value > 0):
            problems.append('the power of ten is not computed with guard bits')
    fm = [c for c in calls if norm(c.func) == 'mpf_mul' and
          [norm(a) for a in c.args[-2:]] == [pname, rname]]
    if not fm:
        problems.append('final product is not rounded with the caller\'s (prec, rnd)')
    # the directed power may only be used as a FACTOR: as a divisor the same direction pushes the
    # quotient the opposite way (monotonicity), so the sign-selected mode would be the wrong one
    if len(pw) == 1:
        pnames = set()
        for st in body:
            for x in ast.walk(st):
                if isinstance(x, ast.Assign) and any(y is pw[0] for y in ast.walk(x.value)):
                    for t in x.targets:
                        if isinstance(t, ast.Name):
                            pnames.add(t.id)
        for c in calls:
            if norm(c.func) in ('mpf_div', 'mpf_rdiv_int') and len(c.args) >= 2:
                d = c.args[1]
                if any(y is pw[0] for y in ast.walk(d)) or (isinstance(d, ast.Name) and d.id in pnames):
                    problems.append('the directed power of ten is used as a DIVISOR (`%s`): a divisor rounded '
                                    'in the result\'s direction moves the quotient the opposite way, so a '
                                    'directed conversion can land on the wrong side of the literal'
                                    % norm(c, 60))
    if problems:
        fail(norm(b), '; '.join(problems), b.lineno)
    else:
        run.ok(RULE, 'huge exponent: exact mantissa x directed power of ten, rounded once more with rnd')
    # p/q literals
    fr = [x for x in _walk_own(f.node) if isinstance(x, ast.Return) and
          isinstance(x.value, ast.Call) and norm(x.value.func) == 'from_rational']
    if fr and [norm(a) for a in fr[0].value.args[-2:]] == [pname, rname]:
        run.ok(RULE, "'p/q' literals: from_rational(int(p), int(q), prec, rnd)")
    else:
        fail("'p/q' branch", 'fraction literals are not converted by one directed rational rounding', f.lineno)



def check_threading(run, ix):
    for rel, qn in ((CTXPY, '_mpf.mpf_convert_arg'), (CTXPY, 'PythonMPContext.convert'),
                    ('mpmath/ctx_iv.py', 'convert_mpf_')):
        f = ix.func(rel, qn)
        calls = [x for x in _walk_own(f.node) if isinstance(x, ast.Call) and norm(x.func) == 'from_str']
        if not calls:
            raise AnalysisError('%s: from_str call vanished' % qn)
        for c in calls:
            args = [norm(a) for a in c.args]
            if len(args) == 3 and args[1] in ('prec',) and args[2] in ('rounding',):
                run.ok('B-R3t', '%s: %s' % (qn, norm(c)))
            else:
                run.fail(Finding('B-R3t', rel, qn, norm(c),
                                 'string conversion does not receive (prec, rounding)', line=c.lineno))
        # a result of from_str must not be stored anywhere else than returned/wrapped
        for x in _walk_own(f.node):
            if isinstance(x, ast.Subscript) and isinstance(x.ctx, ast.Store):
                st = x
                while not isinstance(st, ast.stmt):
                    st = st._parent
                names = set(y.id for y in ast.walk(x.slice) if isinstance(y, ast.Name))
                if 'rounding' not in names and 'rnd' not in names:
                    run.fail(Finding('B-R3t', rel, qn, norm(st),
                                     'converted literal is memoised under a key without the '
                                     'rounding mode: a later conversion replays the first mode',
                                     line=st.lineno))


def check_interval_literals(run, ix, eng):
    """every (lower, upper) pair produced by mpi_from_str / mpi_from_str_a_b"""
    for qn in ('mpi_from_str', 'mpi_from_str_a_b'):
        f = ix.func(LIBMPI, qn)
        ka = eng.analyse_detail(f, 'prec')
        n = 0
        for node, classes, w in ka.returns:
            for c in classes:
                if c[0] != 'P':
                    continue
                n += 1
                for idx, want, nm in ((1, 'f', 'lower'), (2, 'c', 'upper')):
                    bad = []
                    for k in c[idx]:
                        for r in iter_R(k):
                            if r[2] != want:
                                bad.append('rounded with %s' % r[2])
                            elif not r[3] and qn == 'mpi_from_str' and \
                                    not isinstance(node.value, ast.Call):
                                bad.append('rounded from an already rounded value')
                        if k[0] in ('T', 'A', 'X'):
                            bad.append(describe(k))
                    if bad:
                        run.fail(Finding('C-R7', LIBMPI, qn, norm(node),
                                         '%s endpoint of an interval literal is not a directed '
                                         '(%s) conversion of the literal text: %s'
                                         % (nm, 'round_floor' if want == 'f' else 'round_ceiling',
                                            '; '.join(sorted(set(bad)))), line=node.lineno))
                    else:
                        run.ok('C-R7', '%s line %d: %s endpoint rounded with %s' % (qn, node.lineno, nm, want))
        if n < 1:
            raise AnalysisError('%s: no interval return classified' % qn)
    # the half-width of 'a +- b' must be rounded up, the centre both ways
    f = ix.func(LIBMPI, 'mpi_from_str_a_b')
    calls = [x for x in _walk_own(f.node) if isinstance(x, ast.Call) and norm(x.func) == 'from_str']
    modes = {}
    for c in calls:
        modes.setdefault(norm(c.args[0]), []).append(norm(c.args[2]) if len(c.args) > 2 else 'default')
    x, y = f.params[:2]
    if sorted(modes.get(x, [])) == ['round_ceiling', 'round_floor'] and modes.get(y) == ['round_ceiling']:
        run.ok('C-R7', "'a +- b': centre converted both ways, half-width rounded up")
    else:
        run.fail(Finding('C-R7', LIBMPI, f.qualname, 'from_str calls',
                         "centre must be converted with floor and ceiling and the half-width with "
                         "ceiling; found %s" % modes, line=f.lineno))


def check_shared_prefix_sign(run, ix):
    """C-R7: in the form `x[y,z]e` (shared digits x) the two literals x+y+e and x+z+e denote the two
    endpoints in an order that depends on the sign of x AND on the order in which the digit groups were
    written (mpi_to_str prints the lower endpoint's digits first, so '-1.2[7, 3]').  Ordering by the sign
    of the prefix alone reads one of the two spellings inverted; the branch must order the two texts by
    VALUE (a comparison of both converted texts guarding the swap, or min/max of the converted values)
    before rounding lower with floor and upper with ceiling.  The plain `[a, b]` case may be taken only
    when the closing bracket ends the string: '[4.0, 6.0]e-20' is the shared-prefix form with an empty
    prefix, and reading it as `[a, b]` applies the exponent to the upper endpoint only."""
    f = ix.func(LIBMPI, 'mpi_from_str')
    # the branch that splits on '[' after a prefix
    split = [x for x in _walk_own(f.node) if isinstance(x, ast.Assign) and isinstance(x.value, ast.Call) and
             norm(x.value.func).endswith(".split") and norm(x.value.args[0]) == "'['" and
             isinstance(x.targets[0], ast.Tuple)]
    if len(split) != 1:
        raise AnalysisError('mpi_from_str: shared-prefix form not found')
    p = split[0]
    while p is not None and not (isinstance(getattr(p, '_parent', None), ast.If) and
                                 p in getattr(p._parent, 'orelse', [])):
        p = getattr(p, '_parent', None)
    holder = p._parent.orelse if p is not None else []
    plain_if = p._parent if p is not None else None
    why = enclosure_of_both(f, holder)
    if why is None:
        run.ok('C-R7', "'x[y,z]e': both literals are converted downward and upward at the target precision; the lower "
               "endpoint is the smaller floor, the upper endpoint the larger ceiling")
    else:
        run.fail(Finding('C-R7', LIBMPI, 'mpi_from_str', norm(split[0]),
                         "in the form 'x[y,z]e' the result is not the enclosure of both literals (%s): the digit groups "
                         "come in either order ('-1.2[3,7]' / '-1.2[7,3]', the second is what mpi_to_str prints), and "
                         "a comparison of ROUNDED conversions cannot order literals that agree to that many bits "
                         "(iv.mpf('0.5000000000000000000000000000[1,0]') was [1/2, 1/2])" % why, line=split[0].lineno))
    # the plain '[a, b]' case needs the closing bracket at the end of the string
    t = norm(plain_if.test) if plain_if is not None else ''
    if "[-1] == ']'" in t or "endswith(']')" in t:
        run.ok('C-R7', "'[a, b]' is taken only when ']' ends the string (an exponent after ']' goes to the "
               "shared-prefix form)")
    else:
        run.fail(Finding('C-R7', LIBMPI, 'mpi_from_str', 'if %s' % t,
                         "a string that starts with '[' is always read as '[a, b]': '[4.0, 6.0]e-20' (printed by "
                         "mpi_to_str in 'diff' mode) gets the exponent on the upper endpoint only, and the lower "
                         "endpoint 4.0 lies above the denoted 4.0e-20", line=getattr(plain_if, 'lineno', None)))


def enclosure_of_both(f, holder):
    """None when the statements `holder` return (a, b) with a = min over BOTH literals of their round_floor
    conversions at the function's precision and b = max of their round_ceiling conversions; else the reason.
    Accepted spellings: min(...) / max(...) (also MIN / MAX) of the two conversions, or an initial conversion
    replaced under `mpf_lt(other, a)` resp. `mpf_gt(other, b)`."""
    prec = f.params[1]
    rets = [x for st in holder for x in ast.walk(st) if isinstance(x, ast.Return) and isinstance(x.value, ast.Tuple)
            and len(x.value.elts) == 2 and all(isinstance(e, ast.Name) for e in x.value.elts)]
    if not rets:
        return 'no `return a, b` of two names'
    lo_name, up_name = [e.id for e in rets[-1].value.elts]
    assigns = [x for st in holder for x in ast.walk(st) if isinstance(x, ast.Assign) and len(x.targets) == 1
               and isinstance(x.targets[0], ast.Name)]
    conv = {}                                   # name -> (literal, mode)
    for a in assigns:
        v = a.value
        if isinstance(v, ast.Call) and norm(v.func) == 'from_str' and len(v.args) == 3 and \
                isinstance(v.args[0], ast.Name) and norm(v.args[1]) == prec:
            conv.setdefault(a.targets[0].id, set()).add((v.args[0].id, norm(v.args[2])))

    def sources(name, mode, cmp_ok):
        """literals whose `mode` conversion can end up in `name`; None if something else can"""
        lits = set()
        for a in assigns:
            if a.targets[0].id != name:
                continue
            v = a.value
            vals = [v]
            if isinstance(v, ast.Call) and norm(v.func) in ('min', 'max', 'MIN', 'MAX'):
                want = ('min', 'MIN') if mode == 'round_floor' else ('max', 'MAX')
                if norm(v.func) not in want:
                    return None
                vals = list(v.args)
            else:
                # a replacement must sit under the right comparison
                par = getattr(a, '_parent', None)
                if isinstance(par, ast.If) and a in par.body:
                    t = par.test
                    if not (isinstance(t, ast.Call) and norm(t.func) in cmp_ok and len(t.args) == 2):
                        return None
                    order = [norm(x) for x in t.args]
                    if cmp_ok[norm(t.func)] == 'new-first':
                        if order != [norm(v), name]:
                            return None
                    elif order != [name, norm(v)]:
                        return None
            for x in vals:
                if isinstance(x, ast.Call) and norm(x.func) == 'from_str' and len(x.args) == 3 and \
                        isinstance(x.args[0], ast.Name) and norm(x.args[1]) == prec and norm(x.args[2]) == mode:
                    lits.add(x.args[0].id)
                elif isinstance(x, ast.Name) and x.id in conv and all(m == mode for _, m in conv[x.id]):
                    lits |= {l for l, _ in conv[x.id]}
                elif isinstance(x, ast.Name) and x.id == name:
                    continue
                else:
                    return None
        return lits
    lo = sources(lo_name, 'round_floor', {'mpf_lt': 'new-first', 'mpf_gt': 'old-first'})
    up = sources(up_name, 'round_ceiling', {'mpf_gt': 'new-first', 'mpf_lt': 'old-first'})
    if lo is None:
        return 'the lower endpoint is not the minimum of round_floor conversions at `%s`' % prec
    if up is None:
        return 'the upper endpoint is not the maximum of round_ceiling conversions at `%s`' % prec
    if len(lo) < 2 or lo != up:
        return 'the lower endpoint is taken from %s and the upper one from %s, not each from both literals' \
            % (sorted(lo), sorted(up))
    return None


def check_interval_forms(run, ix):
    """C-R7 (sibling agreement of the documented forms): both midpoint forms "a +- b[%]" and "a (b[%])" hand
    a COMPUTED percent flag to mpi_from_str_a_b, and a test for the exponent letter is made on lower-cased
    text (every other literal accepts 'E')."""
    f = ix.func(LIBMPI, 'mpi_from_str')
    calls = [c for c in _walk_own(f.node) if isinstance(c, ast.Call) and norm(c.func) == 'mpi_from_str_a_b']
    if len(calls) < 2:
        raise AnalysisError('mpi_from_str: the two midpoint forms were not found')
    for c in calls:
        flag = c.args[2] if len(c.args) > 2 else None
        if isinstance(flag, ast.Constant):
            run.fail(Finding('C-R7', LIBMPI, 'mpi_from_str', norm(c), "this midpoint form passes the constant %r as "
                             "percent flag: the documented spelling with a trailing '%%' is rejected (the '%%' "
                             "reaches from_str) although the sibling form accepts it" % (flag.value,), line=c.lineno))
        else:
            run.ok('C-R7', '%s: percent flag computed from the text' % norm(c))
    etests = [t for t in _walk_own(f.node) if isinstance(t, ast.Compare) and isinstance(t.left, ast.Constant)
              and t.left.value == 'e' and isinstance(t.ops[0], ast.In)]
    lowered = any(isinstance(x, ast.Call) and isinstance(x.func, ast.Attribute) and x.func.attr == 'lower'
                  for x in _walk_own(f.node))
    for t in etests:
        if lowered:
            run.ok('C-R7', "`%s` is tested on lower-cased text" % norm(t))
        else:
            run.fail(Finding('C-R7', LIBMPI, 'mpi_from_str', norm(t), "the exponent letter is looked for in lower "
                             "case only and the text is never lower-cased: '1.2[3,7]E5' is rejected while "
                             "'1.2[3,7]e5' and every plain literal with 'E' are accepted", line=t.lineno))


def check_no_lossy_cache(run, ix):
    from . import c33
    rows = c33.table_index(ix)
    for kind, rel, qn, cont in sorted(c33.discover(ix)):
        if rel in (CTXPY, LIBMPF, LIBMPI, 'mpmath/ctx_iv.py') and (rel, cont) not in rows:
            f = ix.find_func(rel, qn)
            run.fail(Finding('B-R3t', rel, qn, 'container %s' % cont,
                             'a new memo table on the literal-conversion path is not classified; '
                             'a cache of parsed literals must be keyed by precision AND rounding mode',
                             line=getattr(f, 'lineno', None)))


# --------------------------------------------------------------------------- L-R1
STR_METHODS = {'lower', 'upper', 'strip', 'rstrip', 'lstrip', 'replace', 'join', 'format', 'ljust', 'rjust', 'zfill'}
INT_STR_LIMIT_MIN = 640        # smallest value sys.set_int_max_str_digits accepts; the default is 4300


class StrKinds(object):
    """which names of a function hold text ('S'), lists of text ('L') or single characters ('C')"""

    def __init__(self, fn):
        self.kind = {}
        recv = {x.value.id for x in ast.walk(fn) if isinstance(x, ast.Attribute) and isinstance(x.value, ast.Name)
                and x.attr in STR_METHODS | {'split', 'startswith', 'endswith'}}
        for a in fn.args.args:
            if a.arg in recv:
                self.kind[a.arg] = 'S'
        for _ in range(4):
            for st in _walk_own(fn):
                if isinstance(st, ast.Assign):
                    k = self.of(st.value)
                    for t in st.targets:
                        self.bind(t, k)
                elif isinstance(st, ast.AugAssign) and isinstance(st.target, ast.Name):
                    if self.of(st.value) == 'S' or self.kind.get(st.target.id) == 'S':
                        self.kind[st.target.id] = 'S'

    def bind(self, t, k):
        if isinstance(t, ast.Name):
            if k:
                self.kind[t.id] = k
        elif isinstance(t, (ast.Tuple, ast.List)) and k == 'L':
            for e in t.elts:
                self.bind(e, 'S')

    def of(self, e):
        if isinstance(e, ast.Constant) and isinstance(e.value, str):
            return 'S' if len(e.value) > 1 else 'C'
        if isinstance(e, ast.Name):
            return self.kind.get(e.id)
        if isinstance(e, ast.Call) and isinstance(e.func, ast.Attribute):
            if e.func.attr in STR_METHODS and self.of(e.func.value) in ('S', 'C', None):
                return 'S' if (self.of(e.func.value) or e.func.attr in ('lower', 'strip', 'rstrip', 'lstrip',
                                                                      'replace', 'ljust', 'rjust', 'zfill')) else None
            if e.func.attr == 'split':
                return 'L'
        if isinstance(e, ast.Subscript):
            k = self.of(e.value)
            if k == 'L':
                return 'L' if isinstance(e.slice, ast.Slice) else 'S'
            if k == 'S':
                return 'S' if isinstance(e.slice, ast.Slice) else 'C'
        if isinstance(e, ast.BinOp) and isinstance(e.op, ast.Add):
            if 'S' in (self.of(e.left), self.of(e.right)):
                return 'S'
        if isinstance(e, ast.IfExp):
            return self.of(e.body) or self.of(e.orelse)
        return None


def _length_guarded(call, arg):
    """the int() call sits in the true branch of `if len(<arg>) <= C` with C below every possible limit"""
    p, child = getattr(call, '_parent', None), call
    while p is not None and not isinstance(p, ast.FunctionDef):
        if isinstance(p, ast.If) and child in p.body:
            t = p.test
            if isinstance(t, ast.Compare) and len(t.ops) == 1 and isinstance(t.ops[0], (ast.LtE, ast.Lt)) \
                    and norm(t.left) == 'len(%s)' % norm(arg) and isinstance(t.comparators[0], ast.Constant) \
                    and isinstance(t.comparators[0].value, int) and t.comparators[0].value <= INT_STR_LIMIT_MIN:
                return t.comparators[0].value
        child, p = p, getattr(p, '_parent', None)
    return None


TEXT_VALUE_FILES = ('mpmath/libmp/libmpf.py', 'mpmath/libmp/libmpi.py', 'mpmath/ctx_mp_python.py', 'mpmath/ctx_mp.py',
                    'mpmath/ctx_iv.py')


def check_text_never_through_float(run, ix):
    """L-R3.  A decimal text denotes an exact rational; its binary value at ANY precision and magnitude comes from
    from_str.  Python's float() is correctly rounded to 53 bits only for normal doubles: it overflows, and in the
    subnormal range (below 2.2e-308) it keeps fewer than 53 bits, so mpf(repr(x)) != x there.  In the conversion
    layers float(<text>) may therefore be used for VALIDATION only (its result discarded)."""
    run.rule('L-R3', floor=1, desc='float() of a text is used for validation only, never for the value')
    n = 0
    for rel in TEXT_VALUE_FILES:
        for f in list(ix.module(rel).funcs.values()):
            kinds = None
            for c in _walk_own(f.node):
                if not (isinstance(c, ast.Call) and isinstance(c.func, ast.Name) and c.func.id == 'float' and
                        len(c.args) == 1):
                    continue
                a = c.args[0]
                if kinds is None:
                    kinds = StrKinds(f.node)
                text = kinds.of(a) in ('S', 'L')
                if not text and isinstance(a, ast.Name):
                    p_ = c
                    while p_ is not None and p_ is not f.node:
                        par = getattr(p_, '_parent', None)
                        if isinstance(par, ast.If) and any(p_ is s_ for s_ in par.body):
                            for t in ast.walk(par.test):
                                if isinstance(t, ast.Call) and norm(t.func) == 'isinstance' and len(t.args) == 2 and \
                                        norm(t.args[0]) == a.id and any(isinstance(z, ast.Name) and z.id in ('basestring', 'str')
                                                                        for z in ast.walk(t.args[1])):
                                    text = True
                        p_ = par
                if not text:
                    continue
                n += 1
                if isinstance(getattr(c, '_parent', None), ast.Expr):
                    run.ok('L-R3', '%s: float(%s) validates the literal, its value is discarded' % (f.qualname, norm(a)))
                else:
                    st = c
                    while not isinstance(st, ast.stmt):
                        st = st._parent
                    run.fail(Finding('L-R3', rel, f.qualname, norm(st),
                                     'the value of a decimal text is taken from float(): beyond the normal double range '
                                     'it overflows or, for |x| < 2.2e-308, keeps fewer than 53 bits, so the literal is '
                                     'not converted correctly and mpf(repr(x)) != x for such x', line=c.lineno))
    return n


def check_literal_length(run, ix):
    """L-R1.  "Any number of digits": CPython refuses int(<text>) beyond sys.get_int_max_str_digits()
    (4300 by default), so a literal's digit string may reach int() only in pieces whose length is bounded
    by a constant below that limit.  Every int(<text>) call in libmpf.py / libmpi.py is classified by a small
    text-kind inference (text / list of text / single character): a call on unbounded text must sit under
    `if len(text) <= C` with C <= 640; the literal parsers must route their digit strings through the
    chunking helper."""
    run.rule('L-R1', floor=5, desc='digit strings of a literal reach int() only in bounded pieces')
    n = 0
    for rel in (LIBMPF, LIBMPI, 'mpmath/ctx_mp_python.py'):
        for f in list(ix.module(rel).funcs.values()):
            kinds = None
            for c in _walk_own(f.node):
                if not (isinstance(c, ast.Call) and isinstance(c.func, ast.Name) and c.args):
                    continue
                if c.func.id not in ('int', 'MPZ', 'str_to_int', 'long'):
                    continue
                if kinds is None:
                    kinds = StrKinds(f.node)
                k = kinds.of(c.args[0])
                # under `type(v) in int_types` / `isinstance(v, int_types)` the operand is an integer, whatever the name
                # holds on other paths
                p_ = c
                while p_ is not f.node and k in ('S', 'L'):
                    par_ = getattr(p_, '_parent', None)
                    if par_ is None:
                        break
                    if isinstance(par_, ast.If) and any(p_ is b or any(p_ is y for y in ast.walk(b)) for b in par_.body) and \
                            norm(par_.test).replace(' ', '') in ('type(%s)inint_types' % norm(c.args[0]),
                                                                 'isinstance(%s,int_types)' % norm(c.args[0])):
                        k = 'I'
                    p_ = par_
                if k not in ('S', 'L'):
                    if k == 'C':
                        run.ok('L-R1', '%s: %s converts a single character' % (f.qualname, norm(c)))
                    continue
                n += 1
                if c.func.id == 'str_to_int':
                    run.ok('L-R1', '%s: %s goes through the chunking helper' % (f.qualname, norm(c)))
                    continue
                g = _length_guarded(c, c.args[0])
                if g is not None:
                    run.ok('L-R1', '%s: %s only for len <= %d' % (f.qualname, norm(c), g))
                else:
                    run.fail(Finding('L-R1', rel, f.qualname, norm(c), 'a text of unbounded length is handed to %s(): '
                                     'beyond sys.get_int_max_str_digits() (4300) digits the interpreter raises '
                                     'ValueError, so a long literal (mpf(repr(x)) at mp.dps = 5000) cannot be '
                                     'converted' % c.func.id, line=c.lineno))
    # the helper must split on the way down: a recursive call on both halves
    h = ix.find_func(LIBMPF, 'str_to_int')
    if h is None:
        if any(f.rule == 'L-R1' for f in run.findings):
            return                      # the unguarded sites are the report
        raise AnalysisError('str_to_int (chunked conversion of digit strings) not found')
    # the splitter: the helper itself or the module-level function it hands its text to
    splitter = None
    for cand in [h] + [g for g in (ix.find_func(LIBMPF, norm(c.func)) for c in _walk_own(h.node)
                                    if isinstance(c, ast.Call) and isinstance(c.func, ast.Name)) if g is not None]:
        rec = [c for c in _walk_own(cand.node) if isinstance(c, ast.Call) and norm(c.func) == cand.qualname
               and c.args and isinstance(c.args[0], ast.Subscript) and isinstance(c.args[0].slice, ast.Slice)]
        if len(rec) >= 2:
            splitter = cand
            break
    if splitter is not None:
        run.ok('L-R1', '%s recurses on slices of its argument (%d calls)' % (splitter.qualname, len(rec)))
    else:
        run.fail(Finding('L-R1', LIBMPF, 'str_to_int', 'def str_to_int', 'the helper does not split long strings',
                         line=h.lineno))
        return
    run.stats['int_of_text_sites'] = n
    # L-R2: the pieces are cut by CHARACTER positions and scaled by base**(number of characters): the text must be
    # digits only when it is cut.  A digit separator (accepted by int() and by the short path) shifts the scale by
    # one place per separator; a sign or blank at the end of a piece is accepted by int().
    run.rule('L-R2', floor=2, desc='a long digit string is free of separators, signs and blanks when it is cut into pieces')
    sp = splitter.params[0]
    outside = [c for f2 in ix.module(LIBMPF).funcs.values() if f2 is not splitter for c in _walk_own(f2.node)
               if isinstance(c, ast.Call) and norm(c.func) == splitter.qualname]
    if splitter is h:
        callers = [(h, None)]
    else:
        callers = [(ix.find_func(LIBMPF, 'str_to_int'), c) for c in outside]
    ok_sep = True
    for caller, call in callers:
        text = norm(call.args[0]) if call is not None else sp
        strips = [a for a in _walk_own(caller.node) if isinstance(a, ast.Assign) and norm(a.targets[0]) == text and
                  isinstance(a.value, ast.Call) and isinstance(a.value.func, ast.Attribute) and
                  a.value.func.attr == 'replace' and norm(a.value.func.value) == text and
                  [norm(z) for z in a.value.args] == ["'_'", "''"] and
                  (call is None or a.lineno < call.lineno)]
        if splitter is h and strips:
            # must come before the recursive cut
            cut = min(c.lineno for c in rec)
            strips = [a for a in strips if a.lineno < cut]
        if strips:
            run.ok('L-R2', '%s removes digit separators before the text is cut: `%s`' % (caller.qualname, norm(strips[0])))
        else:
            ok_sep = False
            run.fail(Finding('L-R2', LIBMPF, caller.qualname, norm(call) if call is not None else 'def %s' % caller.qualname,
                             'a long digit string is cut at character positions with its digit separators still in it: '
                             'each `_` in the low piece shifts the high piece by one decimal place (a 602-digit numerator '
                             'with one separator over 10**601 converts to 10 instead of 1)',
                             line=(call.lineno if call is not None else caller.lineno)))
    guards = [x for x in _walk_own(splitter.node) if isinstance(x, ast.If) and
              any(isinstance(b, ast.Raise) for b in x.body) and "'+-'" in norm(x.test) and 'isspace' in norm(x.test)]
    if guards and guards[0].lineno < min(c.lineno for c in rec):
        run.ok('L-R2', '%s rejects a piece that begins with a sign or has blanks at its ends' % splitter.qualname)
    else:
        run.fail(Finding('L-R2', LIBMPF, splitter.qualname, 'def %s' % splitter.qualname,
                         'a piece of a long digit string goes to int() as it is: int() accepts a sign and blanks at the '
                         'ends of a piece, so a malformed long literal (a sign in the middle) is converted instead of '
                         'rejected', line=splitter.lineno))
