"""C35 -- integer relation results are genuine relations.

That PSLQ finds a relation when one exists, and that the fixed-point arithmetic
of the reduction is accurate, are numerical and NOT decided.  Decided: the
GATES between the computation and the caller -- every value these functions
hand out has passed the tests the documentation promises.

  Q-R1  pslq: every return of a vector is dominated (nested if-tests in the
        scan over the columns) by  err < tol  with err = |y[i]|, and by
        max|c_k| < maxcoeff  (strict) on exactly the returned vector, and the
        vector is read from column i of B for the SAME i; nothing else is
        returned except None
  Q-R2  pslq: tolerance and inputs are converted to fixed point at one and the
        same precision (no change of `prec` between the two conversions), so
        that `err < tol` compares like with like; degenerate inputs raise
  Q-R3  findpoly: coefficients come from pslq on [1, x, ..., x**i] with i <= n
        (degree bound), the caller's tol/maxcoeff are forwarded untouched, a
        None result is never returned as a polynomial, the order is reversed
        exactly once
  Q-R4  identify: every formula that is added to the solutions comes from a
        pslq result that was tested for `is not None`, for coefficients within
        the bound M and for a non-zero leading coefficient (so the relation
        really involves x); pslq is called with the tolerance and bound derived
        from the arguments
  Q-R5  identify: a template placeholder that the template raises to a power is
        substituted by a power-safe (parenthesised) operand
  Q-R6  identify: the linear formula is built only for a relation that involves
        at least one constant besides x
  Q-R7  pslq: the Euclidean norm bound is reduced by >= sqrt(n) before it is
        compared with maxcoeff;  Q-R8  recursive calls forward every option
  Q-R9  pslq: the returned vector passed the INTEGER test
        |sum v*xk| <= (tol*xnorm) >> prec on the fixed-point input itself (x not
        written after its conversion, xnorm = ||x|| taken before normalisation)
  Q-R10 pslq: the input is scaled by one common power of two before the
        conversion and the small-entry guard is relative to the norm
  Q-R11 identify: a formula is stored only after it was evaluated (integer
        literals as mpf) and compared with x; an arithmetic failure rejects it;
        `return solutions[0]` only after a successful addsolution
  Q-R12 findpoly: the powers carry >= 60 guard bits and pslq does not round its
        entries to the working precision
  Q-R13 the string builders return a string on every path
"""
import ast

from ..index import AnalysisError, norm
from ..prec_effect import _walk_own
from ..report import Finding

IDENT = 'mpmath/identification.py'


def F(rule, qn, node_or_text, reason, line=None):
    site = node_or_text if isinstance(node_or_text, str) else norm(node_or_text)
    if line is None and not isinstance(node_or_text, str):
        line = getattr(node_or_text, 'lineno', None)
    return Finding(rule, IDENT, qn, site, reason, line=line)


def ancestors_if(node, stop):
    """If-statements whose BODY contains node (innermost first)"""
    out = []
    p = node
    while p is not None and p is not stop:
        par = getattr(p, '_parent', None)
        if isinstance(par, ast.If) and any(p is s for s in par.body):
            out.append(par)
        p = par
    return out


def enclosing_for(node, stop):
    p = node
    while p is not None and p is not stop:
        par = getattr(p, '_parent', None)
        if isinstance(par, ast.For) and any(p is s for s in par.body):
            return par
        p = par
    return None


def cmp_parts(test):
    """(left text, op class, right text) of a single comparison, else None"""
    if isinstance(test, ast.Compare) and len(test.ops) == 1:
        return norm(test.left), type(test.ops[0]), norm(test.comparators[0])
    return None


def _same_names(a, b):
    return sorted(a) == sorted(b)


def check_exact_recheck(run, fn, r, vec, gates, conjuncts):
    """Q-R9.  The vector that is returned has passed the documented bound AGAINST THE INPUT: an integer test
    |sum(v*xk)| <= tol*||x|| on the fixed-point input itself, not only the test on the reduced vector y (whose
    rounding errors grow with the coefficients of the reduction).  Decided: a conjunct of the enclosing tests is
    `abs(sum(v*xk for (v, xk) in zip(<returned vector>, x[1:]))) <= (tol*xnorm) >> prec`; x is the converted
    input and is never written afterwards (y is a copy); xnorm is s[1] taken before s is normalised."""
    found = None
    for c in conjuncts:
        if not (isinstance(c, ast.Compare) and len(c.ops) == 1 and isinstance(c.ops[0], (ast.LtE, ast.Lt))):
            continue
        L, R = c.left, c.comparators[0]
        if not (isinstance(L, ast.Call) and norm(L.func) == 'abs' and len(L.args) == 1):
            continue
        sm = L.args[0]
        if not (isinstance(sm, ast.Call) and norm(sm.func) == 'sum' and sm.args and
                isinstance(sm.args[0], (ast.GeneratorExp, ast.ListComp))):
            continue
        ge = sm.args[0]
        gen = ge.generators[0]
        if len(ge.generators) != 1 or gen.ifs or not (isinstance(gen.iter, ast.Call) and norm(gen.iter.func) == 'zip'):
            continue
        found = (c, ge, gen, R)
    if found is None:
        run.fail(F('Q-R9', 'pslq', r, 'the relation is returned on the evidence of the reduced vector y alone: its '
                   'residual is not re-computed from the input x (with coefficients of the size of 1/tol the rounding '
                   'errors carried by y exceed the tolerance and a non-relation is returned)'))
        return
    c, ge, gen, R = found
    tnames = [n.id for n in ast.walk(gen.target) if isinstance(n, ast.Name)]
    elt_ok = isinstance(ge.elt, ast.BinOp) and isinstance(ge.elt.op, ast.Mult) and \
        _same_names([norm(ge.elt.left), norm(ge.elt.right)], tnames)
    zargs = [norm(a) for a in gen.iter.args]
    zip_ok = _same_names(zargs, [vec, 'x[1:]'])
    rhs_ok = isinstance(R, ast.BinOp) and isinstance(R.op, ast.RShift) and norm(R.right) == 'prec' and \
        isinstance(R.left, ast.BinOp) and isinstance(R.left.op, ast.Mult) and \
        _same_names([norm(R.left.left), norm(R.left.right)], ['tol', 'xnorm'])
    if not (elt_ok and zip_ok and rhs_ok):
        run.fail(F('Q-R9', 'pslq', c, 'the re-check of the relation is not |sum(v*xk over zip(%s, x[1:]))| <= '
                   '(tol*xnorm) >> prec (found `%s`): it does not bound the residual of the returned vector on the '
                   'input by tol*||x||' % (vec, norm(c, 120))))
        return
    run.ok('Q-R9', 'returned vector passed `%s`' % norm(c, 100))
    # x untouched after the conversion; y a copy
    conv = [st for st in _walk_own(fn) if isinstance(st, ast.Assign) and norm(st.targets[0]) == 'x' and
            'to_fixed' in norm(st.value, 300)]
    last = max(st.lineno for st in conv) if conv else 0
    writes = [st for st in _walk_own(fn) if isinstance(st, (ast.Assign, ast.AugAssign)) and st.lineno > last and
              any(isinstance(t, (ast.Name, ast.Subscript)) and norm(t if isinstance(t, ast.Name) else t.value) == 'x'
                  for t in (st.targets if isinstance(st, ast.Assign) else [st.target]))]
    alias = [st for st in _walk_own(fn) if isinstance(st, ast.Assign) and isinstance(st.value, ast.Name) and
             st.value.id == 'x' and st.lineno > last]
    if writes or alias or not conv:
        bad = (writes or alias or [r])[0]
        run.fail(F('Q-R9', 'pslq', bad, 'the fixed-point input x is modified (or aliased) after its conversion: the '
                   're-check no longer tests the relation against the input'))
    else:
        run.ok('Q-R9', 'x is not written after its conversion (y = x[:] is a copy)')
    # xnorm = s[1] before the normalisation of s
    xdefs = [st for st in _walk_own(fn) if isinstance(st, ast.Assign) and
             any(norm(t) == 'xnorm' for t in st.targets)]
    sstores = [st for st in _walk_own(fn) if isinstance(st, ast.Assign) and
               any(isinstance(t, ast.Subscript) and norm(t.value) == 's' for t in st.targets)]
    comp = [st for st in sstores if 'sqrt_fixed' in norm(st.value)]
    other = [st for st in sstores if 'sqrt_fixed' not in norm(st.value)]
    if len(xdefs) == 1 and norm(xdefs[0].value) == 's[1]' and comp and \
            max(st.lineno for st in comp) < xdefs[0].lineno and \
            all(xdefs[0].lineno < st.lineno for st in other):
        run.ok('Q-R9', 'xnorm = s[1] = ||x||, taken after the norms are computed and before s is normalised')
    else:
        run.fail(F('Q-R9', 'pslq', xdefs[0] if xdefs else c, 'xnorm is not the Euclidean norm s[1] of the input '
                   '(taken before s is divided by it): the bound of the re-check is not tol*||x||'))


def check_scaling(run, ix):
    """Q-R10.  The documented bound is relative (|sum c_k x_k| <= tol*||x||), the fixed-point format is absolute.
    Decided: every entry is multiplied by one common power of two (ldexp by minus the largest magnitude) before
    the conversion, and the small-entry guard compares an entry RELATIVE to the norm with the tolerance -- with
    the raw entry, an exact relation among small numbers is refused (and among large ones precision is lost)."""
    f = ix.func(IDENT, 'pslq')
    fn = f.node
    scaled = None
    for st in _walk_own(fn):
        if isinstance(st, ast.Assign) and norm(st.targets[0]) == 'x' and isinstance(st.value, ast.ListComp):
            e = st.value.elt
            if isinstance(e, ast.Call) and norm(e.func).endswith('ldexp') and len(e.args) == 2:
                var = norm(st.value.generators[0].target)
                k = e.args[1]
                names = set(n.id for n in ast.walk(k) if isinstance(n, ast.Name))
                if norm(e.args[0]) == var and var not in names and isinstance(k, ast.UnaryOp) and \
                        isinstance(k.op, ast.USub) and 'max(' in norm(k):
                    scaled = st
    conv = [st for st in _walk_own(fn) if isinstance(st, ast.Assign) and norm(st.targets[0]) == 'x' and
            'to_fixed' in norm(st.value, 300)]
    if not conv:
        raise AnalysisError('pslq: conversion of x not found')
    if scaled is not None and scaled.lineno < conv[0].lineno:
        run.ok('Q-R10', 'input scaled by one common power of two before the conversion: `%s`' % norm(scaled, 80))
    else:
        run.fail(F('Q-R10', 'pslq', conv[0], 'the input vector is converted to fixed point as given: for a vector '
                   'of small numbers the norm underflows and an exact relation is refused (pslq([a, -a]) with a = '
                   '1e-5), although the documented bound is relative to ||x||'))
    guards = [x for x in _walk_own(fn) if isinstance(x, ast.If) and isinstance(x.test, ast.Compare) and
              'tol' in norm(x.test.comparators[0]) and isinstance(x.test.ops[0], ast.Lt) and
              any(isinstance(b, ast.Return) for b in x.body) and 'min' in norm(x.test.left)]
    if not guards:
        run.ok('Q-R10', 'no small-entry guard')
    for g in guards:
        names = set(n.id for n in ast.walk(g.test.left) if isinstance(n, ast.Name))
        if 'xnorm' in names or 'y' in names:
            run.ok('Q-R10', 'small-entry guard is relative to the norm: `%s`' % norm(g.test, 80))
        else:
            run.fail(F('Q-R10', 'pslq', g, 'the small-entry guard compares the raw entry `%s` with the RELATIVE '
                       'tolerance: the answer depends on the scale of the vector' % norm(g.test.left, 40)))


def check_formula_verified(run, ix):
    """Q-R11.  Every formula identify hands out has been evaluated and compared with x.  (A relation holds for the
    transformed value t = f(x, c); next to a double root of the quadratic, or where the inverse transformation
    is ill-conditioned, the formula misses x by far more than the tolerance.)  Decided: `solutions.append` occurs
    only in addsolution, after a test `abs(v - x) <= K*tol*max(1, abs(x))` on v = eval(formula) whose failure
    returns a false value, as do arithmetic errors of the evaluation; `return solutions[0]` is always conditional on
    a true addsolution(...)."""
    f = ix.func(IDENT, 'identify')
    fn = f.node
    add = None
    for x in ast.walk(fn):
        if isinstance(x, ast.FunctionDef) and x.name == 'addsolution':
            add = x
    if add is None:
        raise AnalysisError('identify: addsolution not found')
    apps = [x for x in ast.walk(fn) if isinstance(x, ast.Call) and norm(x.func) == 'solutions.append']
    outside = [x for x in apps if x not in list(ast.walk(add))]
    if outside:
        run.fail(F('Q-R11', 'identify', outside[0], 'a formula is stored without passing through addsolution'))
    param = add.args.args[0].arg
    derived = {param}
    changed = True
    while changed:
        changed = False
        for st in ast.walk(add):
            if isinstance(st, ast.Assign) and isinstance(st.targets[0], ast.Name) and st.targets[0].id not in derived \
                    and any(isinstance(n, ast.Name) and n.id in derived for n in ast.walk(st.value)):
                derived.add(st.targets[0].id)
                changed = True
    evals = [st for st in ast.walk(add) if isinstance(st, ast.Assign) and isinstance(st.value, ast.Call) and
             norm(st.value.func) == 'eval' and
             any(isinstance(n, ast.Name) and n.id in derived for n in ast.walk(st.value.args[0]))]
    test = None
    for x in ast.walk(add):
        if isinstance(x, ast.If) and evals:
            v = norm(evals[0].targets[0])
            t = x.test
            neg = isinstance(t, ast.UnaryOp) and isinstance(t.op, ast.Not)
            cmp_ = t.operand if neg else t
            if isinstance(cmp_, ast.Compare) and len(cmp_.ops) == 1 and \
                    norm(cmp_.left) in ('abs(%s - x)' % v, 'abs(x - %s)' % v):
                op = type(cmp_.ops[0])
                rejecting = (neg and op in (ast.LtE, ast.Lt)) or (not neg and op in (ast.Gt, ast.GtE))
                rhs = cmp_.comparators[0]
                rn = set(n.id for n in ast.walk(rhs) if isinstance(n, ast.Name))
                rets = [b for b in x.body if isinstance(b, ast.Return)]
                falsy = rets and (rets[0].value is None or (isinstance(rets[0].value, ast.Constant) and not rets[0].value.value))
                if rejecting and 'tol' in rn and falsy:
                    test = x
    app_in = [x for x in apps if x not in outside]
    if not evals or test is None or not app_in or not all(a.lineno > test.lineno for a in app_in):
        run.fail(F('Q-R11', 'identify', add.body[0] if not app_in else enclosing_stmt_(app_in[0]),
                   'formulas are handed out without being evaluated and compared with x: next to a double root of '
                   'the quadratic (identify(1.5000001) -> ((12-sqrt(0))/8)) or for an ill-conditioned inverse '
                   'transformation (identify(1e12) -> 1/log(1)) the formula is not x within the tolerance'))
        return
    run.ok('Q-R11', 'stored only after `%s` on the evaluated formula' % norm(test.test, 80))
    # arithmetic failure of the evaluation rejects
    tries = [x for x in ast.walk(add) if isinstance(x, ast.Try) and evals[0] in list(ast.walk(x))]
    okh = False
    for t in tries:
        for h in t.handlers:
            hn = set(n.id for n in ast.walk(h.type) if isinstance(n, ast.Name)) if h.type is not None else set()
            if hn & {'ArithmeticError', 'ZeroDivisionError'}:
                rets = [b for b in h.body if isinstance(b, ast.Return)]
                if rets and (rets[0].value is None or (isinstance(rets[0].value, ast.Constant) and not rets[0].value.value)):
                    okh = True
    if okh:
        run.ok('Q-R11', 'a formula whose evaluation divides by zero is rejected')
    else:
        run.fail(F('Q-R11', 'identify', evals[0], 'a formula whose evaluation fails (1/log(1)) is not rejected'))
    # no handler lets an unevaluated formula through
    accepting = []
    for t in tries:
        for h in t.handlers:
            rets = [b for b in h.body if isinstance(b, ast.Return)]
            falsy = rets and (rets[0].value is None or (isinstance(rets[0].value, ast.Constant) and not rets[0].value.value))
            if not falsy and not any(isinstance(b, ast.Raise) for b in h.body):
                accepting.append(h)
    if accepting:
        run.fail(F('Q-R11', 'identify', 'except %s' % (norm(accepting[0].type) if accepting[0].type is not None else ''),
                   'a formula whose evaluation raises %s is accepted unchecked: a constant whose name is not an '
                   'expression (identify(mpf("1e-6"), {"Li2(1/2)": polylog(2, 0.5)})) switches the verification off '
                   'and log(((2-sqrt(0))/2))/Li2(1/2), which is 0, is returned'
                   % (norm(accepting[0].type) if accepting[0].type is not None else 'anything'),
                   line=accepting[0].lineno))
    else:
        run.ok('Q-R11', 'every exception of the evaluation rejects the formula')
    # integer literals become mpf (5**(1/3) is a float power otherwise: wrong verdicts above 53 bits)
    if '_int_literals.sub' in norm(evals[0].value.args[0], 200) or 'mpf' in norm(evals[0].value.args[0], 200):
        run.ok('Q-R11', 'integer literals are evaluated as mpf')
    else:
        run.fail(F('Q-R11', 'identify', evals[0], 'the formula is evaluated with Python int literals: (1/3) is a '
                   'float, so correct formulas with fractional powers are judged at 53 bits'))
    # the namespace the formula is evaluated in holds the context's functions whenever eval runs.  (A NameError of the
    # evaluation is taken to mean "a constant given under a name that cannot be evaluated" and ACCEPTS the formula
    # unchecked: if the namespace lacks `mpf`, `sqrt`, `log`, every formula raises NameError and nothing is verified.)
    ns = norm(evals[0].value.args[1]) if len(evals[0].value.args) > 1 else None
    fills = [x for x in ast.walk(add) if isinstance(x, ast.For) and isinstance(x.iter, ast.Call) and
             norm(x.iter.func) == 'dir' and ns is not None and
             any(isinstance(c, ast.Call) and norm(c.func) in ('%s.setdefault' % ns,) for c in ast.walk(x)) and
             x.lineno < evals[0].lineno]
    outer = [x for x in _walk_own(fn) if isinstance(x, ast.Assign) and ns is not None and norm(x.targets[0]) == ns and
             'dir(ctx)' in norm(x.value, 200)]
    fill_ok = False
    why_fill = 'the evaluation namespace is never filled with the context\'s names'
    if outer:
        fill_ok = True
    for fl in fills:
        par = fl._parent
        if not isinstance(par, ast.If) or fl not in par.body:
            fill_ok = True
            continue
        t = par.test
        if isinstance(t, ast.Compare) and len(t.ops) == 1 and isinstance(t.ops[0], ast.NotIn) and \
                isinstance(t.left, ast.Constant) and isinstance(t.left.value, str) and \
                norm(t.comparators[0]) == ns and t.left.value in norm(evals[0].value.args[0], 200):
            fill_ok = True          # guarded by the absence of the very name the rewriting inserts (mpf)
        else:
            why_fill = 'the namespace is filled only under `%s`, which is false when the caller\'s dict of constants ' \
                       'has already put names into it: eval then raises NameError for mpf / sqrt / log and the ' \
                       'formula is accepted unchecked' % norm(t, 60)
    if fill_ok:
        run.ok('Q-R11', 'the evaluation namespace holds the context\'s functions whenever a formula is evaluated')
    else:
        run.fail(F('Q-R11', 'identify', fills[0]._parent if fills and isinstance(fills[0]._parent, ast.If) else evals[0],
                   why_fill))
    # return solutions[0] only after a successful add
    for r in _walk_own(fn):
        if isinstance(r, ast.Return) and r.value is not None and norm(r.value) == 'solutions[0]':
            gs = ancestors_if(r, fn)
            ok = any(any(isinstance(c, ast.Call) and norm(c.func) == 'addsolution' for c in
                         (g.test.values if isinstance(g.test, ast.BoolOp) and isinstance(g.test.op, ast.And) else [g.test]))
                     for g in gs)
            if ok:
                run.ok('Q-R11', '`return solutions[0]` only when addsolution accepted the formula')
            else:
                run.fail(F('Q-R11', 'identify', r, '`return solutions[0]` is not conditional on addsolution having '
                           'accepted the formula: a rejected candidate raises IndexError or returns an older one'))


def enclosing_stmt_(node):
    p = node
    while not isinstance(p, ast.stmt):
        p = p._parent
    return p


def check_total_strings(run, ix):
    """Q-R13.  The string builders return a string on every path (prodstring fell off its end for the empty
    product and identify stored None as a formula)."""
    for name in ('pslqstring', 'prodstring', 'quadraticstring'):
        f = ix.func(IDENT, name)
        last = f.node.body[-1]
        if isinstance(last, ast.Return) and last.value is not None and \
                not (isinstance(last.value, ast.Constant) and last.value.value is None):
            run.ok('Q-R13', '%s ends in `%s`' % (name, norm(last, 50)))
        else:
            run.fail(F('Q-R13', name, last, 'the function can fall off its end and return None, which identify stores '
                       'as a formula (identify(1.000000000005, full=True) raised TypeError when sorting)'))


def check_findpoly_guard(run, ix):
    """Q-R12.  findpoly promises a polynomial with x as a root within the tolerance; pslq certifies the relation
    for the numbers it was GIVEN.  Decided: the powers are computed with a raised precision (>= 60 bits, the guard
    bits of pslq's fixed-point format) and pslq converts its input without rounding it to the working precision
    (`ctx.convert`, not `ctx.mpf`)."""
    f = ix.func(IDENT, 'findpoly')
    app = [x for x in _walk_own(f.node) if isinstance(x, ast.Call) and norm(x.func) == 'xs.append']
    if not app:
        raise AnalysisError('findpoly: xs.append not found')
    raised = None
    p = app[0]
    while p is not f.node:
        p = p._parent
        if isinstance(p, ast.Try):
            for st in p.body:
                if isinstance(st, ast.Assign) and norm(st.targets[0]) == 'ctx.prec' and \
                        isinstance(st.value, ast.BinOp) and isinstance(st.value.op, ast.Add):
                    k = [z.value for z in (st.value.left, st.value.right) if isinstance(z, ast.Constant)]
                    if k and k[0] >= 60 and st.lineno < app[0].lineno:
                        raised = st
        if isinstance(p, ast.With):
            for it in p.items:
                c = it.context_expr
                if isinstance(c, ast.Call) and norm(c.func).endswith(('extraprec', 'workprec')) and c.args and \
                        isinstance(c.args[0], ast.Constant) and c.args[0].value >= 60:
                    raised = p
    if raised is not None:
        run.ok('Q-R12', 'powers computed with guard bits: `%s`' % norm(raised, 60))
    else:
        run.fail(F('Q-R12', 'findpoly', app[0], 'the powers x**i are rounded to the working precision before pslq sees '
                   'them: the polynomial found is a relation for the rounded powers, and with large coefficients '
                   '|P(x)| exceeds the bound (12.6 times for maxcoeff = 10**6 at 53 bits)'))
    g = ix.func(IDENT, 'pslq')
    rounding = [x for x in _walk_own(g.node) if isinstance(x, ast.Call) and norm(x.func) == 'ctx.mpf' and
                x.args and isinstance(x.args[0], ast.Name) and x.args[0].id == 'xk']
    if rounding:
        run.fail(F('Q-R12', 'pslq', rounding[0], 'pslq rounds each entry to the working precision (`ctx.mpf(xk)`) '
                   'before converting it to its 60-guard-bit fixed-point format: guard bits supplied by findpoly '
                   'are discarded'))
    else:
        run.ok('Q-R12', 'pslq converts its entries without rounding them to the working precision')


def check_pslq(run, ix):
    f = ix.func(IDENT, 'pslq')
    fn = f.node
    for need in ('tol', 'maxcoeff'):
        if need not in f.params:
            raise AnalysisError('pslq lost its %s parameter' % need)
    rets = [r for r in _walk_own(fn) if isinstance(r, ast.Return)]
    nvec = 0
    for r in rets:
        if r.value is None or (isinstance(r.value, ast.Constant) and r.value.value is None):
            run.ok('Q-R1', 'return None')
            continue
        nvec += 1
        if not isinstance(r.value, ast.Name):
            run.fail(F('Q-R1', 'pslq', r, 'a computed expression is returned instead of the tested vector'))
            continue
        vec = r.value.id
        gates0 = ancestors_if(r, fn)
        # one entry per conjunct of every enclosing test
        gates, tests, conj_nodes = [], [], []
        for g in gates0:
            cs = g.test.values if isinstance(g.test, ast.BoolOp) and isinstance(g.test.op, ast.And) else [g.test]
            for c_ in cs:
                gates.append(g)
                tests.append(cmp_parts(c_))
                conj_nodes.append(c_)
        check_exact_recheck(run, fn, r, vec, gates0, conj_nodes)
        loop = enclosing_for(r, fn)
        ivar = norm(loop.target) if loop is not None else None
        # (b) coefficient bound on exactly this vector, strict
        bound = [t for t in tests if t and t[2] == 'maxcoeff' and t[1] is ast.Lt and
                 t[0].replace(' ', '').replace('((', '(').replace('))', ')') == ('max(abs(v)forvin%s)' % vec)]
        loose = [t for t in tests if t and 'maxcoeff' in (t[0], t[2])]
        if bound:
            run.ok('Q-R1', 'returned vector passed `%s < maxcoeff`' % bound[0][0])
        elif loose:
            run.fail(F('Q-R1', 'pslq', gates[tests.index(loose[0])], 'the coefficient test before returning the '
                       'relation is `%s`, not `max(abs(v) for v in %s) < maxcoeff`: relations with a coefficient '
                       'of magnitude maxcoeff (or an untested vector) are returned' % (norm(gates[tests.index(loose[0])].test, 80), vec)))
        else:
            run.fail(F('Q-R1', 'pslq', r, 'the relation is returned without comparing its coefficients with maxcoeff'))
        # (a) residual gate
        errs = [t for t in tests if t and t[2] == 'tol' and t[1] in (ast.Lt, ast.LtE)]
        if not errs:
            run.fail(F('Q-R1', 'pslq', r, 'the relation is returned without the residual test `err < tol`'))
            continue
        errname = errs[0][0]
        # err = abs(y[i]) assigned in the same loop body before the gate
        edef = None
        if loop is not None:
            for st in loop.body:
                if isinstance(st, ast.Assign) and norm(st.targets[0]) == errname:
                    edef = st
        if edef is None or ivar is None or norm(edef.value) != 'abs(y[%s])' % ivar:
            run.fail(F('Q-R1', 'pslq', gates[tests.index(errs[0])], 'the tested residual `%s` is not |y[%s]| of the '
                       'column that is returned' % (errname, ivar)))
            continue
        run.ok('Q-R1', 'returned vector passed `%s < tol` with %s = abs(y[%s])' % (errname, errname, ivar))
        # (c) the vector is column ivar of B
        vdef = None
        for g in gates:
            for st in g.body:
                if isinstance(st, ast.Assign) and norm(st.targets[0]) == vec:
                    vdef = st
        ok = False
        if vdef is not None and isinstance(vdef.value, ast.ListComp):
            subs = [x for x in ast.walk(vdef.value.elt) if isinstance(x, ast.Subscript) and norm(x.value) == 'B']
            jvar = norm(vdef.value.generators[0].target)
            if len(subs) == 1 and norm(subs[0].slice).replace(' ', '').strip('()') == '%s,%s' % (jvar, ivar):
                ok = True
        if ok:
            run.ok('Q-R1', 'returned vector is column %s of B, the column whose residual was tested' % ivar)
        else:
            run.fail(F('Q-R1', 'pslq', vdef if vdef is not None else r, 'the returned vector is not read from '
                       'column %s of B (the column whose residual y[%s] was tested)' % (ivar, ivar)))
        # integer entries
        if vdef is not None and isinstance(vdef.value, ast.ListComp) and norm(vdef.value.elt).startswith('int('):
            run.ok('Q-R1', 'entries are converted with int()')
        else:
            run.fail(F('Q-R1', 'pslq', vdef if vdef is not None else r, 'entries of the relation are not integers'))
    if nvec == 0:
        raise AnalysisError('pslq: no return of a relation found')
    # ---- Q-R2 ----------------------------------------------------------------------
    conv_tol = conv_x = None
    prec_writes = []
    for st in _walk_own(fn):
        if isinstance(st, ast.Assign) and norm(st.targets[0]) == 'tol' and isinstance(st.value, ast.Call) and \
                norm(st.value.func).endswith('to_fixed'):
            conv_tol = st
        if isinstance(st, ast.Assign) and norm(st.targets[0]) == 'x' and 'to_fixed' in norm(st.value, 300):
            conv_x = st
        if isinstance(st, (ast.Assign, ast.AugAssign)):
            tg = st.targets if isinstance(st, ast.Assign) else [st.target]
            if any(norm(t) == 'prec' for t in tg):
                prec_writes.append(st)
    if conv_tol is None or conv_x is None:
        run.fail(F('Q-R2', 'pslq', 'tol = ctx.to_fixed(tol, prec)', 'tolerance / inputs are not converted to fixed '
                   'point', line=fn.lineno))
    else:
        a = [norm(x) for x in conv_tol.value.args]
        calls = [x for x in ast.walk(conv_x.value) if isinstance(x, ast.Call) and norm(x.func).endswith('to_fixed')]
        b = [norm(x) for x in calls[0].args] if calls else []
        lo, hi = sorted((conv_tol.lineno, conv_x.lineno))
        between = [w for w in prec_writes if lo < w.lineno < hi]
        if a[-1:] == ['prec'] and b[-1:] == ['prec'] and not between:
            run.ok('Q-R2', 'tol and x are both scaled by 2**prec at the same prec')
        else:
            run.fail(F('Q-R2', 'pslq', conv_tol, 'tolerance and inputs are not converted at the same fixed-point '
                       'precision (%s vs %s%s): `err < tol` compares differently scaled numbers'
                       % (a[-1:], b[-1:], ', prec changes in between' if between else '')))
        # both after the last write to prec
        late = [w for w in prec_writes if w.lineno > lo]
        if late:
            run.fail(F('Q-R2', 'pslq', late[0], 'the working precision changes after the tolerance/inputs were scaled'))
        else:
            run.ok('Q-R2', 'no change of prec after the conversions')
        # the tolerance that is converted is the caller's (or the documented default)
        tol_defs = [st for st in _walk_own(fn) if isinstance(st, ast.Assign) and norm(st.targets[0]) == 'tol'
                    and st is not conv_tol]
        okdefs = all(norm(st.value) in ('ctx.convert(tol)',) or
                     (isinstance(getattr(st, '_parent', None), ast.If) and norm(st._parent.test) == 'tol is None')
                     for st in tol_defs)
        if okdefs:
            run.ok('Q-R2', 'tol is the caller\'s value or the documented default')
        else:
            run.fail(F('Q-R2', 'pslq', tol_defs[0], 'the tolerance is modified before it is used as the gate'))
    raises = [x for x in _walk_own(fn) if isinstance(x, ast.Raise)]
    if len(raises) >= 3:
        run.ok('Q-R2', '%d input checks raise' % len(raises))
    else:
        run.fail(F('Q-R2', 'pslq', 'raise ValueError', 'degenerate inputs (n < 2, low precision, zero entries) are '
                   'no longer rejected', line=fn.lineno))


def check_findpoly(run, ix):
    f = ix.func(IDENT, 'findpoly')
    fn = f.node
    calls = [x for x in _walk_own(fn) if isinstance(x, ast.Call) and norm(x.func).endswith('.pslq')]
    if len(calls) != 1:
        raise AnalysisError('findpoly: expected one pslq call')
    c = calls[0]
    if [norm(a) for a in c.args] == ['xs'] and [k.arg for k in c.keywords] == [None] and \
            norm(c.keywords[0].value) == 'kwargs':
        run.ok('Q-R3', 'pslq(xs, **kwargs): the caller\'s tol/maxcoeff are forwarded')
    else:
        run.fail(F('Q-R3', 'findpoly', c, 'pslq is not called as pslq(xs, **kwargs): the caller\'s tolerance or '
                   'coefficient bound is altered'))
    loop = enclosing_for(c, fn)
    if loop is not None and norm(loop.iter) in ('range(1, n + 1)', 'xrange(1, n + 1)'):
        run.ok('Q-R3', 'degree runs over 1..n')
    else:
        run.fail(F('Q-R3', 'findpoly', loop if loop is not None else c, 'the degree loop is not range(1, n+1): a '
                   'polynomial of higher degree than requested can be returned'))
    # xs = [1], append x**i
    ok_xs = False
    for st in _walk_own(fn):
        if isinstance(st, ast.Assign) and norm(st.targets[0]) == 'xs' and isinstance(st.value, ast.List) and \
                len(st.value.elts) == 1 and norm(st.value.elts[0]) in ('ctx.mpf(1)', 'ctx.one', '1'):
            ok_xs = True
    app = [x for x in _walk_own(fn) if isinstance(x, ast.Call) and norm(x.func) == 'xs.append']
    if ok_xs and len(app) == 1 and loop is not None and norm(app[0].args[0]) == 'x ** %s' % norm(loop.target):
        run.ok('Q-R3', 'basis is [1, x, ..., x**i]')
    else:
        run.fail(F('Q-R3', 'findpoly', app[0] if app else fn, 'the vector handed to pslq is not [1, x, ..., x**i]'))
    rets = [r for r in _walk_own(fn) if isinstance(r, ast.Return) and r.value is not None]
    for r in rets:
        if isinstance(r.value, ast.List):
            run.ok('Q-R3', 'constant answer %s for x == 0' % norm(r.value))
            continue
        gates = ancestors_if(r, fn)
        notnone = any(norm(g.test) in ('a is not None', 'a != None') for g in gates)
        if norm(r.value) == 'a[::-1]' and notnone:
            run.ok('Q-R3', 'return a[::-1] under `a is not None`')
        else:
            run.fail(F('Q-R3', 'findpoly', r, 'the returned polynomial is not the reversed pslq relation tested '
                       'for None'))


def check_identify(run, ix):
    f = ix.func(IDENT, 'identify')
    fn = f.node
    adds = [x for x in _walk_own(fn) if isinstance(x, ast.Call) and norm(x.func) == 'addsolution']
    if len(adds) < 2:
        raise AnalysisError('identify: addsolution sites not found')
    defs = {}
    for st in _walk_own(fn):
        if isinstance(st, ast.Assign) and isinstance(st.targets[0], ast.Name):
            defs.setdefault(st.targets[0].id, []).append(st)
    # the (value, name) pairs of a dict of constants come from ONE iteration over its items
    pairs_ok = None
    for st in _walk_own(fn):
        if isinstance(st, ast.Assign) and norm(st.targets[0]) == 'constants' and isinstance(st.value, ast.ListComp):
            gen = st.value.generators[0]
            it = norm(gen.iter)
            if 'constants' in it and ('items()' in it or 'zip(' in it or 'values()' in it or 'keys()' in it):
                if it in ('sorted(constants.items())', 'constants.items()') and isinstance(gen.target, ast.Tuple):
                    pairs_ok = (True, st)
                else:
                    pairs_ok = (False, st)
    if pairs_ok is None:
        raise AnalysisError('identify: normalisation of a dict of constants not found')
    if pairs_ok[0]:
        run.ok('Q-R4', 'dict constants: value and name come from the same item')
    else:
        run.fail(F('Q-R4', 'identify', pairs_ok[1], 'names and values of the constants are not taken from one '
                   'iteration over constants.items(): values can be attached to the wrong names, and the returned '
                   'formula then does not evaluate to x'))
    # M and tol
    mdef = defs.get('M', [])
    if len(mdef) == 1 and norm(mdef[0].value) == 'maxcoeff':
        run.ok('Q-R4', 'M = maxcoeff')
    else:
        run.fail(F('Q-R4', 'identify', mdef[0] if mdef else 'M = maxcoeff', 'the coefficient bound is not the '
                   'caller\'s maxcoeff', line=fn.lineno))
    for c in [x for x in _walk_own(fn) if isinstance(x, ast.Call) and norm(x.func) == 'ctx.pslq']:
        a = [norm(z) for z in c.args]
        if a[1:] == ['tol', 'M']:
            run.ok('Q-R4', 'pslq(..., tol, M)')
        else:
            run.fail(F('Q-R4', 'identify', c, 'pslq is not called with (tol, M)'))
    for a in adds:
        arg = a.args[0]
        # direct form: addsolution(prodstring(r, logs)) under the gate on r
        gates = ancestors_if(a, fn)
        gate_txt = ' and '.join(norm(g.test, 200) for g in gates)
        if isinstance(arg, ast.Call):
            rel = norm(arg.args[0])
            need = ['%s is not None' % rel, 'max((abs(uw) for uw in %s)) <= M' % rel, '%s[0]' % rel]
            need_alt = ['%s is not None' % rel, 'max(abs(uw) for uw in %s) <= M' % rel, '%s[0]' % rel]
            if all(n in gate_txt for n in need) or all(n in gate_txt for n in need_alt):
                run.ok('Q-R4', 'formula from %s added under: %s' % (rel, gate_txt[:90]))
            else:
                run.fail(F('Q-R4', 'identify', a, 'a formula is added without the three tests on the relation '
                           '(%s not None, coefficients <= M, leading coefficient non-zero); tested: %s'
                           % (rel, gate_txt or 'nothing')))
            continue
        # indirect form: addsolution(s) where s was set only in gated branches
        if isinstance(arg, ast.Name):
            sname = arg.id
            sets = [st for st in defs.get(sname, []) if not (isinstance(st.value, ast.Constant) and st.value.value is None)]
            base = [st for st in sets if 'string(' in norm(st.value)]
            if not base:
                run.fail(F('Q-R4', 'identify', a, 'origin of the added formula not found'))
                continue
            for st in base:
                g = ancestors_if(st, fn)
                gt = ' and '.join(norm(x.test, 200) for x in g)
                call = st.value
                rel = norm(call.args[0]) if norm(call.func) == 'pslqstring' else None
                if rel is not None:
                    ok = ('%s is not None' % rel) in gt and ('<= M' in gt) and ('%s[0]' % rel) in gt
                else:
                    # quadratic: q is not None, len 3, q[2] non-zero, max(...) <= M
                    ok = ('is not None' in gt) and ('<= M' in gt) and ('[2]' in gt)
                if ok:
                    run.ok('Q-R4', '%s built under: %s' % (norm(st.targets[0]), gt[:90]))
                else:
                    run.fail(F('Q-R4', 'identify', st, 'the formula string is built from a relation that was not '
                               'tested for None / coefficient bound / non-zero leading coefficient (tested: %s)'
                               % (gt or 'nothing')))
            # the add itself is under `if s:`
            if any(norm(g.test) == sname for g in gates):
                run.ok('Q-R4', 'addsolution(%s) only when a formula was built' % sname)
            else:
                run.fail(F('Q-R4', 'identify', a, 'a formula is added even when none was built'))


def check_templates(run, ix):
    """Q-R5 / Q-R6.  identify pastes strings into templates such as '$y**2/$c**2'.  A placeholder that the
    template raises to a power must be substituted by a power-safe operand (a constant written `e**3` pasted
    into `$c**2` reads e**9), and the linear-relation formula is only built for a relation that involves at
    least one constant besides x (the relation [1, 0, .., 0] says x-transformed is ~0 and prints as '0',
    giving `log(1/0)`)."""
    m = ix.module(IDENT)
    templates = []
    for name, value, st, g in m.toplevel_assigns:
        if name == 'transforms' and isinstance(value, ast.List):
            for e in value.elts:
                if isinstance(e, ast.Tuple) and len(e.elts) == 3 and isinstance(e.elts[1], ast.Constant):
                    templates.append(e.elts[1].value)
    if len(templates) < 20:
        raise AnalysisError('identify: template table not found')
    powered = sorted(set(ph for t in templates for ph in ('$c', '$y') if ph + '**' in t))
    f = ix.func(IDENT, 'identify')
    # substitutions: chains of .replace(a, b) on the template variable
    reps = []
    for x in _walk_own(f.node):
        if isinstance(x, ast.Call) and isinstance(x.func, ast.Attribute) and x.func.attr == 'replace' and \
                len(x.args) == 2 and isinstance(x.args[0], ast.Constant):
            reps.append(x)
    for ph in powered:
        if ph == '$y':
            # $y receives the formula string built by pslqstring / quadraticstring: parenthesised there
            ps = ix.func(IDENT, 'pslqstring')
            wraps = any(isinstance(st, ast.If) and "'+' in s" in norm(st.test) and "'*' in s" in norm(st.test)
                        for st in _walk_own(ps.node))
            if wraps:
                run.ok('Q-R5', "$y: pslqstring parenthesises any formula containing + or *")
            else:
                run.fail(F('Q-R5', 'pslqstring', 'return s', 'the linear formula is not parenthesised before it is '
                           'pasted into templates that raise it to a power', line=ps.lineno))
            continue
        # every substitution chain that replaces '$c' must first replace '$c**' by a power-safe operand
        chains = [x for x in reps if x.args[0].value == ph]
        if not chains:
            raise AnalysisError('identify: substitution of %s not found' % ph)
        for x in chains:
            inner = x.func.value
            ok = False
            cur = inner
            while isinstance(cur, ast.Call) and isinstance(cur.func, ast.Attribute) and cur.func.attr == 'replace':
                if isinstance(cur.args[0], ast.Constant) and cur.args[0].value == ph + '**' and \
                        '_operand(' in norm(cur.args[1]) and 'True' in norm(cur.args[1]):
                    ok = True
                cur = cur.func.value
            if ok:
                run.ok('Q-R5', "%s** is substituted by a power-safe operand before %s" % (ph, ph))
            else:
                run.fail(F('Q-R5', 'identify', x, 'templates %s raise %s to a power, but the name is pasted as it is: '
                           'a constant written as a power or a product changes its meaning (e**3**2 is e**9)'
                           % ([t for t in templates if ph + '**' in t], ph)))
    # Q-R6: pslqstring only for relations involving a constant
    for st in _walk_own(f.node):
        if isinstance(st, ast.Assign) and isinstance(st.value, ast.Call) and norm(st.value.func) == 'pslqstring':
            rel = norm(st.value.args[0])
            gt = ' and '.join(norm(g.test, 200) for g in ancestors_if(st, f.node))
            if 'any(%s[1:])' % rel in gt:
                run.ok('Q-R6', 'linear formula only for a relation with a non-zero constant coefficient')
            else:
                run.fail(F('Q-R6', 'identify', st, 'the linear formula is built even for the relation [k, 0, .., 0] '
                           '(transformed x ~ 0), which prints as "0" and yields formulas such as log(1/0)'))


def check_norm_exit(run, ix):
    """Q-R7.  pslq gives up (returns None) once a lower bound `norm` on the size of any remaining relation reaches
    maxcoeff.  The bound 1/max|H| holds for the EUCLIDEAN norm of a relation, while maxcoeff limits its LARGEST
    coefficient; a relation with n coefficients just below maxcoeff has Euclidean norm up to sqrt(n)*maxcoeff.  The
    bound must therefore be reduced by a factor >= sqrt(n) (the code divides by 100, enough for n <= 10^4) before
    it is compared with maxcoeff -- otherwise existing admissible relations are declared impossible."""
    f = ix.func(IDENT, 'pslq')
    exits = [x for x in _walk_own(f.node) if isinstance(x, ast.If) and len(x.body) == 1 and
             isinstance(x.body[0], ast.Break) and isinstance(x.test, ast.Compare) and
             norm(x.test.comparators[0]) == 'maxcoeff' and isinstance(x.test.ops[0], (ast.GtE, ast.Gt))]
    if len(exits) != 1:
        raise AnalysisError('pslq: norm-bound exit not found')
    ex = exits[0]
    bound = norm(ex.test.left)
    margin = 1
    for x in _walk_own(f.node):
        if isinstance(x, ast.AugAssign) and norm(x.target) == bound and x.lineno < ex.lineno:
            if isinstance(x.op, (ast.FloorDiv, ast.Div)) and isinstance(x.value, ast.Constant):
                margin *= x.value.value
            elif isinstance(x.op, ast.RShift) and isinstance(x.value, ast.Constant):
                margin *= 2 ** x.value.value
            elif isinstance(x.op, (ast.FloorDiv, ast.Div)) and 'n' in {n_.id for n_ in ast.walk(x.value) if isinstance(n_, ast.Name)}:
                margin = float('inf')
    if margin >= 10:
        run.ok('Q-R7', 'norm bound reduced by %s before the comparison with maxcoeff (covers sqrt(n) for n <= %s)'
               % (margin, margin * margin if margin != float('inf') else 'any'))
    else:
        run.fail(F('Q-R7', 'pslq', ex, 'the Euclidean lower bound `%s` is compared with the max-coefficient limit without '
                   'a margin >= sqrt(n) (found factor %s): relations with several coefficients near maxcoeff exist '
                   'although pslq reports that none can' % (bound, margin)))


def check_self_delegation(run, ix):
    """Q-R8.  identify(x) for x < 0 calls itself on -x.  The recursive call must forward every option of the
    caller (constants, tol, maxcoeff, full, verbose): a dropped `tol` silently searches with the default tolerance
    and returns -(...) formulas that miss x by far more than the caller allowed."""
    for name in ('identify', 'findpoly', 'pslq'):
        f = ix.func(IDENT, name)
        params = f.params[1:]          # without ctx
        for c in _walk_own(f.node):
            if isinstance(c, ast.Call) and norm(c.func) == 'ctx.%s' % name:
                given = {}
                for i, a in enumerate(c.args):
                    if i < len(params):
                        given[params[i]] = a
                for k in c.keywords:
                    if k.arg:
                        given[k.arg] = k.value
                missing = [p for p in params[1:] if not (p in given and isinstance(given[p], ast.Name) and given[p].id == p)]
                if missing:
                    run.fail(F('Q-R8', name, c, 'the recursive call does not forward %s of the caller: the recursion runs '
                               'with the default instead of what the caller asked for' % missing))
                else:
                    run.ok('Q-R8', '%s: recursive call forwards %s' % (name, params[1:]))


def check_constant_operands(run, ix):
    """Q-R14 (fourth C35 hunt; repair 2a37a65).  The names of the base constants are spliced into the returned formula as
    operands of * and /.  A name that is itself a formula (`e+1`, which the docstring allows for lists and for dicts)
    must be parenthesised first -- identify(3/(e+1), {'e+1': e+1}) returned '3/e+1' -- and the internal check cannot see
    it, because it substitutes the VALUES of dict names.  Decided: every comprehension in identify that builds the list
    of (value, name) pairs passes the name through `_operand(...)`.  Q-R15 (repair 2e267a9): a pslq call inside the
    transform loop whose vector contains a power of the transformed value stands in a try that catches ValueError (t**2
    below pslq's fixed-point resolution raised out of identify for ordinary x above 150 bits)."""
    f = ix.func(IDENT, 'identify')
    n = 0
    for a in _walk_own(f.node):
        if not (isinstance(a, ast.Assign) and norm(a.targets[0]) == 'constants' and isinstance(a.value, ast.ListComp)):
            continue
        elt = a.value.elt
        if not (isinstance(elt, ast.Tuple) and len(elt.elts) == 2):
            continue
        n += 1
        nm = elt.elts[1]
        if isinstance(nm, ast.Call) and norm(nm.func) == '_operand':
            run.ok('Q-R14', 'names of the constants are made operands: `%s`' % norm(a, 70))
        else:
            run.fail(Finding('Q-R14', IDENT, f.qualname, norm(a),
                             'the name of a constant goes into the formulas as it is: for a name that is a formula the '
                             'returned string means something else (identify(3/(e+1), {\'e+1\': e+1}) returned \'3/e+1\' = 2.10 '
                             'for x = 0.81), and the internal check substitutes the value of the name', line=a.lineno))
    if n < 2:
        raise AnalysisError('identify: the (value, name) lists of the constants were not found (%d)' % n)
    m = 0
    for c in _walk_own(f.node):
        if not (isinstance(c, ast.Call) and norm(c.func).endswith('.pslq') and c.args and isinstance(c.args[0], ast.List)):
            continue
        if not any(isinstance(e, ast.BinOp) and isinstance(e.op, ast.Pow) for e in c.args[0].elts):
            continue
        m += 1
        ok = False
        p_ = c
        while p_ is not f.node:
            par = p_._parent
            if isinstance(par, ast.Try) and any(p_ is b or any(p_ is y for y in ast.walk(b)) for b in par.body):
                for h in par.handlers:
                    names = [norm(x) for x in (h.type.elts if isinstance(h.type, ast.Tuple) else [h.type])] if h.type is not None else ['BaseException']
                    if set(names) & {'ValueError', 'Exception', 'BaseException'}:
                        ok = True
            p_ = par
        if ok:
            run.ok('Q-R15', '`%s` runs under a handler for ValueError' % norm(c, 50))
        else:
            run.fail(Finding('Q-R15', IDENT, f.qualname, norm(c),
                             'pslq raises ValueError when an entry is zero in its fixed point, and the square of a transformed '
                             'value t with tol <= t < 2^-((prec+60)/2) is: identify(mpf(\'80.123456789\')) at 50 digits raises '
                             'instead of returning None or a formula', line=c.lineno))
    if m < 1:
        raise AnalysisError('identify: quadratic pslq attempt not found')


def run(run, ix, tier):
    run.explanation = (
        'pslq, findpoly and identify promise properties of what they RETURN (bounded integer coefficients, '
        'residual below the tolerance, degree bound, formulas that involve x).  Each promise is enforced by a '
        'test between the computation and the return; the check proves from the source that every returned '
        'value is dominated by the right test on the right object (the same vector, the same column index, the '
        'caller\'s tolerance and bound, like-scaled fixed-point numbers).  Whether the PSLQ iteration finds a '
        'relation, and the accuracy of its fixed-point arithmetic, are numerical and not decided.')
    run.assumptions = ['y[i] is the residual of column i of B (PSLQ invariant maintained by the iteration: not decided; '
                       'since repair 171b123 the returned vector is re-checked against the input, rule Q-R9, so the '
                       'invariant is no longer needed for the bound)',
                       'sqrt_fixed and to_fixed are accurate to one unit of the 2**-(prec+60) format']
    run.trusted = []
    run.rule('Q-R1', floor=5)
    run.rule('Q-R9', floor=3)
    run.rule('Q-R2', floor=4)
    run.rule('Q-R3', floor=5)
    run.rule('Q-R4', floor=6)
    check_pslq(run, ix)
    check_findpoly(run, ix)
    check_identify(run, ix)
    run.rule('Q-R5', floor=2)
    run.rule('Q-R6', floor=1)
    check_templates(run, ix)
    run.rule('Q-R7', floor=1)
    run.rule('Q-R8', floor=1)
    check_norm_exit(run, ix)
    check_self_delegation(run, ix)
    run.rule('Q-R10', floor=2)
    run.rule('Q-R11', floor=6)
    run.rule('Q-R12', floor=2)
    run.rule('Q-R13', floor=3)
    check_scaling(run, ix)
    check_formula_verified(run, ix)
    check_findpoly_guard(run, ix)
    check_total_strings(run, ix)
    run.rule('Q-R14', floor=2, desc='names of base constants are parenthesised before they are spliced into formulas')
    run.rule('Q-R15', floor=1, desc='the quadratic pslq attempt of identify cannot raise out of it')
    check_constant_operands(run, ix)
