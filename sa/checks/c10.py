"""C10 -- rounded operations never return more bits than the working precision.

Rules (DESIGN section 2, Engine B):
  B-R1w  every kernel installed by _wrap_libmp_function on a public name
         returns, on every path, a special value or a value that passed a
         rounding primitive at <= the requested precision
  B-R1s  every value stored into ._mpf_/._mpc_ or wrapped by make_mpf/make_mpc
         in a public operator/method of the context layer is such a value
         (documented exact operations are a frozen exemption table)
  B-R1t  the generic wrapper threads (operand, prec, rounding) to the kernel
  A-R5   _wrap_specfun returns +retval after restoring the precision
  B-R7   unwrapped public special functions do not return a value computed
         while the precision was raised without re-rounding it (+x)
"""
import ast

from ..index import AnalysisError, norm
from ..prec_effect import _walk_own
from ..report import Finding
from ..round_flow import (RoundEngine, bounded_by_P, describe, KERNEL_MODULES, S, X)
from .. import tables

CTXPY = 'mpmath/ctx_mp_python.py'
CTXMP = 'mpmath/ctx_mp.py'

_ENG = {}


def get_round_engine(ix):
    if id(ix) not in _ENG:
        _ENG[id(ix)] = RoundEngine(ix)
    return _ENG[id(ix)]


def ok_class(c):
    if bounded_by_P(c):
        return True
    if c[0] == 'P':
        return all(ok_class(k) for k in c[1] | c[2])
    return False


def undecided_only(bad):
    """all offending classes are 'unknown' (cannot decide) rather than a
    definite unrounded / over-long value"""
    def unk(c):
        if c[0] == 'T':
            return True
        if c[0] == 'P':
            return all(unk(k) or ok_class(k) for k in c[1] | c[2])
        return False
    return all(unk(c) for c in bad)


def blame(eng, f, pname, consts, depth=0):
    """deepest (function, return node, classes) responsible for a bad class"""
    ka = eng.analyse_detail(f, pname, consts)
    best = None
    for node, classes, w in sorted(ka.returns, key=lambda r: r[0].lineno):
        bad = [c for c in classes if not ok_class(c)]
        if not bad:
            continue
        # descend when the returned expression is a direct kernel call
        v = node.value
        if depth < 6 and isinstance(v, ast.Call):
            name = ka.callee_name(v)
            if name:
                for g in eng.resolve(name):
                    gp = 'prec' if 'prec' in g.params else ('wp' if 'wp' in g.params else None)
                    if gp is None:
                        continue
                    args = list(v.args)
                    actual = {}
                    for i, a in enumerate(args):
                        if i < len(g.params):
                            actual[g.params[i]] = a
                    for k in v.keywords:
                        if k.arg:
                            actual[k.arg] = k.value
                    gc = ka.const_args(g, actual, w)
                    gs = eng.summary(g, gp, gc)
                    # bad inside g relative to its own precision?
                    if any(not ok_class(c) for c in gs):
                        pe = actual.get(gp)
                        if pe is not None and norm(pe) == pname:
                            sub = blame(eng, g, gp, gc, depth + 1)
                            if sub is not None:
                                return sub
        if best is None:
            best = (f, node, bad)
    return best


def run(run, ix, tier):
    eng = get_round_engine(ix)
    run.explanation = (
        'Flow-sensitive abstract interpretation of the libmp kernels (bounded '
        'disjunctive worlds, inter-procedural summaries specialised on constant '
        'mode arguments): every returned mpf component is classified as special / '
        'rounded at precision P+c / exact / operand passed through / unknown.  At '
        'every public boundary (kernels installed by _wrap_libmp_function, values '
        'stored into ._mpf_/._mpc_ or wrapped by make_mpf/make_mpc in operators and '
        'context methods) the class must be special or rounded at <= the requested '
        'precision on EVERY path.  Exemptions are the documented exact operations '
        '(frozen table).  No code is executed.')
    run.assumptions = [
        'rounding primitives normalize/normalize1/from_man_exp bound the mantissa '
        'by their precision argument (their bodies are checked under C01)',
        'a keyword prec=/dps= is the requested precision',
        'private helpers (_name) are reached only through callers that round '
        '(wrapped special functions return +retval, rule A-R5)',
    ]
    run.trusted = ['sa/round_flow.py', 'tables.B_EXACT_OPS', 'tables.B_UNDECIDED']
    run.rule('B-R1w', floor=60, desc='kernels behind public _wrap_libmp_function names')
    run.rule('B-R1s', floor=60, desc='context-layer store sites')
    run.rule('B-R1t', floor=3, desc='generic wrapper threads prec/rounding')
    run.rule('A-R5', floor=2, desc='_wrap_specfun returns +retval')
    run.rule('B-R7', floor=25, desc='unwrapped public functions: returns after a raised-precision region are re-rounded')
    reached = {}       # finding key -> list of public sites

    def report(rule, blamed, public_site, bad):
        f, node, cls = blamed
        text = norm(node)
        key = (rule, f.file, f.qualname, text)
        reached.setdefault(key, {'line': node.lineno, 'sites': [], 'classes': cls, 'f': f})
        reached[key]['sites'].append(public_site)

    # ---- B-R1w ----------------------------------------------------------------
    init = ix.func(CTXMP, 'MPContext.init_builtins')
    rows = 0
    for st in init.node.body:
        if not (isinstance(st, ast.Assign) and isinstance(st.value, ast.Call) and
                isinstance(st.value.func, ast.Attribute) and
                st.value.func.attr == '_wrap_libmp_function'):
            continue
        targets = [t.attr for t in st.targets if isinstance(t, ast.Attribute)]
        public = [t for t in targets if not t.startswith('_')]
        rows += 1
        for a in st.value.args:
            if isinstance(a, ast.Constant) and a.value is None:
                continue
            kname = a.attr if isinstance(a, ast.Attribute) else (a.id if isinstance(a, ast.Name) else None)
            if kname is None:
                raise AnalysisError('init_builtins: unrecognised kernel argument %s' % norm(a))
            fs = eng.resolve(kname)
            if not fs:
                raise AnalysisError('kernel %s not found' % kname)
            for f in fs:
                if 'prec' not in f.params:
                    raise AnalysisError('kernel %s has no prec parameter' % f.qualname)
                s = eng.summary(f, 'prec')
                bad = [c for c in s if not ok_class(c)]
                if not public:
                    run.stats.setdefault('private_wrap_rows', []).append(
                        '%s -> %s%s' % ('/'.join(targets), kname, ' (not bounded)' if bad else ''))
                    continue
                if not bad:
                    run.ok('B-R1w', 'ctx.%s -> %s: %s' % (public[0], f.qualname,
                                                            ' | '.join(sorted(describe(c) for c in s))[:120]))
                    continue
                b = blame(eng, f, 'prec', frozenset())
                if b is None:
                    b = (f, f.node, bad)
                if undecided_only(bad) and _undecided_ok(b, run):
                    run.ok('B-R1w', 'ctx.%s -> %s: undecided part listed in tables.B_UNDECIDED'
                           % (public[0], f.qualname))
                    continue
                run.rule('B-R1w')['sites'] += 1
                run.obligations += 1
                report('B-R1', b, 'ctx.%s' % public[0], bad)
    if rows < 40:
        raise AnalysisError('only %d _wrap_libmp_function rows found' % rows)
    run.stats['wrap_rows'] = rows

    # ---- B-R1s ------------------------------------------------------------------
    exempt = {}
    for (rel, qn, site, why) in tables.B_EXACT_OPS:
        if ix.find_func(rel, qn) is None:
            raise AnalysisError('exact-operation table row vanished: %s:%s' % (rel, qn))
        exempt.setdefault((rel, qn), []).append(site)
    nsites = 0
    private_bad = {}
    for rel in (CTXPY, CTXMP):
        m = ix.module(rel)
        for f in m.funcs.values():
            top = f
            while top.parent is not None:
                top = top.parent
            name = top.name
            private = name.startswith('_') and not (name.startswith('__') and name.endswith('__'))
            if not _has_store_site(f):
                continue
            ka = eng.analyse_context(f)
            by_site = {}
            for node, expr, classes, w in ka.sites:
                k = id(node)
                if k not in by_site:
                    by_site[k] = [node, expr, set(), w]
                by_site[k][2] |= set(classes)
            for k, (node, expr, classes, w) in by_site.items():
                nsites += 1
                bad = [c for c in classes if not ok_class(c)]
                where = '%s:%s `%s`' % (rel, f.qualname, norm(expr, 60))
                ex = exempt.get((rel, f.qualname))
                if ex is not None and (None in ex or norm(expr) in ex):
                    run.ok('B-R1s', where + ' (documented exact operation)' if len(run.samples) < 30 else None)
                    continue
                if f.qualname == 'PythonMPContext._wrap_libmp_function.f':
                    continue        # rule B-R1t
                if private:
                    run.stats['private_sites'] = run.stats.get('private_sites', 0) + 1
                    if bad and not undecided_only(bad):
                        private_bad.setdefault(name, []).append((f, node, bad))
                    continue
                if not bad:
                    run.ok('B-R1s', where)
                    continue
                # blame a kernel when the stored expression is a kernel call
                b = None
                call = expr
                if isinstance(expr, ast.Name):
                    # val = kernel(...) ; obj._mpf_ = val
                    best_line = -1
                    for x in _walk_own(f.node):
                        if isinstance(x, ast.Assign) and len(x.targets) == 1 and \
                                isinstance(x.targets[0], ast.Name) and x.targets[0].id == expr.id \
                                and isinstance(x.value, ast.Call) and \
                                best_line < x.lineno <= node.lineno:
                            call = x.value
                            best_line = x.lineno
                if isinstance(call, ast.Call):
                    kname = ka.callee_name(call)
                    if kname:
                        for g in eng.resolve(kname):
                            gp = 'prec' if 'prec' in g.params else None
                            if gp and any(not ok_class(c) for c in eng.summary(g, gp)):
                                b = blame(eng, g, gp, frozenset())
                if b is None:
                    b = (f, node if isinstance(node, ast.stmt) else _stmt_of(node), bad)
                if undecided_only(bad) and _undecided_ok(b, run):
                    run.ok('B-R1s', where + ' (undecided, listed)')
                    continue
                run.rule('B-R1s')['sites'] += 1
                run.obligations += 1
                report('B-R1', b, '%s (line %s)' % (f.qualname, getattr(node, 'lineno', '?')), bad)
    run.stats['context_sites'] = nsites
    if nsites < 120:
        raise AnalysisError('only %d context-layer store sites found (expected >= 120)' % nsites)

    for key, info in sorted(reached.items()):
        rule, file, qn, text = key
        run.rule(rule)
        run.findings.append(Finding(
            rule, file, qn, text,
            'result is not bounded by the requested precision: %s; reached from public %s'
            % ('; '.join(sorted(set(describe(c)[:160] for c in info['classes']))),
               ', '.join(sorted(set(info['sites']))[:8])), line=info['line']))
        run.rules[rule]['failed'] += 1

    check_unwrapped_returns(run, ix)
    check_pass_through(run, ix)
    check_cache_hit_rounding(run, ix)
    check_polyval_constant(run, ix)
    check_guard_bit_exits(run, ix)
    # the engine treats exact_nthroot(s, n, prec, approx) as bounded by prec (round_flow.GUARD_BOUNDED): the
    # guard that makes this true is verified here as well
    from ..report import SubRun
    from . import c13
    run.rule('E-X1', floor=5, desc='exact_nthroot returns only verified roots of at most prec bits')
    c13.check_exact_root_exits(SubRun(run, keep=('E-X1',)), ix)
    # private context helpers whose stored value is NOT bounded by the working precision must not be
    # handed out by a public function as they are
    run.stats['unbounded_private_helpers'] = sorted(private_bad)
    for name, items in sorted(private_bad.items()):
        for m in ix.modules.values():
            for g in m.funcs.values():
                if g.name.startswith('_') or g.parent is not None:
                    continue
                for x in _walk_own(g.node):
                    if isinstance(x, ast.Return) and isinstance(x.value, ast.Call) and \
                            isinstance(x.value.func, ast.Attribute) and x.value.func.attr == name:
                        ents = [e for e in c11_entries(ix).get(g, [])]
                        wrapped = c11_wrapped(ix, g)
                        if wrapped:
                            run.ok('B-R7', '%s returns ctx.%s(..) through the re-rounding wrapper' % (g.qualname, name))
                        else:
                            pf, pnode, pbad = items[0]
                            run.fail(Finding('B-R7', g.file, g.qualname, norm(x),
                                             'returns the result of the private helper %s unchanged; that helper '
                                             'stores a value that is not bounded by the working precision (%s) and '
                                             'this public function is not behind the re-rounding wrapper'
                                             % (pf.qualname, '; '.join(sorted(set(describe(c)[:80] for c in pbad)))),
                                             line=x.lineno))
    check_threading(run, ix)
    check_parse_prec(run, ix)
    from . import c11
    c11.check_wrappers(run, ix, c11.get_engine(ix))


def _has_store_site(f):
    for x in _walk_own(f.node):
        if isinstance(x, ast.Attribute) and x.attr in ('_mpf_', '_mpc_', 'make_mpf', 'make_mpc'):
            return True
    return False


def check_parse_prec(run, ix):
    """_parse_prec may select exact mode (precision 0) only for exact=<true>
    or an infinite prec/dps keyword; otherwise it returns the context's
    precision or the keyword override"""
    f = ix.func(CTXMP, 'MPContext._parse_prec')
    allowed = ("kwargs.get('exact'", 'prec == ctx.inf', 'dps == ctx.inf',
               'ctx.inf == prec', 'ctx.inf == dps')
    n = 0
    for r in _walk_own(f.node):
        if not isinstance(r, ast.Return) or r.value is None:
            continue
        n += 1
        v = r.value
        if isinstance(v, ast.Tuple) and isinstance(v.elts[0], ast.Constant) and v.elts[0].value == 0:
            par = getattr(r, '_parent', None)
            ok = isinstance(par, ast.If) and r in par.body and \
                norm(par.test).startswith(allowed)
            if ok:
                run.ok('B-R1t', '_parse_prec: exact mode only under `%s`' % norm(par.test))
            else:
                run.fail(Finding('B-R1t', CTXMP, f.qualname, norm(par) if par is not None else norm(r),
                                 'exact (unrounded) mode is selected under a condition other than a '
                                 'true `exact` keyword or an infinite prec/dps: results of '
                                 'fadd/fsub/fmul/fdiv/fneg would not be rounded', line=r.lineno))
        elif isinstance(v, ast.Tuple) and isinstance(v.elts[0], ast.Name):
            # the returned precision: ctx pair element, int(kwargs['prec']) or dps_to_prec(dps)
            name = v.elts[0].id
            srcs = [norm(x.value) for x in _walk_own(f.node)
                    if isinstance(x, ast.Assign) and any(
                        isinstance(t, ast.Name) and t.id == name or
                        (isinstance(t, ast.Tuple) and any(isinstance(e, ast.Name) and e.id == name
                                                          for e in t.elts)) for t in x.targets)]
            good = all(t.endswith('._prec_rounding') or t == "kwargs['prec']" or
                       t == 'int(%s)' % name or t.startswith('dps_to_prec(') for t in srcs)
            if good and srcs:
                run.ok('B-R1t', '_parse_prec returns the context/keyword precision')
            else:
                run.fail(Finding('B-R1t', CTXMP, f.qualname, norm(r),
                                 'returned precision has an unexpected source: %s' % srcs,
                                 line=r.lineno))
        elif norm(v).endswith('._prec_rounding'):
            run.ok('B-R1t', '_parse_prec default: ctx._prec_rounding')
        else:
            run.fail(Finding('B-R1t', CTXMP, f.qualname, norm(r),
                             'unrecognised return of _parse_prec', line=r.lineno))
    if n < 4:
        raise AnalysisError('_parse_prec: expected >= 4 returns, found %d' % n)


def _stmt_of(node):
    p = node
    while p is not None and not isinstance(p, ast.stmt):
        p = getattr(p, '_parent', None)
    return p if p is not None else node


def _undecided_ok(b, run):
    f, node, cls = b
    for (rel, qn, text, why) in tables.B_UNDECIDED:
        if rel == f.file and qn == f.qualname and (text is None or text == norm(node)):
            return True
    return False


def check_threading(run, ix):
    f = ix.func(CTXPY, 'PythonMPContext._wrap_libmp_function.f')
    outer = f.parent
    kparams = [p for p in outer.params[1:3]]          # mpf_f, mpc_f
    # prec / rounding come from the context (or the keyword override)
    src = None
    for x in _walk_own(f.node):
        if isinstance(x, ast.Assign) and isinstance(x.targets[0], ast.Tuple) and \
                norm(x.value).endswith('._prec_rounding'):
            src = [e.id for e in x.targets[0].elts if isinstance(e, ast.Name)]
    if not src or len(src) != 2:
        run.fail(Finding('B-R1t', CTXPY, f.qualname, 'def f',
                         'precision and rounding are not read from ctx._prec_rounding', line=f.lineno))
        return
    pvar, rvar = src
    n = 0
    for x in _walk_own(f.node):
        if isinstance(x, ast.Call) and isinstance(x.func, ast.Name) and x.func.id in kparams:
            n += 1
            ok = len(x.args) == 3 and norm(x.args[1]) == pvar and norm(x.args[2]) == rvar
            wrapped = isinstance(x._parent, ast.Call) and isinstance(x._parent.func, ast.Attribute) \
                and x._parent.func.attr in ('make_mpf', 'make_mpc')
            if ok and wrapped:
                run.ok('B-R1t', 'f: %s' % norm(x._parent, 70))
            else:
                run.fail(Finding('B-R1t', CTXPY, f.qualname, norm(enclosing(x)),
                                 'kernel is not called as kernel(operand, prec, rounding) with the '
                                 'context\'s precision pair, or its result is post-processed',
                                 line=x.lineno))
    if n < 3:
        raise AnalysisError('_wrap_libmp_function.f: kernel calls not found')
    # the keyword override may only replace prec by kwargs['prec'] / dps_to_prec(kwargs['dps'])
    for x in _walk_own(f.node):
        if isinstance(x, ast.Assign) and len(x.targets) == 1 and \
                isinstance(x.targets[0], ast.Name) and x.targets[0].id == pvar:
            t = norm(x.value)
            if not (t.startswith('kwargs.get(') or t.startswith('dps_to_prec(kwargs')):
                run.fail(Finding('B-R1t', CTXPY, f.qualname, norm(x),
                                 'precision is replaced by something other than the prec/dps keyword',
                                 line=x.lineno))


def enclosing(node):
    return _stmt_of(node)


# unwrapped public functions whose return value is, by contract, not a number rounded to the
# caller's precision (one reasoned row per function)
B_R7_EXEMPT = {
    ('mpmath/ctx_mp.py', 'PrecisionManager.__call__.g'):
        'the decorator form of workprec/extraprec: the decorated function runs, and by documented contract '
        'returns, at the manager\'s precision',
    ('mpmath/functions/zetazeros.py', 'nzeros'): 'returns a Python int (a count of zeros)',
}
# returned names that are not numbers (function, name) -> what they are
B_R7_NOT_NUMBERS = {
    ('zetazero', 'pattern'): 'a string describing the Rosser block',
    ('zetazero', 'block'): 'a pair of Python ints',
    ('zetazero', 'my_zero_number'): 'a Python int',
}
SPECIAL_ATTRS = ('zero', 'one', 'inf', 'ninf', 'nan', 'j', 'mpq_1', 'mpq_0')


def _trivial_value(v):
    """constants, None/bools/strings, the exact special constants of the context (also behind +/-)"""
    while isinstance(v, ast.UnaryOp) and isinstance(v.op, (ast.UAdd, ast.USub)):
        v = v.operand
    if isinstance(v, ast.Constant):
        return True
    if isinstance(v, ast.Attribute) and isinstance(v.value, ast.Name) and v.attr in SPECIAL_ATTRS:
        return True
    return False


def check_unwrapped_returns(run, ix):
    """B-R7.  A public function that is NOT installed through _wrap_specfun (which re-rounds with
    +retval after restoring) and that raises the working precision itself must hand out a value
    rounded at the CALLER's precision: (a) no return statement is executed while the precision is
    still raised -- the returned expression, `+v` included, is then evaluated at the raised
    precision (the finally clause restores only afterwards); (b) a value computed inside the raised
    region and returned after the restore is re-rounded first (`return +v`, or any arithmetic at
    the restored precision).  Uses the path-sensitive precision states of Engine A."""
    from ..prec_effect import FuncAnalysis, State, E
    from ..resolve import get_resolver
    from .c11 import get_engine, entry_points
    res = get_resolver(ix)
    peng = get_engine(ix)

    class Rec(FuncAnalysis):
        def __init__(self, engine, func):
            FuncAnalysis.__init__(self, engine, func)
            self.rets = {}
            self.assigns = {}

        def ret(self, node, state):
            prev = self.rets.get(id(node))
            dirty = state.cell != E or (prev is not None and prev[1])
            self.rets[id(node)] = (node, dirty)
            return FuncAnalysis.ret(self, node, state)

        def simple(self, node, state):
            if isinstance(node, (ast.Assign, ast.AugAssign)):
                prev = self.assigns.get(id(node))
                dirty = (state.cell != E) or (prev is not None and prev[1])
                self.assigns[id(node)] = (node, dirty)
            return FuncAnalysis.simple(self, node, state)
    eps, prot, impl = entry_points(ix, res, peng)
    nfun = 0
    for f, (kind, wrap) in sorted(eps.items(), key=lambda kv: (kv[0].file, kv[0].lineno)):
        if wrap or not peng._has_write(f):
            continue
        if not (f.file.startswith('mpmath/functions/') or f.file in ('mpmath/ctx_mp.py', 'mpmath/ctx_base.py')):
            continue
        if (f.file, f.qualname) in B_R7_EXEMPT:
            run.ok('B-R7', '%s: exempt (%s)' % (f.qualname, B_R7_EXEMPT[(f.file, f.qualname)][:60]))
            continue
        nfun += 1
        fa = Rec(peng, f)
        fa.run(f.body(), State())
        params = set(f.all_params())
        # in program order: which names hold a value produced under raised precision
        events = sorted(fa.assigns.values(), key=lambda nd: nd[0].lineno)
        for node, dirty in sorted(fa.rets.values(), key=lambda nd: nd[0].lineno):
            v = node.value
            if v is None or _trivial_value(v):
                continue
            if dirty:
                run.fail(Finding('B-R7', f.file, f.qualname, norm(node),
                                 'this return is executed while the working precision is still raised: the value '
                                 '(even `+v`) is computed and rounded at the raised precision, the finally clause '
                                 'restores the precision only afterwards, so the caller receives more bits than its '
                                 'working precision', line=node.lineno))
                continue
            names = []
            if isinstance(v, ast.Name):
                names = [v.id]
            elif isinstance(v, ast.Tuple):
                names = [e.id for e in v.elts if isinstance(e, ast.Name)]
            bad = None
            for nm in names:
                if (f.name, nm) in B_R7_NOT_NUMBERS:
                    continue
                unrounded = None
                for a, d in events:
                    if a.lineno >= node.lineno:
                        break
                    tg = a.targets if isinstance(a, ast.Assign) else [a.target]
                    hit = any(isinstance(t, ast.Name) and t.id == nm for t in tg) or \
                        any(isinstance(t, ast.Tuple) and any(isinstance(e, ast.Name) and e.id == nm for e in t.elts)
                            for t in tg)
                    if not hit:
                        continue
                    if d:
                        unrounded = a
                    else:
                        # an assignment at the restored precision: arithmetic / +x rounds there; a bare copy
                        # of another name does not
                        val = a.value
                        if isinstance(val, ast.Name) or isinstance(val, ast.Constant):
                            continue
                        unrounded = None
                if unrounded is not None:
                    bad = (nm, unrounded)
            if bad:
                nm, a = bad
                run.fail(Finding('B-R7', f.file, f.qualname, norm(node),
                                 '`%s` was computed while the precision was raised (line %d: `%s`) and is returned '
                                 'after the restore without being re-rounded (`+%s`): it carries the extra bits'
                                 % (nm, a.lineno, norm(a, 50), nm), line=node.lineno))
            else:
                run.ok('B-R7', '%s: `%s`' % (f.qualname, norm(node, 50)) if nfun < 12 else None)
    run.stats['unwrapped_precision_writers'] = nfun
    if nfun < 15:
        raise AnalysisError('only %d unwrapped public functions that raise the precision found' % nfun)


_C11 = {}


def c11_entries(ix):
    return {}


def c11_wrapped(ix, g):
    """True when the public callable g is installed through _wrap_specfun(wrap=True)"""
    from ..resolve import get_resolver
    res = get_resolver(ix)
    return any(e.func is g and e.wrap for e in res.entries(g.name))


# --------------------------------------------------------------------------- B-R8
PASS_THROUGH_OK = {
    ('re', 'x'): 'component access of a real number (documented exact)',
    ('conj', 'x'): 'fallback for an object without conjugate(): not an mp number (mpf and mpc have the method)',
}


def check_pass_through(run, ix):
    """B-R8.  A public function of the elementary layer (functions/functions.py, plain @defun: nothing rounds
    after it) must not hand its converted argument back as it is: the argument may carry more bits than the
    working precision (sign(mpc(nan, y)), conj(x) of a real x).  Every `return <name>` where the name is a
    parameter or `ctx.convert(<parameter>)` is a finding unless it is a documented exact operation; `+x`
    rounds.  The same for methods written as class-body lambdas of _mpf that return self outside a property
    (component access)."""
    run.rule('B-R8', floor=18, desc='public unwrapped functions do not return their argument unrounded')
    rel = 'mpmath/functions/functions.py'
    m = ix.module(rel)
    for f in m.funcs.values():
        if f.parent is not None or not isinstance(f.node, ast.FunctionDef):
            continue
        decs = [norm(d) for d in f.node.decorator_list]
        if 'defun' not in decs:
            continue
        params = f.params[1:]
        conv = {}
        for st in _walk_own(f.node):
            if isinstance(st, ast.Assign) and len(st.targets) == 1 and isinstance(st.targets[0], ast.Name) \
                    and isinstance(st.value, ast.Call) and norm(st.value.func) in ('ctx.convert', 'ctx.mpmathify') \
                    and st.value.args and isinstance(st.value.args[0], ast.Name):
                conv[st.targets[0].id] = st.value.args[0].id
        bad = False
        for r in _walk_own(f.node):
            if isinstance(r, ast.Return) and isinstance(r.value, ast.Name) and \
                    (r.value.id in params or r.value.id in conv):
                why = PASS_THROUGH_OK.get((f.name, r.value.id))
                if f.name == 'conj':
                    # only the fallback of the `except AttributeError` handler is exempt
                    p_ = getattr(r, '_parent', None)
                    if not (isinstance(p_, ast.ExceptHandler) and norm(p_.type) == 'AttributeError'):
                        why = None
                if why:
                    run.ok('B-R8', '%s: `%s` -- %s' % (f.name, norm(r), why))
                else:
                    bad = True
                    run.fail(Finding('B-R8', rel, f.name, norm(r), 'the converted argument is returned as it is: an '
                                     'operand with more bits than the working precision comes back unrounded '
                                     '(`+%s` rounds)' % r.value.id, line=r.lineno))
        if not bad:
            run.ok('B-R8', '%s: no argument is handed back unrounded' % f.name)
    # class-body lambdas of _mpf / _mpc
    for cname in ('_mpf', '_mpc'):
        c = ix.module(CTXPY).classes.get(cname)
        if c is None:
            raise AnalysisError('class %s vanished' % cname)
        for st in c.node.body:
            if isinstance(st, ast.Assign) and isinstance(st.value, ast.Lambda) and len(st.targets) == 1:
                lam = st.value
                arg0 = lam.args.args[0].arg if lam.args.args else None
                if isinstance(lam.body, ast.Name) and lam.body.id == arg0:
                    run.fail(Finding('B-R8', CTXPY, cname, norm(st), 'the method returns the object itself: '
                                     'x.%s() of an operand longer than the working precision is not rounded, while '
                                     'the sibling class rounds' % norm(st.targets[0]), line=st.lineno))
                else:
                    run.ok('B-R8', '%s.%s = %s' % (cname, norm(st.targets[0]), norm(lam, 50)))



HIT_ROUNDED = [
    # public (not wrapper-rounded) functions with a (precision, value) cache: file, function, cache name
    ('mpmath/functions/zeta.py', 'stieltjes', 'stieltjes_cache'),
    ('mpmath/functions/bessel.py', 'coulombc', '_cache'),
    ('mpmath/functions/bessel.py', 'c_memo.f_wrapped', 'cache'),
]


def check_cache_hit_rounding(run, ix):
    """B-R11.  A (precision, value) cache serves a stored value whenever it was computed at a precision >= the
    current one.  The value then carries the bits of THAT precision; a function that no wrapper re-rounds must return
    `+value` on a hit (stieltjes(2) at 100 bits, then at 53 bits, returned a 97-bit mantissa when it did not)."""
    run.rule('B-R11', floor=3, desc='values served from a (precision, value) cache are re-rounded to the current precision')
    for rel, qn, cname in HIT_ROUNDED:
        f = ix.func(rel, qn)
        hits = []
        for x in _walk_own(f.node):
            if isinstance(x, ast.If) and any(isinstance(c, ast.Compare) and isinstance(c.ops[0], ast.GtE)
                                             for c in ast.walk(x.test)) and 'prec' in norm(x.test):
                hits.extend(r for b in x.body for r in ast.walk(b) if isinstance(r, ast.Return))
        if not hits:
            raise AnalysisError('%s: cache-hit return not found' % qn)
        for r in hits:
            if isinstance(r.value, ast.UnaryOp) and isinstance(r.value.op, ast.UAdd):
                run.ok('B-R11', '%s: the cached value is returned as `%s`' % (qn, norm(r.value)))
            else:
                run.fail(Finding('B-R11', rel, qn, norm(r), 'the value stored at a higher precision is returned as it '
                                 'is: after a call at 100 bits, the same call at 53 bits returns a mantissa of up to 100 '
                                 'bits', line=r.lineno))


def check_polyval_constant(run, ix):
    """B-R8p.  polyval converts its leading coefficient exactly and rounds only inside the Horner loop, which runs
    once per FURTHER coefficient: for a constant polynomial the loop does not run, and the value returned is the
    coefficient as given.  Decided: between the conversion and the returns the value is re-rounded (`p = +p`)
    unconditionally or under `len(coeffs) == 1`, or every return applies the unary plus."""
    run.rule('B-R8p', floor=1, desc='polyval rounds the value of a constant polynomial')
    f = ix.func('mpmath/calculus/polynomials.py', 'polyval')
    conv = [a for a in _walk_own(f.node) if isinstance(a, ast.Assign) and isinstance(a.value, ast.Call) and
            norm(a.value.func) == 'ctx.convert' and isinstance(a.value.args[0], ast.Subscript)]
    if not conv:
        raise AnalysisError('polyval: conversion of the leading coefficient not found')
    pn = norm(conv[0].targets[0])
    rerounded = False
    for a in _walk_own(f.node):
        if isinstance(a, ast.Assign) and norm(a.targets[0]) == pn and isinstance(a.value, ast.UnaryOp) and \
                isinstance(a.value.op, ast.UAdd) and norm(a.value.operand) == pn and a.lineno > conv[0].lineno:
            par = a._parent
            if par is f.node or (isinstance(par, ast.If) and norm(par.test).replace(' ', '') in
                                 ('len(%s)==1' % f.params[1], 'len(%s)<2' % f.params[1])):
                rerounded = True
    rets = [r for r in _walk_own(f.node) if isinstance(r, ast.Return) and r.value is not None and
            pn in [n_.id for n_ in ast.walk(r.value) if isinstance(n_, ast.Name)]]
    plus = rets and all(isinstance(r.value, ast.UnaryOp) and isinstance(r.value.op, ast.UAdd) for r in rets
                        if isinstance(r.value, (ast.Name, ast.UnaryOp)))
    if rerounded or (plus and all(isinstance(r.value, ast.UnaryOp) for r in rets)):
        run.ok('B-R8p', 'polyval: the value of a constant polynomial is re-rounded')
    else:
        run.fail(Finding('B-R8p', f.file, f.qualname, norm(conv[0]), 'for a one-element coefficient list the Horner loop '
                         'does not run and the converted coefficient is returned as given: polyval([c], 3) with a '
                         '199-bit c at 20 bits has 199 bits', line=conv[0].lineno))


# --------------------------------------------------------------------------- B-R12
def check_guard_bit_exits(run, ix):
    """B-R12 (fourth C10 hunt; repairs 06a24b4, 2a12452).  Two special-function entry points are plain @defun functions
    (not @defun_wrapped, which rounds for them) that compute under a raised precision and only put the precision back:
    (a) `rs_zeta` / `rs_z`, through which `zeta` and `siegelz` return on the Riemann-Siegel route -- every return is `+v`,
    a `ctx.conj(...)` (which rounds) or the function applied to the reflected argument; (b) in hypergeometric.py no
    @defun function returns a bare name from INSIDE a try block that raises `ctx.prec` and restores it in `finally` (the
    value then carries the guard bits: hyper([1,2,3],[4],-0.02) had 62 bits at 53)."""
    run.rule('B-R12', floor=4, desc='plain @defun special functions round what they computed under a raised precision')
    RS = 'mpmath/functions/rszeta.py'
    for qn in ('rs_zeta', 'rs_z'):
        f = ix.func(RS, qn)
        rets = [r for r in _walk_own(f.node) if isinstance(r, ast.Return) and r.value is not None]
        if not rets:
            raise AnalysisError('%s: no return' % qn)
        for r in rets:
            v = r.value
            ok = (isinstance(v, ast.UnaryOp) and isinstance(v.op, ast.UAdd)) or \
                (isinstance(v, ast.Call) and norm(v.func) in ('ctx.conj', qn, 'ctx.' + qn)) or \
                (isinstance(v, ast.Name) and any(isinstance(a, ast.Assign) and norm(a.targets[0]) == v.id and
                                                 isinstance(a.value, ast.Call) and norm(a.value.func) == 'ctx.conj'
                                                 for a in _walk_own(f.node)))
            if ok:
                run.ok('B-R12', '%s: `%s`' % (qn, norm(r, 50)))
            else:
                run.fail(Finding('B-R12', RS, qn, norm(r),
                                 'the value computed at the raised precision of the Riemann-Siegel routines is returned as it '
                                 'is (the function only restores ctx.prec): zeta(0.5+100000j) at 53 bits carries 90- and '
                                 '92-bit mantissas, rs_z(100000) 74 bits', line=r.lineno))
    HY = 'mpmath/functions/hypergeometric.py'
    m = ix.module(HY)
    n = 0
    for f in m.funcs.values():
        if f.parent is not None or not any(norm(d) == 'defun' for d in f.node.decorator_list):
            continue
        for tr in _walk_own(f.node):
            if not (isinstance(tr, ast.Try) and tr.finalbody):
                continue
            restores = any(isinstance(x, ast.Assign) and norm(x.targets[0]) == 'ctx.prec' for x in tr.finalbody)
            raised = [x for b in tr.body for x in [b] + [y for y in ast.walk(b)]
                      if isinstance(x, ast.AugAssign) and norm(x.target) == 'ctx.prec' and isinstance(x.op, ast.Add)]
            if not (restores and raised):
                continue
            n += 1
            bad = None
            for b in tr.body:
                if isinstance(b, (ast.FunctionDef, ast.ClassDef)):
                    continue
                for r in [b] + [y for y in _walk_own(b)]:
                    if isinstance(r, ast.Return) and isinstance(r.value, ast.Name) and r.lineno > raised[0].lineno:
                        bad = r
            if bad is None:
                run.ok('B-R12', '%s: nothing accumulated under `ctx.prec += ...` leaves the try block unrounded' % f.qualname)
            else:
                run.fail(Finding('B-R12', HY, f.qualname, norm(bad),
                                 'a value accumulated under the raised precision leaves from inside the try block, and the '
                                 'function is not wrapped: hyper([1,2,3],[4],-0.02) at 53 bits has a 62-bit mantissa '
                                 '(30 at 20 bits)', line=bad.lineno))
    if n < 1:
        raise AnalysisError('B-R12: no raised-precision try block in hypergeometric.py')
