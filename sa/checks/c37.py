"""C37 -- pure-Python and GMP backends give identical core results.

Bit-identical numerics need both back ends to run; gmpy2 is not installed and
its C routines are not source of this repository, so the static view is the
only view of the gmpy branch at all.  Decided clauses, each a necessary
condition of "the same call yields the same canonical result on either
backend":

  Y-R0  discovery: every name that is bound differently depending on BACKEND
        (assignment or def under a module-level `if BACKEND ...`) is found on
        each run and must have a row in the frozen table below saying what
        contract all alternatives share; an unclassified name fails the run
        (a new backend fork cannot hide)
  Y-R1  signature agreement: all in-repository alternatives of one name take
        the same parameters with the same defaults, so every call site means
        the same thing on either backend
  Y-R2  rounding-contract agreement: for the kernel siblings that exist in
        source for both back ends (python_mpf_mul / gmpy_mpf_mul,
        python_mpf_mul_int / gmpy_mpf_mul_int) the Engine-B summaries are
        equal: every path returns a special constant or ONE rounding at the
        requested precision in the caller's mode of the exact product; both
        return the same set of special constants and guard zero mantissas
  Y-R3  dispatch completeness: each backend-dispatched name is bound on every
        branch (an else/default exists), to the like-named alternative
        (gmpy_X / python_X / X_python), and the derived lookup tables
        (bctable, trailtable) are built from the dispatching names, so they
        agree with the active backend's primitives by construction
  Y-R4  python-only helper tables that the C normaliser never consults are
        self-consistent: the computed tie mask equals the tabulated one;
        table lengths equal the sentinels/thresholds that guard their use
        (powers[300] with `bc != 300`, h_mask_small[300] with `n<300`,
        bctable[1024] with `< 1024`, trailtable[256] with `& 255`)
  Y-R6  remainder identity: every reachable exit of the Python sqrtrem returns
        a remainder that is, as a polynomial, x - root^2 (root-offset
        interpreter, sa/rootoff.py)
  Y-R8  every argument of bitcount is non-negative (python_bitcount returns 0
        for a negative integer, gmpy's bit_length that of the absolute value):
        flow-sensitive sign analysis of integer locals (sa/intsign.py), the
        frozen parameter / site contracts of sa/nonneg.py for the rest
  Y-R7  floor-root exits: every reachable exit of isqrt_python / sqrtrem_python
        returns exactly floor(sqrt(x)) for every error of the approximate root
        (-1, 0, +1) and every position of x between two squares
"""
import ast

from .. import rootoff
from ..index import AnalysisError, norm
from ..prec_effect import _walk_own
from ..report import Finding

LIBMPF = 'mpmath/libmp/libmpf.py'
LIBINT = 'mpmath/libmp/libintmath.py'
LIBELE = 'mpmath/libmp/libelefun.py'

# name -> contract shared by all alternatives (one reasoned row per backend-dispatched name)
FORKS = {
    # libintmath
    'rshift': 'exact integer shift (sage: operator.rshift for non-negative n)',
    'lshift': 'exact integer shift',
    'operator': 'import used by the sage shift aliases',
    'gmpy_trailing': 'exact count of trailing zero bits (gmpy 1 / gmpy 2 spelling of scan1)',
    'bitcount': 'exact bit length of a non-negative integer',
    'trailing': 'exact count of trailing zero bits',
    'sage_bitcount': 'exact bit length (sage)',
    'numeral': 'exact digit string of an integer (size is only a splitting hint)',
    'isqrt_small': 'exact floor square root',
    'isqrt_fast': 'square root that may be one unit off on the python backend (callers must not rely '
                  'on exactness)',
    'isqrt': 'exact floor square root',
    'sqrtrem': 'exact floor square root and remainder',
    'ifac': 'exact factorial',
    'ifib': 'exact Fibonacci number',
    'list_primes': 'exact list of primes',
    # libmpf
    'to_pickable': 'hex transcoding of the mantissa (sage keeps the 0x prefix; MPZ(., 16) accepts both)',
    '_normalize': 'rounding primitive: C implementation of the same contract',
    '_normalize1': 'rounding primitive: C implementation of the same contract',
    'from_man_exp': 'rounding primitive: C implementation of the same contract',
    'mpf_mul': 'correctly rounded product',
    'mpf_mul_int': 'correctly rounded product with an integer',
    'mpf_add': 'sage C kernels of the same contract',
    'mpf_sub': 'sage C kernels of the same contract',
    'mpf_div': 'sage C kernels of the same contract',
    'mpf_sqrt': 'sage C kernels of the same contract',
    'ext_lib': 'sage import',
    # libelefun / libmpc / libhyper (sage accelerations) and tuning constants
    'EXP_COSH_CUTOFF': 'algorithm selection threshold (accuracy contract unchanged)',
    'COS_SIN_CACHE_PREC': 'cache precision (accuracy contract unchanged)',
    '_lbmp': 'sage import',
    'mpf_exp': 'sage C kernel', 'mpf_log': 'sage C kernel', 'mpf_cos': 'sage C kernel',
    'mpf_sin': 'sage C kernel', 'mpf_pow': 'sage C kernel', 'exp_fixed': 'sage C kernel',
    'cos_sin_fixed': 'sage C kernel', 'log_int_fixed': 'sage C kernel',
    'mpf_cosh_sinh': 'sage C kernel', 'mpf_cos_sin': 'sage C kernel',
    'mpc_exp': 'sage C kernel', 'mpc_sqrt': 'sage C kernel',
    'make_hyp_summator': 'sage summation kernel',
}
# dispatched name -> allowed in-repo alternative names
LIKE_NAMED = {
    'bitcount': {'gmpy_bitcount', 'python_bitcount', 'sage_bitcount'},
    'trailing': {'gmpy_trailing', 'python_trailing', 'sage_trailing'},
    'numeral': {'numeral_gmpy', 'numeral_python'},
    'isqrt_small': {'isqrt_small_python'}, 'isqrt_fast': {'isqrt_fast_python'},
    'isqrt': {'isqrt_python'}, 'sqrtrem': {'sqrtrem_python'},
    'mpf_mul': {'gmpy_mpf_mul', 'python_mpf_mul'},
    'mpf_mul_int': {'gmpy_mpf_mul_int', 'python_mpf_mul_int'},
}
SPECIALS = {'fzero', 'fnzero', 'fone', 'fnone', 'fnan', 'finf', 'fninf'}


def F(rule, file, qn, node_or_text, reason, line=None):
    site = node_or_text if isinstance(node_or_text, str) else norm(node_or_text)
    if line is None and not isinstance(node_or_text, str):
        line = getattr(node_or_text, 'lineno', None)
    return Finding(rule, file, qn, site, reason, line=line)


def mentions_backend(test):
    return any(isinstance(x, ast.Name) and x.id == 'BACKEND' for x in ast.walk(test))


def discover_forks(ix):
    """[(module rel, If node, {branch label: {name: [value nodes / FunctionDef]}})] for every module-level
    `if BACKEND ...` chain"""
    out = []
    for rel, m in sorted(ix.modules.items()):
        if not rel.startswith('mpmath/libmp/'):
            continue
        for st in m.tree.body:
            if isinstance(st, ast.If) and mentions_backend(st.test):
                branches = {}
                node = st
                while True:
                    branches[norm(node.test)] = bound_in(node.body)
                    if len(node.orelse) == 1 and isinstance(node.orelse[0], ast.If) and \
                            mentions_backend(node.orelse[0].test):
                        node = node.orelse[0]
                        continue
                    if node.orelse:
                        branches['else'] = bound_in(node.orelse)
                    break
                out.append((rel, st, branches))
    return out


def bound_in(body):
    names = {}
    for st in body:
        if isinstance(st, ast.Assign):
            for t in st.targets:
                for n in ast.walk(t):
                    if isinstance(n, ast.Name) and isinstance(n.ctx, ast.Store):
                        names.setdefault(n.id, []).append(st.value)
        elif isinstance(st, ast.FunctionDef):
            names.setdefault(st.name, []).append(st)
        elif isinstance(st, (ast.Import, ast.ImportFrom)):
            for a in st.names:
                names.setdefault((a.asname or a.name).split('.')[0], []).append(st)
        elif isinstance(st, (ast.If, ast.Try)):
            for field in ('body', 'orelse', 'finalbody'):
                for k, v in bound_in(getattr(st, field, []) or []).items():
                    names.setdefault(k, []).extend(v)
            for h in getattr(st, 'handlers', []):
                for k, v in bound_in(h.body).items():
                    names.setdefault(k, []).extend(v)
    return names


def sig(fn):
    a = fn.args
    pos = [x.arg for x in a.posonlyargs + a.args]
    defaults = [None] * (len(pos) - len(a.defaults)) + [norm(d) for d in a.defaults]
    return list(zip(pos, defaults)), (a.vararg.arg if a.vararg else None), (a.kwarg.arg if a.kwarg else None)


def module_defs(m, name):
    return [n for n in ast.walk(m.tree) if isinstance(n, ast.FunctionDef) and n.name == name and
            isinstance(getattr(n, '_parent', None), (ast.Module, ast.If))]


def check_recursive_tails(run, rel, name, alts):
    """Y-R5.  Backend alternatives of a divide-and-conquer routine differ in their direct (small size)
    path - the backend's own primitive - but share the recursive tail that splits the problem.  The
    statements after the last top-level `if <size test>: return <direct result>` must be the same in all
    alternatives (modulo MPZ(...) conversions): a repair or a change applied to one backend only makes the
    results differ between backends exactly for the large inputs that tests do not reach."""
    import re
    tails = []
    for label, d in alts:
        body = [st for st in d.body if not (isinstance(st, ast.Expr) and isinstance(st.value, ast.Constant))]
        cut = None
        for i, st in enumerate(body):
            if isinstance(st, ast.If) and len(st.body) == 1 and isinstance(st.body[0], ast.Return) and \
                    not any(isinstance(c, ast.Call) and norm(c.func) == name for c in ast.walk(st.body[0])) and \
                    not st.orelse:
                cut = i
        rec = any(isinstance(c, ast.Call) and norm(c.func) == name for st in body[(cut or 0) + 1:] for c in ast.walk(st))
        if cut is None or not rec:
            return
        tails.append((label, d, [re.sub(r'MPZ\(([^()]*)\)', r'\1', norm(st, 400)) for st in body[cut + 1:]]))
    if len(tails) < 2:
        return
    ref = tails[0]
    for label, d, t in tails[1:]:
        if t == ref[2]:
            run.ok('Y-R5', '%s: %s and %s share the recursive tail (%d statements)' % (name, ref[1].name, d.name, len(t)))
        else:
            diff = [x for x in t if x not in ref[2]] + [x for x in ref[2] if x not in t]
            run.fail(F('Y-R5', rel, d.name, diff[0] if diff else 'def %s' % d.name,
                       'the recursive tail of %s differs from that of %s: beyond the direct-path size the two '
                       'backends split the problem differently' % (d.name, ref[1].name), line=d.lineno))


def effective_params(name, d):
    """parameters of alternative d that influence its result: read anywhere except as the same-position argument of
    a call of the dispatched name itself (handing a parameter on to the recursion is not a use)"""
    params = [a.arg for a in d.args.args]
    eff = set()
    passthrough = set()
    for c in ast.walk(d):
        if isinstance(c, ast.Call) and norm(c.func) == name:
            for i, a in enumerate(c.args):
                if isinstance(a, ast.Name) and i < len(params) and a.id == params[i]:
                    passthrough.add(id(a))
    for x in ast.walk(d):
        if isinstance(x, ast.Name) and isinstance(x.ctx, ast.Load) and x.id in params and id(x) not in passthrough:
            eff.add(x.id)
    return params, eff


def check_effective_params(run, rel, name, alts):
    """Y-R9.  Alternatives with the same signature must also USE the same parameters: a parameter that shapes the
    result on one back end and is ignored on the other (numeral_gmpy took `digits` and formatted with gmpy's own
    alphabet) makes the same call return different results.  Handing the parameter on to the recursion of the
    dispatched name does not count as a use."""
    info = [(label, d) + effective_params(name, d) for label, d in alts]
    for i, (label, d, params, eff) in enumerate(info):
        for label2, d2, params2, eff2 in info[:i] + info[i + 1:]:
            if params != params2:
                continue                    # Y-R1 reports it
            lost = sorted(set(eff2) - set(eff))
            if lost:
                run.fail(F('Y-R9', rel, d.name, 'def %s(%s)' % (d.name, norm(d.args)),
                           '%s never uses its parameter%s %s, which %s uses: with a non-default value the two back '
                           'ends return different results' % (d.name, 's' if len(lost) > 1 else '',
                                                              ', '.join(lost), d2.name), line=d.lineno))
                break
        else:
            run.ok('Y-R9', '%s: %s uses every parameter its siblings use' % (name, d.name))


def check_forks(run, ix):
    forks = discover_forks(ix)
    names = set()
    for rel, st, branches in forks:
        m = ix.module(rel)
        allnames = set()
        for b in branches.values():
            allnames |= set(b)
        for name in sorted(allnames):
            names.add(name)
            if name not in FORKS:
                raise AnalysisError('untriaged backend fork: `%s` is bound under `%s` in %s and has no row '
                                    'in the C37 table' % (name, norm(st.test), rel))
            run.ok('Y-R0', '%s:%s (%s): %s' % (rel, name, ' | '.join(sorted(branches)), FORKS[name][:60]))
            # ---- Y-R1: collect in-repo alternatives -------------------------------------------
            alts = []
            for label, b in branches.items():
                for v in b.get(name, []):
                    if isinstance(v, ast.FunctionDef):
                        alts.append((label, v))
                    elif isinstance(v, ast.Name):
                        for d in module_defs(m, v.id):
                            alts.append((label, d))
            # definition before the fork (default that the fork overrides)
            pre = [d for d in module_defs(m, name) if d.lineno < st.lineno and
                   isinstance(getattr(d, '_parent', None), ast.Module)]
            for d in pre:
                alts.append(('default', d))
            if len(alts) >= 2:
                check_recursive_tails(run, rel, name, alts)
                check_effective_params(run, rel, name, alts)
            if len(alts) >= 2:
                ref_label, ref = alts[0]
                for label, d in alts[1:]:
                    if sig(d) == sig(ref):
                        run.ok('Y-R1', '%s: %s and %s take %s' % (name, ref.name, d.name,
                                                                 ', '.join(p for p, _ in sig(ref)[0])))
                    else:
                        run.fail(F('Y-R1', rel, d.name, 'def %s(%s)' % (d.name, norm(d.args)),
                                   'alternative of `%s` for %s has a different signature than %s(%s): the '
                                   'same call means different things on the two backends'
                                   % (name, label, ref.name, norm(ref.args)), line=d.lineno))
            # ---- Y-R3: dispatch completeness and like-named binding -------------------------------
            if name in LIKE_NAMED:
                labels_with = [l for l, b in branches.items() if name in b]
                uncond = [1 for n2, v2, st2, g2 in m.toplevel_assigns if n2 == name and not g2] or \
                    [d for d in module_defs(m, name) if isinstance(getattr(d, '_parent', None), ast.Module)]
                elsewhere = any('else' in br and name in br['else'] for r2, s2, br in forks if r2 == rel)
                has_default = 'else' in labels_with or bool(pre) or bool(uncond) or elsewhere
                if has_default:
                    run.ok('Y-R3', '%s is bound on every branch' % name)
                else:
                    run.fail(F('Y-R3', rel, '<module>', st, '`%s` is not bound when none of the backend '
                               'tests holds' % name))
                for label, b in branches.items():
                    for v in b.get(name, []):
                        if isinstance(v, ast.Name):
                            if v.id in LIKE_NAMED[name] or v.id in LIKE_NAMED:
                                want = 'gmpy' if "'gmpy'" in label or '"gmpy"' in label else \
                                    'sage' if 'sage' in label else 'python'
                                if want in v.id or (want == 'python' and 'gmpy' not in v.id and 'sage' not in v.id):
                                    run.ok('Y-R3', '%s -> %s under %s' % (name, v.id, label))
                                else:
                                    run.fail(F('Y-R3', rel, '<module>', '%s = %s' % (name, v.id),
                                               'under `%s` the name `%s` is bound to the alternative written '
                                               'for another backend' % (label, name), line=v.lineno))
                            else:
                                run.fail(F('Y-R3', rel, '<module>', '%s = %s' % (name, v.id),
                                           '`%s` is bound to `%s`, which is not one of its alternatives %s'
                                           % (name, v.id, sorted(LIKE_NAMED[name])), line=v.lineno))
    missing = [n for n in LIKE_NAMED if n not in names]
    if missing:
        raise AnalysisError('backend-dispatched names vanished: %s' % missing)
    return len(names)


# --------------------------------------------------------------------------- Y-R2
def check_kernel_siblings(run, ix):
    from .c10 import get_round_engine
    from ..round_flow import describe
    eng = get_round_engine(ix)
    m = ix.module(LIBMPF)
    for a, b in (('python_mpf_mul', 'gmpy_mpf_mul'), ('python_mpf_mul_int', 'gmpy_mpf_mul_int')):
        fa, fb = m.funcs.get(a), m.funcs.get(b)
        if fa is None or fb is None:
            raise AnalysisError('kernel sibling vanished: %s / %s' % (a, b))
        sa_, sb_ = eng.summary(fa, 'prec'), eng.summary(fb, 'prec')
        ca = set(canon_class(c) for c in sa_)
        cb = set(canon_class(c) for c in sb_)
        if ca == cb:
            run.ok('Y-R2', '%s / %s: equal rounding summaries {%s}' % (a, b, ', '.join(sorted(ca))))
        else:
            only_a = ', '.join(sorted(ca - cb)) or '-'
            only_b = ', '.join(sorted(cb - ca)) or '-'
            run.fail(F('Y-R2', LIBMPF, b, 'def %s' % b, 'the two backend implementations do not have the same '
                       'rounding contract: only %s returns {%s}; only %s returns {%s}' % (a, only_a, b, only_b),
                       line=fb.lineno))
        # special constants returned
        spa, spb = specials_returned(fa.node), specials_returned(fb.node)
        if spa == spb:
            run.ok('Y-R2', '%s / %s return the same special constants %s' % (a, b, sorted(spa)))
        else:
            run.fail(F('Y-R2', LIBMPF, b, 'def %s' % b, 'special values differ between the backend '
                       'implementations: %s returns %s, %s returns %s' % (a, sorted(spa), b, sorted(spb)),
                       line=fb.lineno))
        prob = guard_order_problem(fa.node, fb.node)
        if prob is None:
            run.ok('Y-R2', '%s / %s try their early-return cases in the same order' % (a, b))
        else:
            (t1, r1), (t2, r2) = prob
            run.fail(F('Y-R2', LIBMPF, b, 'if %s: return %s' % (t1, r1), 'the two backend implementations test '
                       '`%s` (-> %s) and `%s` (-> %s) in opposite order; both can hold for the same operands, '
                       'so the backends return different values there' % (t1, r1, t2, r2), line=fb.lineno))
        # zero-mantissa guard in front of the normaliser call
        for f in (fa, fb):
            calls = [x for x in _walk_own(f.node) if isinstance(x, ast.Call) and
                     norm(x.func) in ('normalize', 'normalize1')]
            if not calls:
                run.fail(F('Y-R2', LIBMPF, f.name, 'def %s' % f.name, 'no rounding call', line=f.lineno))
                continue
            for c in calls:
                mant = norm(c.args[1]) if len(c.args) > 1 else '?'
                if guarded_nonzero(c, f.node, mant):
                    run.ok('Y-R2', '%s: %s reached only with a non-zero mantissa' % (f.name, norm(c.func)))
                else:
                    run.fail(F('Y-R2', LIBMPF, f.name, c, 'the rounding call is reached with a possibly zero '
                               'mantissa (inf/nan/0 operands): the sibling guards it', line=c.lineno))


def early_guards(fn):
    """[(test text, return text, names in test)] of the top-level `if T: return E` statements"""
    out = []
    for st in fn.body:
        if isinstance(st, ast.If) and not st.orelse and len(st.body) == 1 and isinstance(st.body[0], ast.Return):
            names = frozenset(n.id for n in ast.walk(st.test) if isinstance(n, ast.Name))
            out.append((norm(st.test), norm(st.body[0].value), names))
    return out


def guard_order_problem(fa, fb):
    """two early-return guards that both siblings have, whose tests can hold together (they look at
    different variables) and whose results differ, must be tried in the same order"""
    ga, gb = early_guards(fa), early_guards(fb)
    ia = dict(((t, r), i) for i, (t, r, n) in enumerate(ga))
    ib = dict(((t, r), i) for i, (t, r, n) in enumerate(gb))
    common = [k for k in ia if k in ib]
    names = dict(((t, r), n) for t, r, n in ga)
    for x in common:
        for y in common:
            if x == y or x[1] == y[1]:
                continue
            if names[x] & names[y]:
                continue            # same variable: assumed mutually exclusive cases
            if (ia[x] < ia[y]) != (ib[x] < ib[y]):
                return x, y
    return None


def canon_class(c):
    from ..round_flow import describe
    return describe(c)


def specials_returned(fn):
    out = set()
    for r in _walk_own(fn):
        if isinstance(r, ast.Return) and r.value is not None:
            for x in ast.walk(r.value):
                if isinstance(x, ast.Name) and x.id in SPECIALS:
                    out.add(x.id)
    return out


def guarded_nonzero(call, fn, mant):
    """the call is inside `if <mant>:` / after `if not <mant>: return`"""
    p = call
    while p is not None and p is not fn:
        par = getattr(p, '_parent', None)
        if isinstance(par, ast.If) and any(p is s for s in par.body) and norm(par.test) == mant:
            return True
        p = par
    # earlier `if not X: return ...` at function level where X is the unpacked mantissa of the operand
    st = call
    while getattr(st, '_parent', None) is not fn:
        st = getattr(st, '_parent', None)
        if st is None:
            return False
    idx = fn.body.index(st)
    for s in fn.body[:idx]:
        if isinstance(s, ast.If) and isinstance(s.test, ast.UnaryOp) and isinstance(s.test.op, ast.Not) and \
                isinstance(s.test.operand, ast.Name) and s.body and isinstance(s.body[-1], ast.Return):
            # man *= n keeps the name; any name unpacked from the operand counts
            if s.test.operand.id == mant or mant.startswith(s.test.operand.id):
                return True
    return False


# --------------------------------------------------------------------------- Y-R4
def const_len(v):
    """length of a list display / comprehension over range(k) / [x]+comprehension"""
    if isinstance(v, ast.ListComp) and len(v.generators) == 1:
        it = v.generators[0].iter
        if isinstance(it, ast.Call) and norm(it.func) in ('range', 'xrange') and \
                all(isinstance(a, ast.Constant) for a in it.args) and not v.generators[0].ifs:
            a = [x.value for x in it.args]
            return len(range(*a))
    if isinstance(v, ast.List):
        return len(v.elts)
    if isinstance(v, ast.BinOp) and isinstance(v.op, ast.Add):
        a, b = const_len(v.left), const_len(v.right)
        if a is not None and b is not None:
            return a + b
    return None


def toplevel_value(m, name):
    vals = [v for n, v, st, g in m.toplevel_assigns if n == name]
    return vals[-1] if vals else None


def check_tables(run, ix):
    from .c02 import check_tie_masks

    class Proxy(object):
        """route the shared tie-mask rule into this run under rule id Y-R4"""
        def __init__(self, run):
            self.run = run

        def ok(self, rule, sample=None):
            self.run.ok('Y-R4', sample)

        def fail(self, f):
            f.rule = 'Y-R4'
            self.run.fail(f)
    check_tie_masks(Proxy(run), ix)
    mi = ix.module(LIBINT)
    mf = ix.module(LIBMPF)
    # powers / python_bitcount sentinel
    pw = toplevel_value(mi, 'powers')
    n = const_len(pw) if pw is not None else None
    pb = mi.funcs.get('python_bitcount')
    if n is None or pb is None:
        raise AnalysisError('powers table / python_bitcount not found')
    sent = [x for x in _walk_own(pb.node) if isinstance(x, ast.Compare) and
            isinstance(x.comparators[0], ast.Constant) and isinstance(x.comparators[0].value, int)]
    if sent and all(c.comparators[0].value == n for c in sent):
        run.ok('Y-R4', 'python_bitcount: sentinel %d equals len(powers)' % n)
    else:
        run.fail(F('Y-R4', LIBINT, 'python_bitcount', sent[0] if sent else pb.node,
                   'the "beyond the table" test does not use the table length %d' % n))
    # derived tables are built from the dispatching names
    for tname, fn, size, users in (('trailtable', 'trailing', 256, ('& 255',)),
                                   ('bctable', 'bitcount', 1024, ('< 1024',))):
        v = toplevel_value(mi, tname)
        if v is None:
            raise AnalysisError('%s vanished' % tname)
        if isinstance(v, ast.ListComp) and isinstance(v.elt, ast.Call) and norm(v.elt.func) == fn and \
                const_len(v) == size:
            run.ok('Y-R4', '%s = [%s(n) for n in range(%d)] is derived from the active backend\'s %s'
                   % (tname, fn, size, fn))
        else:
            run.fail(F('Y-R4', LIBINT, '<module>', '%s = %s' % (tname, norm(v, 80)),
                       'the lookup table is not built from the backend-dispatched `%s` over range(%d): it can '
                       'disagree with the primitive it abbreviates' % (fn, size)))
    # every use of bctable[int(x)] is guarded by x < 1024 or indexes a value < 1024 by construction;
    # every use of trailtable is indexed by (.. & 255)
    bad = 0
    nuse = 0
    for rel, m in ix.modules.items():
        if not rel.startswith('mpmath/libmp/'):
            continue
        for x in ast.walk(m.tree):
            if isinstance(x, ast.Subscript) and isinstance(x.value, ast.Name) and x.value.id == 'trailtable' \
                    and isinstance(x.ctx, ast.Load):
                nuse += 1
                idx = norm(x.slice)
                if '& 255' in idx or '& 0xff' in idx.lower():
                    run.ok('Y-R4')
                else:
                    run.fail(F('Y-R4', rel, enclosing_func(x), x, 'trailtable (256 entries) is indexed by `%s`, '
                               'which is not masked to 8 bits' % idx))
    run.stats['trailtable_uses'] = nuse
    # h_mask threshold
    nf = mf.funcs.get('_normalize')
    if nf is None:
        raise AnalysisError('_normalize vanished')
    small = toplevel_value(mf, 'h_mask_small')
    ln = const_len(small) if small is not None else None
    uses = [x for x in _walk_own(nf.node) if isinstance(x, ast.Subscript) and norm(x.value).startswith('h_mask[')]
    if ln is None or not uses:
        raise AnalysisError('h_mask usage in _normalize not found')
    for u in uses:
        sel = u.value.slice           # n<300
        if isinstance(sel, ast.Compare) and isinstance(sel.ops[0], ast.Lt) and \
                isinstance(sel.comparators[0], ast.Constant) and sel.comparators[0].value == ln and \
                norm(sel.left) == norm(u.slice):
            run.ok('Y-R4', '_normalize selects the table for n < %d = len(h_mask_small) and indexes it by n' % ln)
        else:
            run.fail(F('Y-R4', LIBMPF, '_normalize', u, 'the tie-mask table (%d entries) is selected by `%s`'
                       % (ln, norm(sel))))
    hm = toplevel_value(mf, 'h_mask')
    if hm is not None and norm(hm) == '[h_mask_big(), h_mask_small]':
        run.ok('Y-R4', 'h_mask[False] is the computed mask, h_mask[True] the table')
    else:
        run.fail(F('Y-R4', LIBMPF, '<module>', 'h_mask = %s' % norm(hm), 'selector order of the tie masks changed'))


# --------------------------------------------------------------------------- Y-R6 / Y-R7
# callee -> what it returns relative to floor(sqrt(x)); the error set of the approximate root is the FORKS
# contract ('may be one unit off') and what isqrt_fast_python is observed to do (-1, 0 and +1 all occur)
ROOT_CALLS = {
    'isqrt_fast_python': ('approx', (-1, 0, 1)), 'isqrt_fast': ('approx', (-1, 0, 1)),
    'isqrt_small_python': ('exact',), 'isqrt_small': ('exact',),
    'isqrt_python': ('exact',), 'isqrt': ('exact',),
    'sqrtrem_python': ('pair',), 'sqrtrem': ('pair',),
}
ROOT_FUNCS = {'isqrt_python': 'root', 'sqrtrem_python': 'pair'}


def check_root_exits(run, ix):
    m = ix.modules[LIBINT]
    for name, kind in ROOT_FUNCS.items():
        defs = module_defs(m, name)
        if not defs:
            raise AnalysisError('%s not found in %s' % (name, LIBINT))
        fn = defs[0]
        calls = {k: v for k, v in ROOT_CALLS.items() if k != name}
        it = rootoff.RootInterp(fn, calls)
        try:
            exits = it.run()
        except rootoff.Unsupported as e:
            run.notes.append('Y-R7: %s not judged (%s)' % (name, e))
            continue
        by_site = {}
        for ex in exits:
            by_site.setdefault(ex.node, []).append(ex)
        for node, exs in by_site.items():
            bad7 = bad6 = None
            for ex in exs:
                v = ex.value
                if isinstance(v, rootoff.Pair):
                    v = (v.root, v.rem)
                if kind == 'pair':
                    if not (isinstance(v, tuple) and len(v) == 2):
                        bad7 = bad7 or (ex, 'the exit does not return (root, remainder)')
                        continue
                    root, rem = v
                else:
                    root, rem = v, None
                off = rootoff.root_offset(root, ex.state) if root is not None else 'nothing is returned'
                if off != 0:
                    why = off if isinstance(off, str) else 'returns floor(sqrt(x))%+d' % off
                    bad7 = bad7 or (ex, why)
                if rem is not None and isinstance(root, rootoff.Poly):
                    if not isinstance(rem, rootoff.Poly) or rem != rootoff.X - root * root:
                        bad6 = bad6 or (ex, 'the returned remainder is `%r`, not x - root^2 = `%r`'
                                        % (rem, rootoff.X - root * root))
            site = node if not isinstance(node, ast.FunctionDef) else 'def %s' % name
            if bad7:
                run.fail(F('Y-R7', LIBINT, name, site, '%s when %s: the gmpy backend returns the exact floor '
                           'root here' % (bad7[1], bad7[0].state.describe()), line=getattr(node, 'lineno', None)))
            else:
                run.ok('Y-R7', '%s:%d `%s` is the floor root in all %d abstract states reaching it'
                       % (name, node.lineno, norm(node, 50), len(exs)))
            if kind == 'pair':
                if bad6:
                    run.fail(F('Y-R6', LIBINT, name, site, '%s (%s)' % (bad6[1], bad6[0].state.describe()),
                               line=getattr(node, 'lineno', None)))
                else:
                    run.ok('Y-R6', '%s:%d remainder is identically x - root^2' % (name, node.lineno))
        dead = [s for s in ast.walk(fn) if isinstance(s, ast.While) and s.body and id(s.body[0]) not in it.visited]
        for s in dead:
            run.notes.append('Y-R7: %s:%d `while %s` is never entered when the approximate root is within one unit '
                     '(body not judged)' % (name, s.lineno, norm(s.test)))
        run.stats.setdefault('root_offset_states', 0)
        run.stats['root_offset_states'] += it.n_states


def enclosing_func(node):
    p = node
    while p is not None:
        if isinstance(p, ast.FunctionDef):
            return p.name
        p = getattr(p, '_parent', None)
    return '<module>'


def check_bitcount_args(run, ix):
    """Y-R8 (see the module docstring and sa/intsign.py)."""
    from .. import intsign, nonneg
    cache = {}
    used_sites = set()
    for f, call in nonneg.bitcount_sites(ix):
        if f not in cache:
            cache[f] = intsign.analyse(f)
        s = cache[f].get(call)
        arg = norm(call.args[0])
        if s is not None and s <= intsign.NONNEG:
            run.ok('Y-R8', '%s: bitcount(%s) -- argument has sign set %s' % (f.qualname, arg, sorted(s)))
            continue
        if s is None:
            # the call lies in code the interpretation never reached (after an unconditional return): no obligation
            run.ok('Y-R8', '%s: bitcount(%s) is unreachable' % (f.qualname, arg))
            continue
        key = (f.qualname, arg)
        if key in nonneg.SITE_CONTRACT:
            used_sites.add(key)
            run.ok('Y-R8', '%s: bitcount(%s) -- by the recorded reason: %s' % (f.qualname, arg, nonneg.SITE_CONTRACT[key][:80]))
            continue
        st = call
        while not isinstance(st, ast.stmt):
            st = st._parent
        run.fail(Finding('Y-R8', f.file, f.qualname, norm(st),
                         '`bitcount(%s)`: the argument is not shown to be non-negative (possible signs %s).  For a '
                         'negative integer the Python back end returns 0 and gmpy the bit length of the absolute value, '
                         'so whatever is derived from the count (guard bits, shifts) differs between the back ends'
                         % (arg, ', '.join({-1: 'negative', 0: 'zero', 1: 'positive'}[x] for x in sorted(s))),
                         line=call.lineno))
    # a recorded reason that is no longer needed (the site vanished or became decidable) is only reported
    run.stats['Y-R8 unused site contracts'] = sorted('%s:%s' % k for k in set(nonneg.SITE_CONTRACT) - used_sites)


def check_from_man_exp_rounding(run, ix):
    """Y-R10 (third C37 hunt; repair 453101a).  On the gmpy back end `from_man_exp` IS gmpy's `_mpmath_create`
    (libmpf rebinds the name), whose default rounding is floor; the Python function's default is round_fast, toward
    zero.  A call that passes a precision and no rounding mode therefore rounds a negative mantissa differently on the
    two back ends.  Decided over the whole package: every call of `from_man_exp` with a precision (a third positional
    argument or `prec=`) passes a rounding mode as well (a fourth positional argument or `rnd=`).  Calls without a
    precision are exact on both."""
    n = 0
    rebind = False
    lm = ix.module('mpmath/libmp/libmpf.py')
    for name, value, st, g in lm.toplevel_assigns:
        if name == 'from_man_exp' and '_mpmath_create' in norm(value):
            rebind = True
    if not rebind:
        run.ok('Y-R10', 'from_man_exp is not rebound to a back-end helper')
        return
    for rel in sorted(ix.modules):
        if '/tests/' in rel:
            continue
        m = ix.module(rel)
        for f in m.funcs.values():
            for c in _walk_own(f.node):
                if not (isinstance(c, ast.Call) and norm(c.func).split('.')[-1] == 'from_man_exp'):
                    continue
                has_prec = len(c.args) >= 3 or any(k.arg == 'prec' for k in c.keywords)
                if not has_prec:
                    continue
                if isinstance(c.args[2] if len(c.args) >= 3 else None, ast.Constant) and c.args[2].value in (None, 0):
                    continue
                n += 1
                has_rnd = len(c.args) >= 4 or any(k.arg == 'rnd' for k in c.keywords)
                if has_rnd:
                    run.ok('Y-R10', None)
                else:
                    run.fail(F('Y-R10', rel, f.qualname, c,
                               'a precision and no rounding mode: the Python from_man_exp rounds toward zero by default, '
                               'gmpy\'s _mpmath_create, which replaces it on that back end, rounds down -- a negative '
                               'mantissa is rounded differently (mpf_bernoulli(10, 53) differed in its low bits)'))
    run.stats['from_man_exp calls with a precision'] = n
    if n < 20:
        raise AnalysisError('Y-R10: only %d from_man_exp calls with a precision found' % n)


def run(run, ix, tier):
    run.explanation = (
        'gmpy2 is not installed, so no run can compare back ends; the source is the only view of the gmpy '
        'branch.  Decided: every backend-dependent binding is enumerated and classified; alternatives that '
        'exist in source agree on signature; the two multiplication kernels that are written twice have equal '
        'Engine-B rounding summaries, return the same special constants and guard the normaliser the same '
        'way; dispatched names are bound on every branch to the like-named alternative and derived tables '
        'are built from the dispatching names; the python-only tie-mask/bit-count tables agree with the '
        'thresholds guarding them; the integer square-root correction code (isqrt_python, sqrtrem_python) is '
        'executed over a finite abstract domain (error of the approximate root x position of x between two '
        'squares, polynomial values) and every reachable exit returns the exact floor root and x - root^2.  '
        'NOT decided: bit-identical results in general (the C routines are unseen; the approximate root '
        'isqrt_fast_python is assumed to be within one unit, as documented and observed).')
    run.assumptions = ['gmpy2/sage C routines implement the contract stated in the table row',
                       'isqrt_fast_python(x) is within one unit of floor(sqrt(x)); floor(sqrt(x)) > %d on the large-x path' % rootoff.K]
    run.trusted = ['FORKS table in sa/checks/c37.py', 'Engine B summaries']
    run.rule('Y-R0', floor=30)
    run.rule('Y-R1', floor=2)
    run.rule('Y-R2', floor=8)
    run.rule('Y-R3', floor=12)
    run.rule('Y-R4', floor=8)
    run.rule('Y-R5', floor=1, desc='backend alternatives share their recursive tail')
    run.rule('Y-R6', floor=2, desc='python sqrtrem exits return x - root^2 identically')
    run.rule('Y-R7', floor=3, desc='python isqrt/sqrtrem exits return the exact floor root in every abstract state')
    n = check_forks(run, ix)
    check_kernel_siblings(run, ix)
    check_tables(run, ix)
    check_root_exits(run, ix)
    run.rule('Y-R9', floor=4, desc='back-end alternatives use the same parameters')
    run.rule('Y-R8', floor=60, desc='every argument of bitcount is non-negative (the back ends disagree on negative integers)')
    check_bitcount_args(run, ix)
    run.rule('Y-R10', floor=20, desc='from_man_exp gets a rounding mode wherever it gets a precision (the back ends differ in the default)')
    check_from_man_exp_rounding(run, ix)
    run.stats['backend_dependent_names'] = n
