"""C04 -- complex arithmetic is correctly rounded per component.

Decides the structural clause: each component of z+w, z-w, z*w, z*x, z*n, z+x,
z-x is, on every path, a special value or a SINGLE rounding, at the requested
precision and in the caller's mode, of an exactly computed real quantity (no
intermediate rounding, no component passed through, no negation after
rounding); the operator methods / fadd/fsub/fmul thread (prec, rounding) to
these kernels; complex equality is exact componentwise equality.  Error bounds
of division and powers are not decided.
"""
import ast

from ..index import AnalysisError, norm
from ..prec_effect import _walk_own
from ..report import Finding
from .kernel_rules import kernel_obligations, check_operator_threading

CTXPY = 'mpmath/ctx_mp_python.py'
KERNELS = ['mpc_add', 'mpc_sub', 'mpc_mul', 'mpc_mul_mpf', 'mpc_mul_int',
           'mpc_add_mpf', 'mpc_sub_mpf', 'mpc_pos', 'mpc_neg']


def run(run, ix, tier):
    run.explanation = (
        'Rounding-flow analysis (Engine B) of the complex +,-,* kernels: every component '
        'on every path is special or a single rounding in the caller\'s mode at the '
        'requested precision of an exact value (products formed in exact mode).  Plus: '
        'operator methods and fadd/fsub/fmul pass the context\'s (prec, rounding) pair to '
        'the kernels, the operators dispatch to the like-named kernels, and mpc equality '
        'is the conjunction of exact component equalities after a lossless conversion.')
    run.assumptions = ['real kernels mpf_add/sub/mul/mul_int are correctly rounded (C02)']
    run.trusted = ['sa/round_flow.py']
    run.rule('B-R1', floor=9)
    run.rule('B-R3', floor=9)
    run.rule('B-R4', floor=9)
    run.rule('B-R3t', floor=15, desc='(prec, rounding) threaded through the operators')
    run.rule('H-C04', floor=6, desc='operator dispatch and exact equality')
    kernel_obligations(run, ix, KERNELS)
    n = check_operator_threading(run, ix, 'B-R3t', '_mpc')
    if n < 15:
        raise AnalysisError('only %d kernel calls found in _mpc operators' % n)
    # operator -> kernel dispatch
    want = {'__add__': {'mpc_add', 'mpc_add_mpf'}, '__sub__': {'mpc_sub', 'mpc_sub_mpf'},
            '__mul__': {'mpc_mul', 'mpc_mul_mpf', 'mpc_mul_int'},
            '__div__': {'mpc_div', 'mpc_div_mpf'},
            '__pow__': {'mpc_pow', 'mpc_pow_mpf', 'mpc_pow_int'},
            '__neg__': {'mpc_neg'}, '__pos__': {'mpc_pos'}, 'conjugate': {'mpc_conjugate'}}
    for op, ks in want.items():
        f = ix.func(CTXPY, '_mpc.%s' % op)
        got = set(x.func.id for x in _walk_own(f.node) if isinstance(x, ast.Call)
                  and isinstance(x.func, ast.Name) and x.func.id.startswith('mpc_')
                  and x.func.id not in ('mpc_convert_lhs',))
        if got == ks:
            run.ok('H-C04', '_mpc.%s -> %s' % (op, sorted(ks)))
        else:
            run.fail(Finding('H-C04', CTXPY, f.qualname, 'def %s' % op,
                             'operator uses kernels %s, expected %s' % (sorted(got), sorted(ks)),
                             line=f.lineno))
    # the first operand of each binary kernel call is the left operand's value
    for op in ('__sub__', '__div__', '__pow__'):
        f = ix.func(CTXPY, '_mpc.%s' % op)
        s = f.params[0]
        for x in _walk_own(f.node):
            if isinstance(x, ast.Call) and isinstance(x.func, ast.Name) and \
                    x.func.id.startswith('mpc_') and x.func.id != 'mpc_convert_lhs':
                if norm(x.args[0]) == '%s._mpc_' % s:
                    run.ok('H-C04')
                else:
                    run.fail(Finding('H-C04', CTXPY, f.qualname, norm(x),
                                     'non-commutative operator does not pass self as the first '
                                     'operand', line=x.lineno))
    # equality
    f = ix.func(CTXPY, '_mpc.__eq__')
    last = f.node.body[-1]
    s, t = f.params[:2]
    if isinstance(last, ast.Return) and \
            norm(last.value) == '%s.real == %s.real and %s.imag == %s.imag' % (s, t, s, t):
        run.ok('H-C04', '_mpc.__eq__ = real parts equal and imaginary parts equal')
    else:
        run.fail(Finding('H-C04', CTXPY, '_mpc.__eq__', norm(last),
                         'complex equality is not the conjunction of the two exact component '
                         'equalities', line=last.lineno))
    # no lossy shortcut before it: every other return is False/NotImplemented/t
    for x in _walk_own(f.node):
        if isinstance(x, ast.Return) and x is not last:
            v = norm(x.value)
            if v in ('False', 'NotImplemented', t):
                run.ok('H-C04')
            else:
                run.fail(Finding('H-C04', CTXPY, '_mpc.__eq__', norm(x),
                                 'equality decided by a shortcut that is not exact componentwise '
                                 'comparison', line=x.lineno))
    check_mpc_eq_operand(run, ix, 'H-C04')
    from .kernel_rules import check_amplified_error
    run.rule('B-R10', floor=6, desc='amplified intermediates carry multiplier-dependent guard bits')
    check_amplified_error(run, ix, 'B-R10')
    # H-R15: a complex number is a pair of raw mpf; mpc_* kernels take pairs, mpf_* kernels raw mpf
    from ..shape import check_shapes
    run.rule('H-R15', floor=700, desc='kernel arguments have the shape (raw mpf / complex pair) the kernel takes')
    n = check_shapes(run, ix, 'H-R15', ('mpmath/libmp/libmpc.py', 'mpmath/libmp/libelefun.py',
                                        'mpmath/libmp/gammazeta.py', 'mpmath/libmp/libhyper.py',
                                        'mpmath/libmp/libmpf.py', CTXPY, 'mpmath/ctx_mp.py'))
    if n < 700:
        raise AnalysisError('H-R15 judged only %d kernel arguments' % n)
    # fadd/fsub/fmul: kernels receive the parsed pair
    for name in ('fadd', 'fsub', 'fmul'):
        f = ix.func('mpmath/ctx_mp.py', 'MPContext.%s' % name)
        pair = None
        for x in _walk_own(f.node):
            if isinstance(x, ast.Assign) and isinstance(x.targets[0], ast.Tuple) and \
                    '_parse_prec(' in norm(x.value):
                pair = [norm(e) for e in x.targets[0].elts]
        if not pair:
            run.fail(Finding('B-R3t', f.file, f.qualname, 'def %s' % name,
                             'precision/rounding not taken from _parse_prec(kwargs)', line=f.lineno))
            continue
        for x in _walk_own(f.node):
            if isinstance(x, ast.Call) and isinstance(x.func, ast.Name) and \
                    x.func.id.startswith(('mpf_', 'mpc_')):
                args = [norm(a) for a in x.args]
                if args[-2:] == pair:
                    run.ok('B-R3t')
                else:
                    run.fail(Finding('B-R3t', f.file, f.qualname, norm(x),
                                     'kernel does not receive the parsed (prec, rounding)',
                                     line=x.lineno))


def check_mpc_eq_operand(run, ix, rule):
    """the other operand of _mpc.__eq__ reaches the componentwise comparison only through the
    exact conversion (mpc_convert_lhs -> context.convert); a number-class constructor
    (context.mpc(..), context.mpf(..)), unary plus or a rounding kernel in between rounds it to the
    working precision and makes equality inexact"""
    f = ix.func(CTXPY, '_mpc.__eq__')
    s, t = f.params[:2]
    for x in _walk_own(f.node):
        if isinstance(x, ast.Assign) and any(norm(tg) == t for tg in x.targets):
            v = norm(x.value)
            if v == '%s.mpc_convert_lhs(%s)' % (s, t):
                run.ok(rule, '_mpc.__eq__: operand converted by mpc_convert_lhs')
            else:
                run.fail(Finding(rule, CTXPY, '_mpc.__eq__', norm(x),
                                 'the other operand is rebuilt with `%s` before the comparison: anything but '
                                 'the exact conversion rounds it to the working precision, so complex equality '
                                 'is no longer exact' % v, line=x.lineno))
        if isinstance(x, ast.UnaryOp) and isinstance(x.op, ast.UAdd):
            run.fail(Finding(rule, CTXPY, '_mpc.__eq__', norm(x), 'unary plus rounds an operand of the '
                             'comparison', line=x.lineno))
    g = ix.func(CTXPY, '_mpc.mpc_convert_lhs')
    rets = [r for r in _walk_own(g.node) if isinstance(r, ast.Return)]
    defs = {}
    for x in _walk_own(g.node):
        if isinstance(x, ast.Assign) and isinstance(x.targets[0], ast.Name):
            defs[x.targets[0].id] = x.value
    for r in rets:
        v = r.value
        if isinstance(v, ast.Name) and v.id in defs:
            v = defs[v.id]
        txt = norm(v)
        if txt == 'NotImplemented':
            run.ok(rule)
        elif txt == 'cls.context.convert(%s)' % g.params[1]:
            run.ok(rule, 'mpc_convert_lhs = context.convert (lossless)')
        else:
            run.fail(Finding(rule, CTXPY, '_mpc.mpc_convert_lhs', norm(r),
                             'operands of complex comparisons are not converted with the lossless '
                             'context.convert (got `%s`)' % txt, line=r.lineno))
