"""C04 -- complex arithmetic is correctly rounded per component.

Decides the structural clause: each component of z+w, z-w, z*w, z*x, z*n, z+x,
z-x is, on every path, a special value or a SINGLE rounding, at the requested
precision and in the caller's mode, of an exactly computed real quantity (no
intermediate rounding, no component passed through, no negation after
rounding); the operator methods / fadd/fsub/fmul thread (prec, rounding) to
these kernels; complex equality is exact componentwise equality.  Error bounds
of division and powers are not decided.
"""
import ast

from ..index import AnalysisError, norm
from ..prec_effect import _walk_own
from ..report import Finding
from .kernel_rules import kernel_obligations, check_operator_threading

CTXPY = 'mpmath/ctx_mp_python.py'
KERNELS = ['mpc_add', 'mpc_sub', 'mpc_mul', 'mpc_mul_mpf', 'mpc_mul_int',
           'mpc_add_mpf', 'mpc_sub_mpf', 'mpc_pos', 'mpc_neg']


def run(run, ix, tier):
    run.explanation = (
        'Rounding-flow analysis (Engine B) of the complex +,-,* kernels: every component '
        'on every path is special or a single rounding in the caller\'s mode at the '
        'requested precision of an exact value (products formed in exact mode).  Plus: '
        'operator methods and fadd/fsub/fmul pass the context\'s (prec, rounding) pair to '
        'the kernels, the operators dispatch to the like-named kernels, and mpc equality '
        'is the conjunction of exact component equalities after a lossless conversion.')
    run.assumptions = ['real kernels mpf_add/sub/mul/mul_int are correctly rounded (C02)']
    run.trusted = ['sa/round_flow.py']
    run.rule('B-R1', floor=9)
    run.rule('B-R3', floor=9)
    run.rule('B-R4', floor=9)
    run.rule('B-R3t', floor=15, desc='(prec, rounding) threaded through the operators')
    run.rule('H-C04', floor=6, desc='operator dispatch and exact equality')
    kernel_obligations(run, ix, KERNELS)
    n = check_operator_threading(run, ix, 'B-R3t', '_mpc')
    if n < 15:
        raise AnalysisError('only %d kernel calls found in _mpc operators' % n)
    # operator -> kernel dispatch
    want = {'__add__': {'mpc_add', 'mpc_add_mpf'}, '__sub__': {'mpc_sub', 'mpc_sub_mpf'},
            '__mul__': {'mpc_mul', 'mpc_mul_mpf', 'mpc_mul_int'},
            '__div__': {'mpc_div', 'mpc_div_mpf'},
            '__pow__': {'mpc_pow', 'mpc_pow_mpf', 'mpc_pow_int'},
            '__neg__': {'mpc_neg'}, '__pos__': {'mpc_pos'}, 'conjugate': {'mpc_conjugate'}}
    for op, ks in want.items():
        f = ix.func(CTXPY, '_mpc.%s' % op)
        got = set(x.func.id for x in _walk_own(f.node) if isinstance(x, ast.Call)
                  and isinstance(x.func, ast.Name) and x.func.id.startswith('mpc_')
                  and x.func.id not in ('mpc_convert_lhs',))
        if got == ks:
            run.ok('H-C04', '_mpc.%s -> %s' % (op, sorted(ks)))
        else:
            run.fail(Finding('H-C04', CTXPY, f.qualname, 'def %s' % op,
                             'operator uses kernels %s, expected %s' % (sorted(got), sorted(ks)),
                             line=f.lineno))
    # the first operand of each binary kernel call is the left operand's value
    for op in ('__sub__', '__div__', '__pow__'):
        f = ix.func(CTXPY, '_mpc.%s' % op)
        s = f.params[0]
        for x in _walk_own(f.node):
            if isinstance(x, ast.Call) and isinstance(x.func, ast.Name) and \
                    x.func.id.startswith('mpc_') and x.func.id != 'mpc_convert_lhs':
                if norm(x.args[0]) == '%s._mpc_' % s:
                    run.ok('H-C04')
                else:
                    run.fail(Finding('H-C04', CTXPY, f.qualname, norm(x),
                                     'non-commutative operator does not pass self as the first '
                                     'operand', line=x.lineno))
    # equality
    f = ix.func(CTXPY, '_mpc.__eq__')
    last = f.node.body[-1]
    s, t = f.params[:2]
    if isinstance(last, ast.Return) and \
            norm(last.value) == '%s.real == %s.real and %s.imag == %s.imag' % (s, t, s, t):
        run.ok('H-C04', '_mpc.__eq__ = real parts equal and imaginary parts equal')
    else:
        run.fail(Finding('H-C04', CTXPY, '_mpc.__eq__', norm(last),
                         'complex equality is not the conjunction of the two exact component '
                         'equalities', line=last.lineno))
    # no lossy shortcut before it: every other return is False/NotImplemented/t
    for x in _walk_own(f.node):
        if isinstance(x, ast.Return) and x is not last:
            v = norm(x.value)
            if v in ('False', 'NotImplemented', t):
                run.ok('H-C04')
            else:
                run.fail(Finding('H-C04', CTXPY, '_mpc.__eq__', norm(x),
                                 'equality decided by a shortcut that is not exact componentwise '
                                 'comparison', line=x.lineno))
    check_mpc_eq_operand(run, ix, 'H-C04')
    from .kernel_rules import check_amplified_error
    run.rule('B-R10', floor=6, desc='amplified intermediates carry multiplier-dependent guard bits')
    check_amplified_error(run, ix, 'B-R10')
    check_pow_int_exact(run, ix)
    # H-R15: a complex number is a pair of raw mpf; mpc_* kernels take pairs, mpf_* kernels raw mpf
    from ..shape import check_shapes
    run.rule('H-R15', floor=700, desc='kernel arguments have the shape (raw mpf / complex pair) the kernel takes')
    n = check_shapes(run, ix, 'H-R15', ('mpmath/libmp/libmpc.py', 'mpmath/libmp/libelefun.py',
                                        'mpmath/libmp/gammazeta.py', 'mpmath/libmp/libhyper.py',
                                        'mpmath/libmp/libmpf.py', CTXPY, 'mpmath/ctx_mp.py'))
    if n < 700:
        raise AnalysisError('H-R15 judged only %d kernel arguments' % n)
    # fadd/fsub/fmul: kernels receive the parsed pair
    for name in ('fadd', 'fsub', 'fmul'):
        f = ix.func('mpmath/ctx_mp.py', 'MPContext.%s' % name)
        pair = None
        for x in _walk_own(f.node):
            if isinstance(x, ast.Assign) and isinstance(x.targets[0], ast.Tuple) and \
                    '_parse_prec(' in norm(x.value):
                pair = [norm(e) for e in x.targets[0].elts]
        if not pair:
            run.fail(Finding('B-R3t', f.file, f.qualname, 'def %s' % name,
                             'precision/rounding not taken from _parse_prec(kwargs)', line=f.lineno))
            continue
        for x in _walk_own(f.node):
            if isinstance(x, ast.Call) and isinstance(x.func, ast.Name) and \
                    x.func.id.startswith(('mpf_', 'mpc_')):
                args = [norm(a) for a in x.args]
                if args[-2:] == pair:
                    run.ok('B-R3t')
                else:
                    run.fail(Finding('B-R3t', f.file, f.qualname, norm(x),
                                     'kernel does not receive the parsed (prec, rounding)',
                                     line=x.lineno))


def check_mpc_eq_operand(run, ix, rule):
    """the other operand of _mpc.__eq__ reaches the componentwise comparison only through the
    exact conversion (mpc_convert_lhs -> context.convert); a number-class constructor
    (context.mpc(..), context.mpf(..)), unary plus or a rounding kernel in between rounds it to the
    working precision and makes equality inexact"""
    f = ix.func(CTXPY, '_mpc.__eq__')
    s, t = f.params[:2]
    for x in _walk_own(f.node):
        if isinstance(x, ast.Assign) and any(norm(tg) == t for tg in x.targets):
            v = norm(x.value)
            if v == '%s.mpc_convert_lhs(%s)' % (s, t):
                run.ok(rule, '_mpc.__eq__: operand converted by mpc_convert_lhs')
            else:
                run.fail(Finding(rule, CTXPY, '_mpc.__eq__', norm(x),
                                 'the other operand is rebuilt with `%s` before the comparison: anything but '
                                 'the exact conversion rounds it to the working precision, so complex equality '
                                 'is no longer exact' % v, line=x.lineno))
        if isinstance(x, ast.UnaryOp) and isinstance(x.op, ast.UAdd):
            run.fail(Finding(rule, CTXPY, '_mpc.__eq__', norm(x), 'unary plus rounds an operand of the '
                             'comparison', line=x.lineno))
    g = ix.func(CTXPY, '_mpc.mpc_convert_lhs')
    rets = [r for r in _walk_own(g.node) if isinstance(r, ast.Return)]
    defs = {}
    for x in _walk_own(g.node):
        if isinstance(x, ast.Assign) and isinstance(x.targets[0], ast.Name):
            defs[x.targets[0].id] = x.value
    for r in rets:
        v = r.value
        if isinstance(v, ast.Name) and v.id in defs:
            v = defs[v.id]
        txt = norm(v)
        if txt == 'NotImplemented':
            run.ok(rule)
        elif txt == 'cls.context.convert(%s)' % g.params[1]:
            run.ok(rule, 'mpc_convert_lhs = context.convert (lossless)')
        else:
            run.fail(Finding(rule, CTXPY, '_mpc.mpc_convert_lhs', norm(r),
                             'operands of complex comparisons are not converted with the lossless '
                             'context.convert (got `%s`)' % txt, line=r.lineno))


# --------------------------------------------------------------------------- P-R1
LIBMPC = 'mpmath/libmp/libmpc.py'
EXACT_BITS = 10000          # "z**n (n >= 0, exact result of at most about 10^4 bits) is correctly rounded"


def _gate(test, var_pred):
    """(bound, strict) of a test `<expr> < N` / `<= N` whose left side satisfies var_pred, among the conjuncts"""
    conj = test.values if isinstance(test, ast.BoolOp) and isinstance(test.op, ast.And) else [test]
    for c in conj:
        if isinstance(c, ast.Compare) and len(c.ops) == 1 and isinstance(c.ops[0], (ast.Lt, ast.LtE)) \
                and isinstance(c.comparators[0], ast.Constant) and isinstance(c.comparators[0].value, int) \
                and var_pred(c.left):
            return c.comparators[0].value, isinstance(c.ops[0], ast.Lt), c
    return None


def _single_rounding(call, f):
    """from_man_exp(<exact integer>, <exponent>, prec, rnd) with the function's own prec and a mode that is the
    caller's (or its negative_rnd image)"""
    return isinstance(call, ast.Call) and norm(call.func) == 'from_man_exp' and len(call.args) == 4 \
        and norm(call.args[2]) == 'prec' and norm(call.args[3]) in ('rnd', 'negative_rnd[rnd]')


def check_pow_int_exact(run, ix):
    """P-R1.  z**n for n >= 0 is correctly rounded per component when the exact power has at most about
    10^4 bits.  In mpc_pow_int this needs (a) the general exact-integer path to be taken for every such
    power: its gate compares a size ESTIMATE that is up to twice the true size (|re| = |im|), so the bound
    must exceed 2*10^4; inside the gate each component is one from_man_exp(<integer>, <exponent>, prec, rnd);
    (b) the axis cases (a zero component) not to fall back to mpf_pow_int, which rounds intermediate
    products beyond 1000 bits, unless a gate `bc*n < M`, M >= 10^4, with an exact from_man_exp(man**n, ...)
    exit comes first; (c) a power that is negated after rounding (i^n = -1, -i) to be rounded with
    negative_rnd[rnd]."""
    run.rule('P-R1', floor=8, desc='z**n: exact integer path for every power of up to 10^4 bits, on and off the axes')
    f = ix.func(LIBMPC, 'mpc_pow_int')
    # (a) general gate
    gates = [x for x in _walk_own(f.node) if isinstance(x, ast.If)
             and any(isinstance(c, ast.Call) and norm(c.func) == 'complex_int_pow' for c in ast.walk(x))]
    units = [x for x in gates if _gate(x.test, lambda e: isinstance(e, ast.Name)) is None]
    gates = [x for x in gates if x not in units]
    if len(gates) != 1:
        raise AnalysisError('mpc_pow_int: exact complex integer path not found')
    # (a') the bases 2^e (+-1 +- i): the size estimate of the gate below is n for them although every power is a
    # small Gaussian integer times a power of two; they need an exact branch of their own, for every n
    ok_u = False
    for u in units:
        cs = sorted(norm(c).replace(' ', '') for c in (u.test.values if isinstance(u.test, ast.BoolOp) and
                                                        isinstance(u.test.op, ast.And) else [u.test]))
        if cs != sorted(['notde', 'abs(aman)==1', 'abs(bman)==1']) or u.lineno > gates[0].lineno:
            continue
        body = ' ; '.join(norm(b, 200) for b in u.body)
        if 'complex_int_pow(aman, bman, n % 8)' in body and '4 * (n // 8) + int(n * aexp)' in body and \
                body.count('from_man_exp(') == 2 and all(_single_rounding(c, f) for b in u.body for c in ast.walk(b)
                                                        if isinstance(c, ast.Call) and norm(c.func) == 'from_man_exp'):
            ok_u = True
    if ok_u:
        run.ok('P-R1', 'mpc_pow_int: 2^e (+-1 +- i) ** n is formed exactly from n % 8 (eighth power = 16), for every n')
    else:
        run.fail(Finding('P-R1', LIBMPC, 'mpc_pow_int', norm(gates[0].test), 'for the bases 2^e (+-1 +- i) the size estimate '
                         'of this gate is n, although the exact power is a one-bit Gaussian integer times a power of two: '
                         'from the bound on they go through exp(n log z), and mpc(1, 1)**24000 has the imaginary part '
                         '-1.87e3592 instead of 0', line=gates[0].lineno))
    g = _gate(gates[0].test, lambda e: isinstance(e, ast.Name))
    if g is None:
        raise AnalysisError('mpc_pow_int: the exact path is not gated by a size bound')
    bound, strict, cmpnode = g
    reach = bound - 1 if strict else bound
    if reach >= 2 * EXACT_BITS + 1:
        run.ok('P-R1', 'mpc_pow_int: exact path for size estimates up to %d (true size up to %d bits)' % (reach, reach // 2))
    else:
        run.fail(Finding('P-R1', LIBMPC, 'mpc_pow_int', norm(cmpnode), 'the size estimate is up to twice the true size '
                         '(exactly twice for |re| = |im|), so this gate sends powers of %d bits and more to '
                         'exp(n log z), which cannot return exact zeros or exact powers of two: '
                         'mpc(1, 1)**%d has a spurious component' % (reach // 2 + 1, reach + 1), line=cmpnode.lineno))
    rets = [x for x in ast.walk(gates[0]) if isinstance(x, ast.Return)]
    comps = [a for x in _walk_own(f.node) if isinstance(x, ast.Assign) and x in list(ast.walk(gates[0]))
             and isinstance(x.value, ast.Call) and norm(x.value.func) == 'from_man_exp' for a in [x]]
    for a in comps:
        if _single_rounding(a.value, f):
            run.ok('P-R1', 'mpc_pow_int: %s is a single rounding of the exact integer power' % norm(a, 70))
        else:
            run.fail(Finding('P-R1', LIBMPC, 'mpc_pow_int', norm(a), 'a component of the exact power is not rounded '
                             'once with the caller\'s precision and mode', line=a.lineno))
    if len(comps) < 2 or not rets:
        run.fail(Finding('P-R1', LIBMPC, 'mpc_pow_int', norm(gates[0].test), 'the exact path does not return two '
                         'from_man_exp components', line=gates[0].lineno))
    # (b) axis cases
    first_gate_line = gates[0].lineno
    for c in _walk_own(f.node):
        if not (isinstance(c, ast.Call) and isinstance(c.func, ast.Name) and c.lineno < first_gate_line):
            continue
        if c.func.id == f.name:
            continue                    # negative exponent: reciprocal of the positive power
        if c.func.id == 'mpf_pow_int':
            run.fail(Finding('P-R1', LIBMPC, 'mpc_pow_int', norm(c), 'a power of a number on the real or imaginary axis is '
                             'handed to mpf_pow_int, which rounds intermediate products once the power has more than '
                             '1000 bits: mpc(x, 0)**22 is not correctly rounded although mpc(x, 1e-300)**22 is',
                             line=c.lineno))
            continue
        h = ix.find_func(LIBMPC, c.func.id) or ix.find_func('mpmath/libmp/libmpf.py', c.func.id)
        if h is None or not any(isinstance(y, ast.Call) and norm(y.func) == 'mpf_pow_int' for y in ast.walk(h.node)):
            continue
        # helper with a fallback to mpf_pow_int: needs the exact gate first
        ok = False
        for st in h.node.body:
            if isinstance(st, ast.If):
                gg = _gate(st.test, lambda e: isinstance(e, ast.BinOp) and isinstance(e.op, ast.Mult)
                           and {norm(e.left), norm(e.right)} == {'bc', 'n'})
                exact = [r for r in ast.walk(st) if isinstance(r, ast.Return) and _single_rounding(r.value, h)
                         and 'man ** n' in norm(r.value.args[0])]
                if gg and exact and (gg[0] - 1 if gg[1] else gg[0]) >= EXACT_BITS:
                    ok = True
            if any(isinstance(y, ast.Call) and norm(y.func) == 'mpf_pow_int' for y in ast.walk(st)):
                break
        if ok:
            run.ok('P-R1', 'mpc_pow_int: %s takes the exact integer power before falling back to mpf_pow_int' % norm(c, 60))
        else:
            run.fail(Finding('P-R1', LIBMPC, h.name, 'def %s' % h.name, 'the axis helper reaches mpf_pow_int without an '
                             'exact path `bc*n < M` (M >= 10^4) returning from_man_exp(man**n, ..., prec, rnd) first',
                             line=h.lineno))
    # (c) negation after a directed rounding
    for c in _walk_own(f.node):
        if isinstance(c, ast.Call) and norm(c.func) == 'mpf_neg' and c.args:
            inner = c.args[0]
            if isinstance(inner, ast.Name):
                defs = [a.value for a in _walk_own(f.node) if isinstance(a, ast.Assign) and len(a.targets) == 1
                        and norm(a.targets[0]) == inner.id and a.lineno < c.lineno]
                inner = defs[-1] if defs else inner
            if isinstance(inner, ast.Call) and len(inner.args) >= 4:
                mode = norm(inner.args[3])
                if mode == 'negative_rnd[rnd]':
                    run.ok('P-R1', 'mpc_pow_int: %s rounds in the opposite direction before the negation' % norm(c, 70))
                else:
                    run.fail(Finding('P-R1', LIBMPC, 'mpc_pow_int', norm(c), 'the power is rounded with `%s` and then '
                                     'negated: floor and ceiling are exchanged (mpc_pow_int(3i, 6, 5, \'f\') is -704 '
                                     'instead of -736)' % mode, line=c.lineno))
