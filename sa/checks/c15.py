"""C15 -- complex interval operations contain every possible exact result.

Same rules as C14 (Engine C) applied to the rectangle functions mpci_*:
C-R1 returned rectangles are outward rounded in all four endpoints, C-R2
rounded operands in monotone positions, C-R3 rectangles/intervals handed
between interval functions are typed as enclosures (this is what pins the
rounding direction of mpci_gamma's corner values), plus C-R8: the operator
machinery of iv.mpf/iv.mpc passes operands to the kernels in the right order.
Corner selection and the excluded region of gamma are not decided.
C-R9 (sa/stale_pack.py): a packed rectangle is not used after one of its unpacked
endpoints was recomputed and before it is rebuilt.
"""
import ast

from ..index import AnalysisError, norm
from ..prec_effect import _walk_own
from ..report import Finding
from .c14 import common
from ..stale_pack import check_stale_packs, StaleScan

CTXIV = 'mpmath/ctx_iv.py'


def run(run, ix, tier):
    run.explanation = (
        'Rounding-direction typing (Engine C) of the complex-rectangle functions: every '
        'real and imaginary endpoint produced is rounded outward on every path, and every '
        'interval handed between interval functions is an enclosure.  Plus operand-order '
        'rules on the binary-operator machinery of the interval number classes.  Which '
        'corner bounds a function (monotonicity regions) is not decided.')
    run.assumptions = ['real interval functions are enclosures (C14)',
                       'transcendental kernels are accurate inside their guard bits']
    run.trusted = ['sa/round_flow.py', 'sa/iv_dir.py MONO table', 'tables.C_OPERAND_EXEMPT']
    run.rule('C-R1', floor=25)
    run.rule('C-R2', floor=0)       # since repair 728ceda no rectangle function calls a directed kernel on a rounded
                                    # operand itself: the corner values of gamma go through mpc_outward (C-R14c / C-R19c)
    run.rule('C-R3', floor=45)
    run.rule('C-R8', floor=8, desc='operator machinery: operand order and kernel pairing')
    common(run, ix, complex_=True)
    check_binary_op(run, ix)
    run.rule('C-R9', floor=20, desc='packed rectangle and unpacked endpoints stay in sync')
    t = StaleScan()
    t.scan(ast.parse('(a1, a2), (b1, b2) = z\n(a1, a2) = mpi_add((a1, a2), mpi_one, wp)\nw = mpci_div(u, z, prec)').body, {}, {})
    if len(t.findings) != 1:
        raise AnalysisError('C-R9 detector does not recognise its positive example')
    check_stale_packs(run, ix, 'C-R9', prefix='mpci_')
    check_overlap(run, ix)
    from . import iv_rules
    run.rule('C-R13', floor=12, desc='non-audited rectangle functions compose interval operations only')
    iv_rules.check_composition(run, ix, True)
    # the real helper that mpci_cos / mpci_sin rely on
    iv_rules.check_composition(run, ix, False)
    # C-R15: shape discipline (raw mpf / interval / rectangle) of every kernel argument
    from ..shape import check_shapes
    run.rule('C-R15', floor=300, desc='kernel arguments have the shape (mpf / interval / rectangle) the kernel takes')
    n = check_shapes(run, ix, 'C-R15', ('mpmath/libmp/libmpi.py', CTXIV))
    if n < 300:
        raise AnalysisError('C-R15 judged only %d kernel arguments' % n)
    check_inherited_endpoints(run, ix)
    # C-R5 for the kernels that the rectangle functions call with an explicit directed mode (corner values of gamma)
    from . import c14
    run.rule('C-R5', floor=1, desc='kernels called with a directed mode by rectangle functions honour it')
    run.rule('C-R5g', floor=1, desc='... and do not round a weakly guarded undirected intermediate')
    c14.check_directed_kernels(run, ix, callers=('mpci_', 'mpc_outward'))
    check_gamma_strip(run, ix)
    check_complex_kernel_endpoints(run, ix)


COMPLEX_TRANSCENDENTAL = ('mpc_loggamma', 'mpc_gamma', 'mpc_rgamma', 'mpc_factorial', 'mpc_exp', 'mpc_log', 'mpc_cos',
                          'mpc_sin', 'mpc_pow', 'mpc_sqrt', 'mpc_psi', 'mpc_zeta')


def check_complex_kernel_endpoints(run, ix):
    """C-R14c / C-R19c.  A complex kernel called with round_floor / round_ceiling rounds an APPROXIMATION in that
    direction: when the approximation is (nearly) representable the result lies on the wrong side of the true value
    (iv.loggamma(z) with Re loggamma(z) = 4 + 4e-16 returned [3.996, 4.0] at 10 bits).  C-R14c: no rectangle function
    takes a value from a complex transcendental kernel called with a directed mode; corner values go through
    mpc_outward.  C-R19c: mpc_outward evaluates the kernel with >= 12 extra bits and the default rounding, builds the
    allowance 2**(m + g - wp) from the magnitude m of the LARGER part (the kernels are accurate relative to the
    modulus, not part by part), 0 < g < extra bits, subtracts it with round_floor / adds it with round_ceiling at
    the caller's precision, and passes a value through unchanged only if it is special or both parts are zero."""
    LIBMPI = 'mpmath/libmp/libmpi.py'
    run.rule('C-R14c', floor=8, desc='rectangle endpoints from complex kernels go through mpc_outward')
    run.rule('C-R22', floor=2, desc='mpc_outward claims no bound from an infinite or undefined part')
    run.rule('C-R19c', floor=4, desc='mpc_outward moves the part outward by an allowance relative to the modulus')
    for f in ix.module(LIBMPI).funcs.values():
        if not f.name.startswith('mpci_'):
            continue
        for c in _walk_own(f.node):
            if not (isinstance(c, ast.Call) and isinstance(c.func, ast.Name)):
                continue
            if c.func.id in COMPLEX_TRANSCENDENTAL and any(norm(a) in ('round_floor', 'round_ceiling')
                                                           for a in list(c.args) + [k.value for k in c.keywords]):
                st = c
                while not isinstance(st, ast.stmt):
                    st = st._parent
                run.fail(Finding('C-R14c', LIBMPI, f.qualname, norm(st),
                                 'an endpoint is taken straight from %s(..., %s): the kernel rounds an approximation in '
                                 'that direction, which is not a bound when the approximation is representable; no '
                                 'outward widening follows' % (c.func.id, [norm(a) for a in c.args if norm(a).startswith('round_')][0]),
                                 line=c.lineno))
            elif c.func.id == 'mpc_outward' and c.args and norm(c.args[0]) in COMPLEX_TRANSCENDENTAL:
                run.ok('C-R14c', '%s: %s through mpc_outward' % (f.qualname, norm(c, 70)))
    h = ix.find_func(LIBMPI, 'mpc_outward')
    if h is None:
        if any(x.rule == 'C-R14c' for x in run.findings):
            return
        raise AnalysisError('mpc_outward not found')
    P = h.params                     # f, z, prec, rounding, part
    wp = [a for a in _walk_own(h.node) if isinstance(a, ast.Assign) and norm(a.targets[0]) == 'wp']
    K = None
    if wp and isinstance(wp[0].value, ast.BinOp) and isinstance(wp[0].value.op, ast.Add) and \
            norm(wp[0].value.left) == P[2] and isinstance(wp[0].value.right, ast.Constant):
        K = wp[0].value.right.value
    ev = [a for a in _walk_own(h.node) if isinstance(a, ast.Assign) and isinstance(a.value, ast.Call) and
          norm(a.value.func) == P[0]]
    if K is not None and K >= 12 and ev and [norm(x) for x in ev[0].value.args] == [P[1], 'wp']:
        run.ok('C-R19c', 'mpc_outward evaluates the kernel at prec + %d bits, default rounding' % K)
    else:
        run.fail(Finding('C-R19c', LIBMPI, 'mpc_outward', norm(ev[0]) if ev else 'def mpc_outward',
                         'the kernel is not evaluated with at least 12 extra bits and its default rounding', line=h.lineno))
        return
    v = norm(ev[0].targets[0])
    # the allowance
    d = [a for a in _walk_own(h.node) if isinstance(a, ast.Assign) and isinstance(a.value, ast.Tuple) and
         len(a.value.elts) == 4]
    ok_d = False
    why = 'no allowance tuple (0, 1, e, 1) found'
    if d:
        el = d[0].value.elts
        e = el[2]
        g = None
        # max(mags) + g - wp
        txt = norm(e).replace(' ', '')
        import re as _re
        m = _re.match(r'^max\((\w+)\)\+(\d+)-wp$', txt)
        if norm(el[0]) == '0' and norm(el[1]) in ('MPZ_ONE', '1') and norm(el[3]) == '1' and m:
            g = int(m.group(2))
            mags = m.group(1)
            md = [a for a in _walk_own(h.node) if isinstance(a, ast.Assign) and norm(a.targets[0]) == mags]
            want = '[t[2] + t[3] for t in %s if t[1]]' % v
            if not md or norm(md[0].value) != want:
                why = 'the magnitude list is not that of the non-zero parts of the kernel value (`%s`)' % want
            elif not (0 < g < K):
                why = 'the allowance 2**%d units is not between one unit and the extra precision' % g
            else:
                ok_d = True
        else:
            why = 'the allowance is not 2**(max magnitude of the parts + g - wp): `%s`' % norm(d[0].value, 60)
    if ok_d:
        run.ok('C-R19c', 'allowance 2**(m + %d - wp) with m the magnitude of the larger part' % g)
    else:
        run.fail(Finding('C-R19c', LIBMPI, 'mpc_outward', norm(d[0]) if d else 'def mpc_outward', why, line=h.lineno))
        return
    dn = norm(d[0].targets[0])
    x = [a for a in _walk_own(h.node) if isinstance(a, ast.Assign) and norm(a.value) == '%s[%s]' % (v, P[4])]
    xn = norm(x[0].targets[0]) if x else None
    rets = [r for r in _walk_own(h.node) if isinstance(r, ast.Return)]
    down = [r for r in rets if norm(r.value) == 'mpf_sub(%s, %s, %s, round_floor)' % (xn, dn, P[2])]
    up = [r for r in rets if norm(r.value) == 'mpf_add(%s, %s, %s, round_ceiling)' % (xn, dn, P[2])]
    sel_ok = False
    for r in down:
        par = r._parent
        if isinstance(par, ast.If) and r in par.body and norm(par.test) == '%s == round_floor' % P[3]:
            sel_ok = True
    if down and up and sel_ok:
        run.ok('C-R19c', 'floor: part - allowance rounded down; otherwise part + allowance rounded up, at the caller\'s precision')
    else:
        run.fail(Finding('C-R19c', LIBMPI, 'mpc_outward', norm(rets[-1]) if rets else 'def mpc_outward',
                         'the part is not moved as `mpf_sub(x, delta, prec, round_floor)` under `rounding == round_floor` '
                         'and `mpf_add(x, delta, prec, round_ceiling)` otherwise', line=h.lineno))
    # C-R22: returns that do not widen.  A part that is inf or nan (the kernel at a corner at infinity gives nan) is no
    # bound: the only sound answer is -inf for the lower and +inf for the upper bound.  `return x` is accepted only for a
    # value with no non-zero part, below a test for special parts that has already answered with the unbounded bound.
    import re as _re
    special = _re.compile(r'not\w+\[1\]and\w+\[2\]')

    def _dir_ok(r):
        """`return fninf` stands in the body of `if rounding == round_floor`, `return finf` does not"""
        val = norm(r.value)
        p_ = r
        in_floor = False
        while p_ is not h.node:
            par_ = p_._parent
            if isinstance(par_, ast.If) and norm(par_.test) == '%s == round_floor' % P[3] and any(p_ is b for b in par_.body):
                in_floor = True
            p_ = par_
        return (val == 'fninf' and in_floor) or (val == 'finf' and not in_floor)

    guards = [i for i in _walk_own(h.node) if isinstance(i, ast.If) and special.search(norm(i.test).replace(' ', ''))]
    sound_guard = None
    for gi in guards:
        grets = [r for b in gi.body for r in ast.walk(b) if isinstance(r, ast.Return)]
        if grets and all(norm(r.value) in ('fninf', 'finf') and _dir_ok(r) for r in grets) and \
                isinstance(gi.body[-1], (ast.Return, ast.If)):
            sound_guard = gi
    for r in rets:
        if r in down or r in up:
            continue
        par = r._parent
        if norm(r.value) in ('fninf', 'finf'):
            if _dir_ok(r):
                run.ok('C-R22', '`%s` in the %s direction: no bound claimed' % (norm(r), 'floor' if norm(r.value) == 'fninf' else 'ceiling'))
            else:
                run.fail(Finding('C-R22', LIBMPI, 'mpc_outward', norm(r), 'an infinite bound in the wrong direction: the '
                                 'lower bound must be -inf (under `%s == round_floor`) and the upper +inf' % P[3], line=r.lineno))
            continue
        t = norm(par.test).replace(' ', '') if isinstance(par, ast.If) else ''
        if norm(r.value) == xn and t == 'notmags' and sound_guard is not None and sound_guard.lineno < r.lineno:
            run.ok('C-R19c', 'pass-through only for a value with no non-zero part, special parts excluded before: `if %s`' % norm(par.test, 50))
        elif norm(r.value) == xn and (special.search(t) or t == 'notmags'):
            run.fail(Finding('C-R22', LIBMPI, 'mpc_outward', norm(r), 'a part that is inf or nan is handed back as a bound '
                             '(under `%s`): the kernel gives nan at a corner at infinity, and iv.gamma(iv.mpc([2, 3], '
                             '[-inf, -1])) became [0, 1.65] + [0, 0]j, which misses gamma(2-1j) = 0.653 - 0.343j; '
                             'iv.loggamma of an unbounded rectangle had nan endpoints' % norm(par.test, 60), line=r.lineno))
        else:
            run.fail(Finding('C-R19c', LIBMPI, 'mpc_outward', norm(r), 'the part is handed back without widening under '
                             '`%s`' % (norm(par.test, 60) if isinstance(par, ast.If) else 'no condition'), line=r.lineno))


def check_binary_op(run, ix):
    bop = ix.func(CTXIV, '_binary_op')
    nested = dict((nf.name, nf) for nf in bop.nested)
    for need in ('g_complex', 'g_real', 'lop_real', 'rop_real', 'lop_complex', 'rop_complex'):
        if need not in nested:
            raise AnalysisError('_binary_op.%s vanished' % need)

    def calls_of(fn, names):
        return [x for x in _walk_own(fn.node) if isinstance(x, ast.Call)
                and isinstance(x.func, ast.Name) and x.func.id in names]
    want = {
        'lop_real': [('g_real', ['ctx', 's._mpi_', 't._mpi_']),
                     ('g_complex', ['ctx', '(s._mpi_, mpi_zero)', 't._mpci_'])],
        'rop_real': [('g_real', ['ctx', 't._mpi_', 's._mpi_']),
                     ('g_complex', ['ctx', 't._mpci_', '(s._mpi_, mpi_zero)'])],
        'lop_complex': [('g_complex', ['ctx', 's._mpci_', 't._mpci_'])],
        'rop_complex': [('g_complex', ['ctx', 't._mpci_', 's._mpci_'])],
    }
    for name, exp in want.items():
        fn = nested[name]
        got = sorted((c.func.id, [norm(a) for a in c.args]) for c in calls_of(fn, ('g_real', 'g_complex')))
        if got == sorted(exp):
            run.ok('C-R8', '%s passes operands in %s order' % (name, 'reflected' if name[0] == 'r' else 'direct'))
        else:
            run.fail(Finding('C-R8', CTXIV, fn.qualname, 'def %s' % name,
                             'operands are passed as %s, expected %s (a reflected operator '
                             'must put the other operand first)' % (got, sorted(exp)), line=fn.lineno))
    g = nested['g_complex']
    c = calls_of(g, ('f_complex',))
    if len(c) == 1 and [norm(a) for a in c[0].args] == ['sval', 'tval', 'ctx.prec']:
        run.ok('C-R8', 'g_complex: f_complex(sval, tval, ctx.prec)')
    else:
        run.fail(Finding('C-R8', CTXIV, g.qualname, 'def g_complex', 'kernel not called as '
                         'f_complex(sval, tval, ctx.prec)', line=g.lineno))
    g = nested['g_real']
    c = calls_of(g, ('f_real',))
    if len(c) == 1 and [norm(a) for a in c[0].args] == ['sval', 'tval', 'ctx.prec']:
        run.ok('C-R8', 'g_real: f_real(sval, tval, ctx.prec)')
    else:
        run.fail(Finding('C-R8', CTXIV, g.qualname, 'def g_real', 'kernel not called as '
                         'f_real(sval, tval, ctx.prec)', line=g.lineno))
    # the table that instantiates the operators
    m = ix.module(CTXIV)
    pairs = {'add': ('mpi_add', 'mpci_add'), 'sub': ('mpi_sub', 'mpci_sub'),
             'mul': ('mpi_mul', 'mpci_mul'), 'div': ('mpi_div', 'mpci_div'),
             'pow': ('mpi_pow', 'mpci_pow')}
    seen = 0
    for st in m.tree.body:
        if isinstance(st, ast.Assign) and isinstance(st.value, ast.Call) and \
                norm(st.value.func) == '_binary_op' and isinstance(st.targets[0], ast.Tuple):
            t = [norm(e) for e in st.targets[0].elts]
            op = t[0].split('__')[1]
            wantt = ['ivmpf.__%s__' % op, 'ivmpf.__r%s__' % op, 'ivmpc.__%s__' % op, 'ivmpc.__r%s__' % op]
            args = tuple(norm(a) for a in st.value.args)
            seen += 1
            if t == wantt and args == pairs.get(op):
                run.ok('C-R8', '%s operators <- _binary_op%s' % (op, args))
            else:
                run.fail(Finding('C-R8', CTXIV, '<module>', norm(st),
                                 'operator table row binds %s to %s' % (t, args), line=st.lineno))
    if seen < 5:
        raise AnalysisError('operator table rows of ctx_iv not found')


def check_overlap(run, ix):
    """C-R12: mpi_overlap (which decides whether a rectangle meets the excluded strip of the gamma
    function, i.e. whether the corner-based enclosure may be used) is the intersection predicate.
    It touches its operands only through the exact order kernels, so -- as for C16 -- its syntax
    tree is interpreted on every weak ordering of the four endpoints and compared with
    `the intervals have a common point`.  Exhaustive over the abstraction."""
    from ..order_abs import OrderEvaluator, Unsupported, weak_orderings
    LIBMPI = 'mpmath/libmp/libmpi.py'
    f = ix.func(LIBMPI, 'mpi_overlap')
    orders = weak_orderings()
    run.rule('C-R12', floor=len(orders), desc='mpi_overlap is the intersection predicate on every endpoint ordering')
    bad = None
    nbad = 0
    for o in orders:
        sa, sb, ta, tb = o
        try:
            got = OrderEvaluator(ix, LIBMPI).run_func(f, [(sa, sb), (ta, tb)])
        except Unsupported as e:
            raise AnalysisError('mpi_overlap: %s' % e)
        want = not (sb < ta or tb < sa)
        if got is not want:
            nbad += 1
            bad = bad or (o, got, want)
            run.rule('C-R12')['sites'] += 1
            run.obligations += 1
        else:
            run.ok('C-R12')
    if bad:
        o, got, want = bad
        run.rule('C-R12')['failed'] += nbad
        run.findings.append(Finding(
            'C-R12', LIBMPI, 'mpi_overlap', 'def mpi_overlap',
            'on %d of %d endpoint orderings the result differs from "the intervals have a common point"; e.g. '
            'ranks (xa,xb,ya,yb)=%s: returns %r, expected %r.  mpci_gamma then applies the corner-based enclosure '
            'inside the region where gamma is not monotone' % (nbad, len(orders), o, got, want), line=f.lineno))
    # its only user tests the imaginary part against the excluded strip
    g = ix.func(LIBMPI, 'mpci_gamma')
    uses = [x for x in _walk_own(g.node) if isinstance(x, ast.Call) and norm(x.func) == 'mpi_overlap']
    if uses:
        run.ok('C-R12', 'mpci_gamma consults mpi_overlap: %s' % norm(uses[0], 60))
    else:
        run.fail(Finding('C-R12', LIBMPI, 'mpci_gamma', 'mpi_overlap(...)', 'the excluded-strip test vanished',
                         line=g.lineno))


# --------------------------------------------------------------------------- C-R14t
def check_inherited_endpoints(run, ix):
    """C-R14t.  A rectangle function contains every exact result only if the real interval functions it is composed
    of do.  Rule C-R14 (property C14) lists the real interval functions whose endpoints are taken straight from a
    transcendental kernel that rounds an approximation in the requested direction -- not a bound when the
    approximation is exactly representable (exp(2**-88) rounded up is 1).  Every `mpci_*` function that reaches
    one of them through calls inside libmpi.py inherits the defect; one finding per rectangle function."""
    from ..report import SubRun
    from . import c14
    run.rule('C-R14t', floor=5, desc='rectangle functions built on non-rigorous real interval functions')
    sub = SubRun(run, keep=())
    probe = _Collector()
    c14.check_transcendental_endpoints(probe, ix)
    bad = {}
    for f in probe.findings:
        bad.setdefault(f.qualname, []).append(f.site.replace('endpoints from ', ''))
    m = ix.module('mpmath/libmp/libmpi.py')
    top = {f.name: f for f in m.funcs.values() if f.parent is None}
    calls = {n: {c.func.id for c in _walk_own(f.node) if isinstance(c, ast.Call) and isinstance(c.func, ast.Name)
                 and c.func.id in top} for n, f in top.items()}

    def reach(n, seen):
        for c in calls.get(n, ()):
            if c not in seen:
                seen.add(c)
                reach(c, seen)
        return seen
    for n in sorted(top):
        if not n.startswith('mpci_'):
            continue
        r = reach(n, set()) | {n}
        hits = sorted(x for x in r if x in bad)
        if not hits:
            run.ok('C-R14t', '%s reaches no interval function with unwidened transcendental endpoints' % n)
            continue
        kernels = sorted({k for h in hits for k in bad[h]})
        run.fail(Finding('C-R14t', 'mpmath/libmp/libmpi.py', n, 'inherits unwidened endpoints',
                         'the rectangle function is composed of %s, whose endpoints come straight from %s rounded in the '
                         'requested direction (rule C-R14 of C14): where the kernel\'s approximation is exactly '
                         'representable the bound is on the wrong side, and the rectangle does not contain the exact '
                         'result' % (', '.join(hits), ', '.join(kernels)), line=top[n].lineno))


class _Collector(object):
    """minimal run object that only records findings of a borrowed rule"""
    def __init__(self):
        self.findings = []

    def rule(self, *a, **k):
        return {'sites': 0, 'failed': 0}

    def ok(self, *a, **k):
        pass

    def fail(self, f):
        self.findings.append(f)


# --------------------------------------------------------------------------- C-R17 (rectangles)
# sup of |y| over the points x + iy with x <= 1.4616... (left of the positive minimum of gamma) at which
# Re psi(x + iy) <= 0: 1.04827 (attained near x = 0.49; scan of x in [-60, 1.462] with step 1/32, zero in y located
# by bisection with mpmath at 20 digits).  Outside that strip log|gamma| is monotone in x along horizontal lines,
# which is what the corner enclosure of mpci_gamma relies on.
RE_PSI_NEGATIVE_HEIGHT = 1.0483


def _module_number(value):
    """numeric value of a module-level constant expression of libmpi (from_float / from_int / fone / fnone ...)"""
    if isinstance(value, ast.Name):
        return {'fone': 1.0, 'fnone': -1.0, 'fzero': 0.0, 'ftwo': 2.0, 'fhalf': 0.5}.get(value.id)
    if isinstance(value, ast.Call) and norm(value.func) in ('from_float', 'from_int') and value.args:
        a = value.args[0]
        sign = 1
        if isinstance(a, ast.UnaryOp) and isinstance(a.op, ast.USub):
            sign, a = -1, a.operand
        if isinstance(a, ast.Constant) and isinstance(a.value, (int, float)):
            return sign * float(a.value)
    if isinstance(value, ast.Call) and norm(value.func) == 'mpf_neg' and value.args:
        v = _module_number(value.args[0])
        return None if v is None else -v
    return None


def check_gamma_strip(run, ix):
    """C-R17 (rectangles).  mpci_gamma encloses log gamma by its values at the corners of the rectangle, which is
    valid where Re psi > 0; rectangles that reach into the strip |Im z| <= c left of the minimum are first moved
    right by the recurrence.  The strip constant must cover the whole region where Re psi is negative there:
    gamma_mono_imag_b >= 1.0483 and gamma_mono_imag_a <= -1.0483 (with +-1.0 rectangles in 1 < |Im z| < 1.048 around
    Re z = 0.4 get an invalid corner enclosure)."""
    run.rule('C-R17', floor=2, desc='the excluded strip of the complex gamma enclosure covers the region Re psi <= 0')
    m = ix.module('mpmath/libmp/libmpi.py')
    vals = {}
    for name, value, st, g in m.toplevel_assigns:
        if name in ('gamma_mono_imag_a', 'gamma_mono_imag_b'):
            vals[name] = (_module_number(value), st)
    if set(vals) != {'gamma_mono_imag_a', 'gamma_mono_imag_b'}:
        raise AnalysisError('strip constants of mpci_gamma not found')
    for name, want_sign in (('gamma_mono_imag_a', -1), ('gamma_mono_imag_b', 1)):
        v, st = vals[name]
        if v is None:
            raise AnalysisError('%s: value not understood (%s)' % (name, norm(st)))
        if want_sign * v >= RE_PSI_NEGATIVE_HEIGHT:
            run.ok('C-R17', '%s = %r lies outside the region Re psi <= 0 (height %.4f)' % (name, v, RE_PSI_NEGATIVE_HEIGHT))
        else:
            run.fail(Finding('C-R17', 'mpmath/libmp/libmpi.py', '<module>', norm(st),
                             'the strip |Im z| <= %g does not cover the region left of the minimum of gamma where Re psi(z) '
                             '<= 0, which reaches |Im z| = 1.0483 near Re z = 0.49: a rectangle between the two heights '
                             'skips the recurrence and gets a corner enclosure that is not an enclosure '
                             '(iv.loggamma(iv.mpc([0.25, 0.625], [1.015625, 1.03125])))' % abs(v), line=st.lineno))
