"""C16 -- interval comparisons are sound three-valued predicates (Engine F)."""
import ast

from ..index import AnalysisError, norm
from ..order_abs import (OrderEvaluator, Unsupported, weak_orderings,
                         spec_three_valued, members)
from ..report import Finding
from ..prec_effect import _walk_own

LIBMPI = 'mpmath/libmp/libmpi.py'
CTX_IV = 'mpmath/ctx_iv.py'

OPS = {'__lt__': 'lt', '__le__': 'le', '__gt__': 'gt', '__ge__': 'ge',
       '__eq__': 'eq', '__ne__': 'ne'}
CMPOP = {ast.Lt: '__lt__', ast.LtE: '__le__', ast.Gt: '__gt__', ast.GtE: '__ge__',
         ast.Eq: '__eq__', ast.NotEq: '__ne__'}


def effective_bindings(classnode):
    """name -> last binding in the class body (def or assignment)"""
    out = {}
    for st in classnode.body:
        if isinstance(st, ast.FunctionDef):
            out[st.name] = st
        elif isinstance(st, ast.Assign):
            for t in st.targets:
                if isinstance(t, ast.Name):
                    out[t.id] = st.value
    return out


def run(run, ix, tier):
    run.explanation = (
        'The predicates mpi_lt/le/gt/ge (and ==, !=, in) use their operands only '
        'through the exact order kernels, so their result is a function of the weak '
        'ordering of the four endpoints.  The AST of each predicate is interpreted '
        'over EVERY weak ordering (26 with sa<=sb, ta<=tb; infinite endpoints are '
        'extreme positions) and compared with the three-valued specification '
        'computed from the definition (for all member points on a refinement grid). '
        'Exhaustive over the abstraction; no repo code is executed.')
    run.exhaustive = True
    run.assumptions = ['mpf_lt/le/gt/ge/eq are exact order comparisons (clause of C05)',
                       'interval operands are valid (lower <= upper, no nan endpoint)']
    run.trusted = ['sa/order_abs.py evaluator (statement subset: unpack, if/return, '
                   'calls, and/or/not, tuple ==/!=)']
    orders = weak_orderings()
    if len(orders) != 26:
        raise AnalysisError('ordering enumeration broken: %d' % len(orders))
    run.stats['weak_orderings'] = len(orders)
    run.rule('F-R1', floor=4 * len(orders), desc='three-valued predicate on every weak ordering')
    run.rule('F-R2', floor=2 * len(orders), desc='==/!= are exact endpoint (in)equality')
    run.rule('F-R3', floor=6, desc='operator methods dispatch to the like-named kernel, operands in order')
    run.rule('F-R4', floor=len(orders), desc='`in` is containment')
    run.rule('F-R6', floor=6, desc='unsupported operands answer NotImplemented, never a truthy exception class')
    run.rule('F-R5', floor=2 * len(orders), desc='`in` with a complex operand: never True off the real line')

    mod = ix.module(LIBMPI)
    for rel in ('lt', 'le', 'gt', 'ge'):
        f = ix.func(LIBMPI, 'mpi_' + rel)
        bad = None
        nbad = 0
        for o in orders:
            ev = OrderEvaluator(ix, LIBMPI)
            sa, sb, ta, tb = o
            got = ev.run_func(f, [(sa, sb), (ta, tb)])
            want = spec_three_valued(rel, o)
            if got is not want and not (got == want and type(got) is type(want)):
                nbad += 1
                if bad is None:
                    bad = (o, got, want)
                run.rule('F-R1')['sites'] += 1
                run.obligations += 1
            else:
                run.ok('F-R1', 'mpi_%s on ordering (sa,sb,ta,tb)=%s -> %s' % (rel, o, got)
                       if o in orders[:2] else None)
        if bad is not None:
            o, got, want = bad
            run.rule('F-R1')['failed'] += nbad
            run.findings.append(Finding(
                'F-R1', LIBMPI, f.qualname, 'def mpi_%s' % rel,
                'on %d of %d endpoint orderings the result differs from the sound '
                'three-valued predicate; e.g. ranks (sa,sb,ta,tb)=%s: returns %r, '
                'specification %r' % (nbad, len(orders), o, got, want), line=f.lineno))
    for name, want_eq in (('mpi_eq', True), ('mpi_ne', False)):
        f = ix.func(LIBMPI, name)
        bad = None
        nbad = 0
        for o in orders:
            ev = OrderEvaluator(ix, LIBMPI)
            sa, sb, ta, tb = o
            got = ev.run_func(f, [(sa, sb), (ta, tb)])
            same = (sa == ta and sb == tb)
            want = same if want_eq else (not same)
            if got is not want:
                nbad += 1
                bad = bad or (o, got, want)
                run.rule('F-R2')['sites'] += 1
                run.obligations += 1
            else:
                run.ok('F-R2')
        if bad:
            o, got, want = bad
            run.rule('F-R2')['failed'] += nbad
            run.findings.append(Finding(
                'F-R2', LIBMPI, name, 'def %s' % name,
                'not exact endpoint (in)equality: ranks %s give %r, expected %r' % (o, got, want),
                line=f.lineno))

    # ---- operator methods of ivmpf -----------------------------------------
    civ = ix.module(CTX_IV)
    ci = civ.classes.get('ivmpf')
    if ci is None:
        raise AnalysisError('class ivmpf vanished')
    eff = effective_bindings(ci.node)
    cmp_helper = eff.get('_compare')
    optable = {}
    for op, rel in OPS.items():
        b = eff.get(op)
        reason = None
        if not isinstance(b, ast.FunctionDef):
            reason = 'effective binding of %s is not a method definition (%s)' % (op, norm(b))
        else:
            rets = [x for x in ast.walk(b) if isinstance(x, ast.Return)]
            ok = False
            if len(rets) == 1 and isinstance(rets[0].value, ast.Call):
                c = rets[0].value
                params = [a.arg for a in b.args.args]
                if isinstance(c.func, ast.Attribute) and c.func.attr == '_compare' and \
                        isinstance(c.func.value, ast.Name) and c.func.value.id == params[0] \
                        and len(c.args) == 2 and isinstance(c.args[0], ast.Name) and \
                        c.args[0].id == params[1]:
                    kern = norm(c.args[1]).split('.')[-1]
                    if kern == 'mpi_' + rel:
                        ok = True
                        optable[op] = kern
                    else:
                        reason = '%s dispatches to %s, expected mpi_%s' % (op, kern, rel)
            if not ok and reason is None:
                reason = '%s is not `return self._compare(other, mpi_%s)`' % (op, rel)
        if reason:
            run.fail(Finding('F-R3', CTX_IV, 'ivmpf.%s' % op, 'def %s' % op, reason,
                             line=getattr(b, 'lineno', None)))
        else:
            run.ok('F-R3', 'ivmpf.%s -> %s' % (op, optable[op]))
    # the helper passes (self, other) in that order
    reason = None
    if not isinstance(cmp_helper, ast.FunctionDef):
        reason = 'effective _compare is not a method'
    else:
        params = [a.arg for a in cmp_helper.args.args]
        rets = [x for x in ast.walk(cmp_helper) if isinstance(x, ast.Return)
                and isinstance(x.value, ast.Call) and isinstance(x.value.func, ast.Name)
                and len(params) == 3 and x.value.func.id == params[2]]
        # the exact-rational path (rule F-R13) has a kernel call of its own
        rational = [x for x in rets if '_scaled' in norm(x.value)]
        rets = [x for x in rets if x not in rational]
        check_rational_operands(run, ix, cmp_helper, rational, eff)
        if len(rets) != 1:
            reason = '_compare does not end in a single call of the comparison kernel'
        else:
            a = rets[0].value.args
            if len(a) != 2 or norm(a[0]) != '%s._mpi_' % params[0] or \
                    norm(a[1]) != '%s._mpi_' % params[1]:
                reason = ('_compare calls the kernel with %s; expected (self._mpi_, other._mpi_)'
                          % ', '.join(norm(x) for x in a))
    if reason:
        run.fail(Finding('F-R3', CTX_IV, 'ivmpf._compare', 'def _compare', reason,
                         line=getattr(cmp_helper, 'lineno', None)))
    else:
        run.ok('F-R3', 'ivmpf._compare returns cmpfun(self._mpi_, other._mpi_)')

    # ---- `in` ----------------------------------------------------------------
    cont = eff.get('__contains__')
    if not isinstance(cont, ast.FunctionDef):
        raise AnalysisError('ivmpf.__contains__ vanished')
    # endpoint accessors .a/.b are the point intervals of the lower/upper endpoint
    acc = {}
    for nm, idx in (('a', 0), ('b', 1)):
        p = eff.get(nm)
        ok = False
        if isinstance(p, ast.FunctionDef):
            src = [norm(s) for s in p.body]
            if len(src) == 2 and src[0] == 'a, b = self._mpi_' and \
                    src[1] == 'return self.ctx.make_mpf((%s, %s))' % (nm, nm):
                ok = True
        acc[nm] = ok
        if not ok:
            run.fail(Finding('F-R4', CTX_IV, 'ivmpf.%s' % nm, 'def %s' % nm,
                             'endpoint accessor is not the point interval of the %s endpoint'
                             % ('lower' if idx == 0 else 'upper'),
                             line=getattr(p, 'lineno', None)))
    bad = None
    nbad = 0
    for o in orders:
        sa, sb, ta, tb = o
        try:
            got = eval_contains(ix, cont, (sa, sb), (ta, tb), optable)
        except Rerounded as e:
            run.fail(Finding('F-R4', CTX_IV, 'ivmpf.__contains__', str(e),
                             'the containment test is made with `%s`, a copy of an operand that unary plus / minus rounds '
                             'OUTWARD to the current precision: an interval built at a higher precision is then tested '
                             'as a wider one, and `in` is True for numbers outside it' % e, line=cont.lineno))
            break
        except Unsupported as e:
            if any(f.rule == 'F-R3' for f in run.findings):
                # an operator method the containment test relies on is already reported as not
                # being a plain dispatch to its kernel: `in` cannot be evaluated on top of it
                run.notes.append('`in` not evaluated: %s' % e)
                break
            raise AnalysisError('ivmpf.__contains__: %s' % e)
        want = (sa <= ta and tb <= sb)
        if bool(got) != want or got is None:
            nbad += 1
            bad = bad or (o, got, want)
            run.rule('F-R4')['sites'] += 1
            run.obligations += 1
        else:
            run.ok('F-R4')
    if bad:
        o, got, want = bad
        run.rule('F-R4')['failed'] += nbad
        run.findings.append(Finding(
            'F-R4', CTX_IV, 'ivmpf.__contains__', 'def __contains__',
            '`t in s` is not containment on %d orderings, e.g. ranks (sa,sb,ta,tb)=%s: '
            'returns %r, expected %r' % (nbad, o, got, want), line=cont.lineno))
    run.sample('F-R4', '`t in s` evaluated on %d orderings through ivmpf.__le__ -> mpi_le' % len(orders))

    check_fallback_values(run, ix)
    check_exact_number_operands(run, ix)
    # F-R15: an operand that is mp's eps keeps its value (rule X-R14 of the C38 module): evaluated at iv.prec it is
    # another number and the predicates answer for that one
    from . import c38
    run.rule('F-R15', floor=4, desc='eps of the mp context as an operand keeps its value (X-R14)')
    c38.check_contextual_constants(run, ix, rule='F-R15')

    # ---- complex operand of `in` (ctx.mpf(t) hands back an ivmpc for a complex t) -----------
    if not any(f.rule in ('F-R3', 'F-R4') for f in run.findings):
        first = None
        nbad = 0
        for o in orders:
            sa, sb, ta, tb = o
            for im in ('nonzero', 'zero'):
                want = (sa <= ta and tb <= sb) if im == 'zero' else False
                try:
                    got = eval_contains(ix, cont, (sa, sb), (ta, tb), optable, t_imag=im)
                    why = None if (got is not None and bool(got) == want) else \
                        'returns %r, expected %r' % (got, want)
                except ComplexAsReal as e:
                    why = ('the complex operand is used as a real interval (%s) without its '
                           'imaginary part being examined' % e)
                except Unsupported as e:
                    raise AnalysisError('ivmpf.__contains__ (complex operand): %s' % e)
                if why:
                    nbad += 1
                    first = first or (o, im, why)
                    run.rule('F-R5')['sites'] += 1
                    run.obligations += 1
                else:
                    run.ok('F-R5')
        if first:
            o, im, why = first
            run.rule('F-R5')['failed'] += nbad
            run.findings.append(Finding(
                'F-R5', CTX_IV, 'ivmpf.__contains__', 'def __contains__ (complex operand)',
                'a complex t with %s imaginary part, ranks (sa,sb,ta,tb)=%s: %s (%d cases)'
                % (im, o, why, nbad), line=cont.lineno))
        run.sample('F-R5', 'complex operand of `in`: False unless Im is exactly zero and Re is contained')


CMP_METHODS = ('__lt__', '__le__', '__gt__', '__ge__', '__eq__', '__ne__', '_cmp', '_compare',
               '__contains__')


def check_fallback_values(run, ix):
    """A comparison method that cannot handle its operand answers with the NotImplemented
    singleton (Python then tries the reflected operation and finally raises TypeError).  Any
    other non-boolean constant -- in particular an exception CLASS, which is truthy -- turns
    "cannot compare" into "True"."""
    import builtins
    n = 0
    for rel in ('mpmath/rational.py', CTX_IV, 'mpmath/ctx_mp_python.py'):
        m = ix.module(rel)
        for f in m.funcs.values():
            if f.name not in CMP_METHODS:
                continue
            for x in ast.walk(f.node):
                if not (isinstance(x, ast.Return) and isinstance(x.value, ast.Name)):
                    continue
                nm = x.value.id
                obj = getattr(builtins, nm, None)
                if nm == 'NotImplemented':
                    n += 1
                    run.ok('F-R6', '%s returns NotImplemented' % f.qualname if n < 4 else None)
                elif isinstance(obj, type) and issubclass(obj, BaseException):
                    n += 1
                    run.fail(Finding('F-R6', rel, f.qualname, norm(x),
                                     'a comparison returns the exception class %s (a truthy object) '
                                     'instead of the NotImplemented singleton: "x < y" is reported '
                                     'True for operands it cannot compare' % nm, line=x.lineno))
    if n < 6:
        raise AnalysisError('only %d NotImplemented fallbacks found in comparison methods' % n)


class ComplexAsReal(Exception):
    pass


class Rerounded(Exception):
    """an operand of the comparison is replaced by a re-rounded copy (+x / -x / abs(x))"""


def check_rational_operands(run, ix, cmp_helper, rational, eff):
    """F-R13.  A Fraction or mpq operand is an exact number.  Converting it yields its ENCLOSURE at the working
    precision, and comparing enclosures answers a different question (iv.mpf([2**53, 2**53+2]) == Fraction(2**53+1)
    was True; Fraction(1, 3) in [fl(1/3), 1] False; iv.mpf(0.1) > Fraction(1, 10) None).  Decided: _compare and
    __contains__ test for a rational first (`_rational`: the pair from `_mpq_` or (numerator, denominator) of a
    numbers.Rational that is not an int), scale the interval by the denominator with precision-less -- exact --
    mpf_mul in `_scaled`, and hand (scaled self, point of the numerator) to the kernel in that order."""
    run.rule('F-R13', floor=4, desc='exact rational operands of interval comparisons are compared exactly')
    rat = eff.get('_rational')
    sc = eff.get('_scaled')
    if not isinstance(rat, ast.FunctionDef) or not isinstance(sc, ast.FunctionDef) or not rational:
        run.fail(Finding('F-R13', CTX_IV, 'ivmpf._compare', 'def _compare',
                         'a Fraction / mpq operand is converted to its enclosure at the working precision before the '
                         'comparison: == / != / in give definite answers about the enclosure, not the number '
                         '(iv.mpf([2**53, 2**53+2]) == Fraction(2**53+1) is True)', line=cmp_helper.lineno))
        return
    rr = [norm(x.value) for x in ast.walk(rat) if isinstance(x, ast.Return)]
    t = rat.args.args[1].arg
    if sorted(rr) == sorted(['%s._mpq_' % t, '(%s.numerator, %s.denominator)' % (t, t), 'None']):
        run.ok('F-R13', '_rational yields the exact (numerator, denominator) or None')
    else:
        run.fail(Finding('F-R13', CTX_IV, 'ivmpf._rational', 'def _rational', '_rational does not return the exact '
                         'numerator / denominator pair of the operand: %s' % rr, line=rat.lineno))
    # _scaled: exact products of both endpoints with the same integer
    body = [norm(x) for x in sc.body if not (isinstance(x, ast.Expr) and isinstance(x.value, ast.Constant))]
    q = sc.args.args[1].arg
    me = sc.args.args[0].arg
    want = ['a, b = %s._mpi_' % me, '%s = from_int(%s)' % (q, q), 'return (libmp.mpf_mul(a, %s), libmp.mpf_mul(b, %s))' % (q, q)]
    if body == want:
        run.ok('F-R13', '_scaled multiplies both endpoints by the denominator with precision-less (exact) mpf_mul')
    else:
        run.fail(Finding('F-R13', CTX_IV, 'ivmpf._scaled', 'def _scaled', 'the interval is not scaled exactly and '
                         'uniformly (expected %s, found %s): a rounded or one-sided scaling changes the answer'
                         % (want[-1], body[-1:]), line=sc.lineno))
    # the kernel call
    me, other, kern = [a.arg for a in cmp_helper.args.args]
    pqs = [x for x in ast.walk(cmp_helper) if isinstance(x, ast.Assign) and
           norm(x.value) == '%s._rational(%s)' % (me, other)]
    ok = False
    if pqs:
        pq = norm(pqs[0].targets[0])
        for r in rational:
            par = r._parent
            pdef = [x for x in par.body if isinstance(x, ast.Assign) and norm(x.value) == 'from_int(%s[0])' % pq] \
                if isinstance(par, ast.If) else []
            if isinstance(par, ast.If) and norm(par.test) == '%s is not None' % pq and pdef:
                pn = norm(pdef[0].targets[0])
                if norm(r.value) == '%s(%s._scaled(%s[1]), (%s, %s))' % (kern, me, pq, pn, pn) and \
                        par.lineno > pqs[0].lineno:
                    ok = True
    if ok:
        run.ok('F-R13', '_compare: cmpfun(self scaled by the denominator, point of the numerator), self first')
    else:
        run.fail(Finding('F-R13', CTX_IV, 'ivmpf._compare', norm(rational[0]), 'the rational path does not call the '
                         'kernel as cmpfun(self._scaled(q), (p, p)) under `pq is not None`', line=rational[0].lineno))
    cont = eff.get('__contains__')
    txt = ast.unparse(cont) if isinstance(cont, ast.FunctionDef) else ''
    if '_rational(' in txt and 'mpf_le(a, p) and mpf_le(p, b)' in txt and '_scaled(' in txt:
        run.ok('F-R13', '__contains__: a*q <= p <= b*q for a rational p/q')
    else:
        run.fail(Finding('F-R13', CTX_IV, 'ivmpf.__contains__', 'def __contains__', 'membership of a rational is not '
                         'decided as a*q <= p <= b*q on the exactly scaled interval',
                         line=getattr(cont, 'lineno', None)))


def eval_contains(ix, fnode, s_iv, t_iv, optable, t_imag=None):
    """Evaluate `t in s` on one endpoint ordering.  t_imag=None: t is a real interval;
    'zero' / 'nonzero': t is a complex interval with real part t_iv and that imaginary part."""
    params = [a.arg for a in fnode.args.args]
    tval = ('iv', t_iv) if t_imag is None else ('civ', t_iv, t_imag)
    env = {params[0]: ('iv', s_iv), params[1]: tval}

    class _Ret(Exception):
        pass

    def ev(e):
        if isinstance(e, ast.Name):
            if e.id == 'mpi_zero':
                return ('imag', 'zero')
            return env[e.id]
        if isinstance(e, ast.Constant) and e.value in (True, False):
            return e.value
        if isinstance(e, ast.Attribute) and e.attr in ('a', 'b'):
            v = ev(e.value)
            if v[0] == 'civ':
                raise ComplexAsReal(norm(e))
            if v[0] != 'iv':
                raise Unsupported('attribute of non-interval')
            x = v[1][0] if e.attr == 'a' else v[1][1]
            return ('iv', (x, x))
        if isinstance(e, ast.Attribute) and e.attr == '_mpci_':
            v = ev(e.value)
            if v[0] != 'civ':
                raise Unsupported('_mpci_ of a real interval')
            return ('pair', ('raw', v[1]), ('imag', v[2]))
        if isinstance(e, ast.Attribute) and e.attr in ('real', 'imag'):
            v = ev(e.value)
            if v[0] == 'iv':
                return v if e.attr == 'real' else ('imag', 'zero')
            if v[0] == 'civ':
                return ('iv', v[1]) if e.attr == 'real' else ('imag', v[2])
            raise Unsupported('%s of %s' % (e.attr, v[0]))
        if isinstance(e, ast.Call) and norm(e.func) in ('self.ctx.mpf', 'self.ctx.convert', 'self._operand') \
                and len(e.args) == 1:
            return ev(e.args[0])       # conversion of an interval is the identity (numbers: rule F-R11)
        if isinstance(e, ast.Call) and norm(e.func) == 'self.ctx.make_mpf' and len(e.args) == 1:
            v = ev(e.args[0])
            if v[0] != 'raw':
                raise Unsupported('make_mpf of %s' % v[0])
            return ('iv', v[1])
        if isinstance(e, ast.Call) and norm(e.func) == 'hasattr' and len(e.args) == 2 and \
                isinstance(e.args[1], ast.Constant):
            v = ev(e.args[0])
            if e.args[1].value == '_mpci_':
                return v[0] == 'civ'
            if e.args[1].value == '_mpi_':
                return v[0] == 'iv'
            raise Unsupported('hasattr %s' % e.args[1].value)
        if isinstance(e, ast.UnaryOp) and isinstance(e.op, ast.Not):
            v = ev(e.operand)
            if v is None or isinstance(v, bool):
                return not v
            raise Unsupported('not of %r' % (v,))
        if isinstance(e, ast.UnaryOp) and isinstance(e.op, (ast.UAdd, ast.USub)):
            v = ev(e.operand)
            if isinstance(v, tuple) and v and v[0] in ('iv', 'civ'):
                # +x / -x of an interval is mpi_pos / mpi_neg at the CURRENT precision: a wider interval
                raise Rerounded(norm(e))
            raise Unsupported('unary operator on %r' % (v,))
        if isinstance(e, ast.Call) and norm(e.func) == 'self._rational' and len(e.args) == 1:
            ev(e.args[0])
            return ('none',)          # the operand is an interval here, not a Fraction / mpq (rule F-R13)
        if isinstance(e, ast.Compare) and len(e.ops) == 1 and isinstance(e.ops[0], (ast.Is, ast.IsNot)) and \
                isinstance(e.comparators[0], ast.Constant) and e.comparators[0].value is None:
            v = ev(e.left)
            isnone = (v == ('none',))
            return isnone if isinstance(e.ops[0], ast.Is) else not isnone
        if isinstance(e, ast.Compare) and len(e.ops) == 1:
            a = ev(e.left)
            b = ev(e.comparators[0])
            if a[0] == 'imag' or b[0] == 'imag':
                if not (a[0] == b[0] == 'imag') or 'zero' not in (a[1], b[1]) or \
                        not isinstance(e.ops[0], (ast.Eq, ast.NotEq)):
                    raise Unsupported('imaginary part compared as %s' % norm(e))
                same = a[1] == b[1]
                return same if isinstance(e.ops[0], ast.Eq) else not same
            if a[0] == 'civ' or b[0] == 'civ':
                raise ComplexAsReal(norm(e))
            op = CMPOP.get(type(e.ops[0]))
            kern = optable.get(op)
            if kern is None:
                raise Unsupported('comparison %s has no verified kernel' % norm(e))
            evr = OrderEvaluator(ix, LIBMPI)
            return evr.call(kern, [a[1], b[1]])
        if isinstance(e, ast.BoolOp):
            last = None
            for x in e.values:
                last = ev(x)
                if isinstance(e.op, ast.And) and not last:
                    return last
                if isinstance(e.op, ast.Or) and last:
                    return last
            return last
        raise Unsupported('expression not modelled: %s' % norm(e))

    def block(body):
        for st in body:
            if isinstance(st, ast.Assign) and len(st.targets) == 1 and \
                    isinstance(st.targets[0], ast.Name):
                env[st.targets[0].id] = ev(st.value)
            elif isinstance(st, ast.Assign) and len(st.targets) == 1 and \
                    isinstance(st.targets[0], ast.Tuple) and len(st.targets[0].elts) == 2:
                v = ev(st.value)
                if v[0] != 'pair':
                    raise Unsupported('unpacking of %s' % v[0])
                for tgt, x in zip(st.targets[0].elts, v[1:]):
                    env[tgt.id] = x
            elif isinstance(st, ast.Return):
                r = _Ret()
                r.value = ev(st.value) if st.value is not None else None
                raise r
            elif isinstance(st, ast.If):
                c = ev(st.test)
                if c is not None and not isinstance(c, bool):
                    raise Unsupported('condition %s is not a truth value' % norm(st.test))
                block(st.body if c else st.orelse)
            elif isinstance(st, ast.Expr) and isinstance(st.value, ast.Constant):
                continue
            else:
                raise Unsupported('statement not modelled: %s' % norm(st))

    try:
        block(fnode.body)
    except _Ret as r:
        return r.value
    return None


# --------------------------------------------------------------------------- F-R11
def check_exact_number_operands(run, ix):
    """F-R11.  `==`, `!=`, the orderings and `in` compare a NUMBER with an interval exactly only if the number is
    not first replaced by an enclosure rounded to the working precision (iv.convert rounds ints and floats outward:
    [2**53, 2**53+2] == 2**53+1 was True, 0.1 in [mpf(0.1), mpf(0.3)] False at 30 bits).  The operand helper of
    ivmpf must convert ints and floats with precision 0 (exact) into a point interval with both endpoints the same
    value, and _compare / __contains__ must take their non-interval operand through it."""
    run.rule('F-R11', floor=4, desc='number operands of interval comparisons are converted exactly')
    cls = ix.module(CTX_IV).classes.get('ivmpf')
    if cls is None:
        raise AnalysisError('class ivmpf vanished')
    helper = cls.methods.get('_operand')
    users = [cls.methods.get('__contains__'), cls.methods.get('_compare')]
    if None in users:
        raise AnalysisError('ivmpf._compare / __contains__ vanished')
    for u in users:
        convs = [c for c in _walk_own(u.node) if isinstance(c, ast.Call) and isinstance(c.func, ast.Attribute)
                 and c.func.attr in ('convert', 'mpf', '_operand') and c.args
                 and norm(c.args[0]) == u.params[1]]
        if not convs:
            raise AnalysisError('%s: conversion of the operand not found' % u.qualname)
        for c in convs:
            if c.func.attr == '_operand':
                run.ok('F-R11', '%s takes its operand through _operand' % u.qualname)
            else:
                run.fail(Finding('F-R11', CTX_IV, u.qualname, norm(c), 'a number operand is converted with %s, which '
                                 'rounds an int or float OUTWARD to the working precision: the comparison is then '
                                 'made with that enclosure, not with the number (iv.mpf([2**53, 2**53+2]) == 2**53+1 '
                                 'is True; 0.1 in iv.mpf([mpf(0.1), mpf(0.3)]) is False at 30 bits)' % norm(c.func),
                                 line=c.lineno))
    if helper is None:
        if any(f.rule == 'F-R11' for f in run.findings):
            return
        raise AnalysisError('ivmpf._operand vanished')
    exact = [c for c in _walk_own(helper.node) if isinstance(c, ast.Call) and norm(c.func) in
             ('convert_mpf_', 'from_int', 'from_float')]
    for c in exact:
        idx = 1
        pe = c.args[idx] if len(c.args) > idx else None
        if norm(c.func) == 'convert_mpf_' and isinstance(pe, ast.Constant) and pe.value == 0:
            run.ok('F-R11', '_operand: %s converts exactly (precision 0)' % norm(c))
        elif norm(c.func) in ('from_int', 'from_float') and (pe is None or (isinstance(pe, ast.Constant) and pe.value == 0)) \
                and norm(c.func) == 'from_int':
            run.ok('F-R11', '_operand: %s converts exactly' % norm(c))
        else:
            run.fail(Finding('F-R11', CTX_IV, helper.qualname, norm(c), 'the number is rounded to `%s` bits before '
                             'it is compared' % (norm(pe) if pe is not None else 'default'), line=c.lineno))
    if not exact:
        run.fail(Finding('F-R11', CTX_IV, helper.qualname, 'def _operand', 'no exact conversion of ints / floats',
                         line=helper.lineno))
    pts = [c for c in _walk_own(helper.node) if isinstance(c, ast.Call) and norm(c.func).endswith('make_mpf') and c.args
           and isinstance(c.args[0], ast.Tuple) and len(c.args[0].elts) == 2]
    for c in pts:
        a, b = c.args[0].elts
        if norm(a) == norm(b):
            run.ok('F-R11', '_operand: %s is a point interval' % norm(c))
        else:
            run.fail(Finding('F-R11', CTX_IV, helper.qualname, norm(c), 'the number becomes a non-degenerate interval',
                             line=c.lineno))
