"""C24 -- function evaluations terminate.

Termination of series / Newton loops is undecidable for this family; what is
decided are necessary conditions visible in the loop shape:
  T-R1  every unbounded loop (`while 1` / `while True`) owns an exit: a break of
        its own, or a return/raise inside it
  T-R2  that exit is live: it is unconditional, or its guard depends on
        something the loop body changes (a variable assigned in the loop, a
        call, or an iterator that is advanced)
  T-R3  every `while <cond>` loop changes at least one variable of <cond> in
        its body (or the condition calls a function / reads mutable state)
  T-R4  the precision-escalation loops escalate on every pass and compare the
        escalated quantity with a bound on a path that raises
Not decided: that the exit condition eventually becomes true (convergence).
"""
import ast

from ..index import AnalysisError, norm
from ..prec_effect import _walk_own
from ..report import Finding

ESCALATION = [
    # (file, qualname, escalating variable, bound name)
    ('mpmath/ctx_mp.py', 'MPContext.hypsum', 'extraprec', 'maxprec'),
    ('mpmath/functions/hypergeometric.py', 'hypercomb', 'ctx.prec', 'maxprec'),
    ('mpmath/ctx_mp.py', 'MPContext.autoprec.f_autoprec_wrapped', 'prec2', 'maxprec2'),
]


def own_nodes(loop):
    """nodes of the loop body, not descending into nested function defs"""
    todo = list(loop.body)
    while todo:
        x = todo.pop()
        yield x
        if isinstance(x, (ast.FunctionDef, ast.Lambda, ast.ClassDef)):
            continue
        todo.extend(ast.iter_child_nodes(x))


def breaks_of(loop):
    """break statements that belong to this loop"""
    out = []

    def rec(stmts):
        for st in stmts:
            if isinstance(st, ast.Break):
                out.append(st)
            elif isinstance(st, (ast.For, ast.While, ast.AsyncFor)):
                rec(st.orelse)          # a break in the else-clause belongs to us
            elif isinstance(st, (ast.FunctionDef, ast.ClassDef)):
                continue
            else:
                for fld in ('body', 'orelse', 'finalbody'):
                    rec(getattr(st, fld, []) or [])
                for h in getattr(st, 'handlers', []):
                    rec(h.body)
    rec(loop.body)
    return out


def assigned_in(loop):
    names = set()
    for x in own_nodes(loop):
        if isinstance(x, ast.Name) and isinstance(x.ctx, ast.Store):
            names.add(x.id)
        elif isinstance(x, ast.Attribute) and isinstance(x.ctx, ast.Store):
            names.add(norm(x))
        elif isinstance(x, (ast.Subscript,)) and isinstance(x.ctx, ast.Store):
            names.add(norm(x.value))
        elif isinstance(x, ast.Call) and isinstance(x.func, ast.Attribute) and \
                x.func.attr in ('append', 'pop', 'extend', 'insert', 'update', 'next', '__next__'):
            names.add(norm(x.func.value))
    return names


def guard_chain(node, loop):
    """conditions (If tests) between an exit statement and its loop"""
    conds = []
    p = getattr(node, '_parent', None)
    child = node
    while p is not None and p is not loop:
        if isinstance(p, ast.If):
            conds.append(p.test)
        elif isinstance(p, ast.ExceptHandler):
            conds.append(ast.Name(id='<exception>', ctx=ast.Load()))
        child = p
        p = getattr(p, '_parent', None)
    return conds


def live(cond, changed):
    """the condition can change between iterations"""
    for x in ast.walk(cond):
        if isinstance(x, ast.Call):
            return True
        if isinstance(x, ast.Name) and (x.id in changed or x.id == '<exception>'):
            return True
        if isinstance(x, ast.Attribute) and norm(x) in changed:
            return True
        if isinstance(x, ast.Attribute) and x.attr in ('prec', 'dps'):
            return True
        if isinstance(x, ast.Subscript) and norm(x.value) in changed:
            return True
    return False


def cap_guards(loop, changed):
    """raises of this loop guarded by `<something the loop changes> > <bound>`"""
    out = []
    for x in own_nodes(loop):
        if not isinstance(x, ast.Raise):
            continue
        p = x._parent
        while not isinstance(p, (ast.While, ast.For)):
            p = p._parent
        if p is not loop:
            continue
        for c in guard_chain(x, loop):
            for cmp_ in ast.walk(c):
                if isinstance(cmp_, ast.Compare) and len(cmp_.ops) == 1 and \
                        isinstance(cmp_.ops[0], (ast.Gt, ast.GtE, ast.Lt, ast.LtE)):
                    big, small = cmp_.left, cmp_.comparators[0]
                    if isinstance(cmp_.ops[0], (ast.Lt, ast.LtE)):
                        big, small = small, big
                    names = set(norm(y) for y in ast.walk(big) if isinstance(y, (ast.Name, ast.Attribute)))
                    if names & changed:
                        out.append((x, cmp_, big, small))
    return out


def cond_capped(loop, changed):
    """the loop condition itself is `... and <changed> < <bound>`"""
    conj = loop.test.values if isinstance(loop.test, ast.BoolOp) and isinstance(loop.test.op, ast.And) \
        else [loop.test]
    for c in conj:
        if isinstance(c, ast.Compare) and len(c.ops) == 1 and \
                isinstance(c.ops[0], (ast.Gt, ast.GtE, ast.Lt, ast.LtE)):
            big, small = c.left, c.comparators[0]
            if isinstance(c.ops[0], (ast.Lt, ast.LtE)):
                big, small = small, big
            names = set(norm(y) for y in ast.walk(small) if isinstance(y, (ast.Name, ast.Attribute)))
            if names & changed and isinstance(small, (ast.Name, ast.Attribute)):
                return True
    return False


def dead_cap(loop, cmp_, big, small):
    """`X > B` right after `X = min(..., B)` can never be true"""
    if not isinstance(cmp_.ops[0], (ast.Gt, ast.Lt)) or not isinstance(big, ast.Name):
        return None
    # the closest preceding assignment to X in the same block or an enclosing one
    st = cmp_
    while not isinstance(st, ast.stmt):
        st = st._parent
    while st is not loop:
        par = st._parent
        for fld in ('body', 'orelse', 'finalbody'):
            blk = getattr(par, fld, None)
            if isinstance(blk, list) and st in blk:
                for prev in reversed(blk[:blk.index(st)]):
                    if isinstance(prev, ast.Assign) and norm(prev.targets[0]) == big.id:
                        v = prev.value
                        if isinstance(v, ast.Call) and norm(v.func) == 'min' and \
                                any(norm(a) == norm(small) for a in v.args):
                            return prev
                        return None
                    if any(isinstance(y, ast.Name) and y.id == big.id and isinstance(y.ctx, ast.Store)
                           for y in ast.walk(prev)):
                        return None
        st = par
    return None


# functions whose loops rely on an iteration / precision cap to terminate on
# divergent input, with the number of capped loops confirmed by reading
CAPPED = {
    ('mpmath/ctx_fp.py', 'FPContext.hypsum'): 1,
    ('mpmath/ctx_iv.py', 'MPIntervalContext.hypsum'): 1,
    ('mpmath/ctx_mp.py', 'MPContext.autoprec.f_autoprec_wrapped'): 1,
    ('mpmath/ctx_mp.py', 'MPContext.hypsum'): 1,
    ('mpmath/functions/hypergeometric.py', 'hypercomb'): 1,
    ('mpmath/functions/hypergeometric.py', '_hyp2f1_gosper'): 1,
    ('mpmath/functions/hypergeometric.py', 'hyper2d'): 1,
    ('mpmath/functions/qfunctions.py', 'qp.terms'): 1,
    ('mpmath/functions/qfunctions.py', 'qp.factors'): 1,
    ('mpmath/functions/qfunctions.py', 'qhyper.terms'): 1,
    ('mpmath/functions/zeta.py', '_hurwitz'): 1,
    ('mpmath/libmp/libhyper.py', 'complex_ei_asymptotic'): 1,
    ('mpmath/matrices/calculus.py', 'MatrixCalculusMethods.sqrtm'): 1,
    ('mpmath/matrices/calculus.py', 'MatrixCalculusMethods.logm'): 1,
    ('mpmath/matrices/eigen.py', 'hessenberg_qr'): 1,
    ('mpmath/matrices/eigen_symmetric.py', 'tridiag_eigen'): 1,
    ('mpmath/matrices/eigen_symmetric.py', 'svd_r_raw'): 1,
    ('mpmath/matrices/eigen_symmetric.py', 'svd_c_raw'): 1,
}


# unbounded loops summing B_2k / z^2k type terms: divergent for every z, usable
# only up to the smallest term (confirmed by reading)
ASYMPTOTIC = {
    ('mpmath/libmp/gammazeta.py', 'mpf_psi0'): 'digamma Euler-Maclaurin tail, real',
    ('mpmath/libmp/gammazeta.py', 'mpc_psi0'): 'digamma Euler-Maclaurin tail, complex',
    ('mpmath/libmp/gammazeta.py', 'mpc_psi'): 'polygamma Euler-Maclaurin tail',
    ('mpmath/libmp/gammazeta.py', 'glaisher_fixed'): 'Euler-Maclaurin tail of sum log(k)/k^2',
}
# Bernoulli-number loops that are convergent series or finite generators
CONVERGENT_BERNOULLI = {
    ('mpmath/libmp/gammazeta.py', 'khinchin_fixed'): 'zeta(2n) via B_2n: convergent series',
    ('mpmath/functions/zeta.py', 'polylog_unitcircle'): 'convergent expansion in log(z)',
    ('mpmath/functions/zeta.py', 'eulerpoly.terms'): 'generator, consumed by a bounded sum',
    ('mpmath/functions/zeta.py', '_hurwitz_em'): 'outer loop doubles the split point until the tail converges',
}


def run(run, ix, tier):
    run.explanation = (
        'Loop-shape rules over every while loop of the package: an unbounded loop must own '
        'a live exit; a conditional loop must change what its condition reads; the three '
        'precision-escalation loops must escalate on every pass and test the escalated '
        'quantity against a bound on a raising path.  These are necessary conditions for '
        'termination; convergence of the iterations themselves is not decidable here.')
    run.assumptions = ['for-loops over finite ranges terminate',
                       'user callbacks terminate']
    run.trusted = []
    run.rule('T-R1', floor=80, desc='unbounded loops own an exit')
    run.rule('T-R2', floor=80, desc='the exit is live')
    run.rule('T-R3', floor=60, desc='conditional loops change their condition')
    run.rule('T-R4', floor=3, desc='escalation loops are bounded')
    n_unbounded = 0
    gens = []
    for rel, m in sorted(ix.modules.items()):
        for f in m.funcs.values():
            for loop in _walk_own(f.node):
                if not isinstance(loop, ast.While):
                    continue
                const_true = isinstance(loop.test, ast.Constant) and bool(loop.test.value)
                changed = assigned_in(loop)
                if const_true:
                    n_unbounded += 1
                    exits = breaks_of(loop)
                    exits += [x for x in own_nodes(loop) if isinstance(x, (ast.Return, ast.Raise))]
                    if not exits and any(isinstance(x, (ast.Yield, ast.YieldFrom))
                                         for x in own_nodes(loop)):
                        # an infinite generator: the consumer bounds it (checked by T-R5)
                        gens.append((rel, f, loop))
                        continue
                    if not exits:
                        run.fail(Finding('T-R1', rel, f.qualname, norm(loop),
                                         'unbounded loop without any break / return / raise of its own',
                                         line=loop.lineno))
                        continue
                    run.ok('T-R1', '%s:%s line %d' % (rel, f.qualname, loop.lineno)
                           if n_unbounded < 4 else None)
                    ok = False
                    for e in exits:
                        conds = guard_chain(e, loop)
                        if not conds or all(live(c, changed) for c in conds):
                            ok = True
                            break
                    if ok:
                        run.ok('T-R2')
                    else:
                        run.fail(Finding('T-R2', rel, f.qualname, norm(loop),
                                         'every exit of this unbounded loop is guarded by a condition '
                                         'that nothing in the loop body can change (%s)'
                                         % '; '.join(norm(c, 40) for c in guard_chain(exits[0], loop)),
                                         line=loop.lineno))
                else:
                    if live(loop.test, changed):
                        run.ok('T-R3')
                    else:
                        run.fail(Finding('T-R3', rel, f.qualname, norm(loop),
                                         'loop condition `%s` reads nothing that the loop body changes'
                                         % norm(loop.test, 60), line=loop.lineno))
    run.stats['unbounded_loops'] = n_unbounded
    check_asymptotic_thresholds(run, ix)
    check_divergence_exits(run, ix)
    check_gamma3_reentry(run, ix)
    check_break_escalation(run, ix)
    check_agm_iteration(run, ix)
    check_zero_tolerance(run, ix)
    check_float_estimates(run, ix)
    check_divergent_bound_loops(run, ix)
    # ---- T-R5 / T-R6: iteration and precision caps --------------------------------
    run.rule('T-R5', floor=18, desc='loops that rely on a cap keep it inside the loop')
    run.rule('T-R6', floor=18, desc='the cap comparison is not made infeasible by a clamp')
    for (rel, qn), want in sorted(CAPPED.items()):
        f = ix.func(rel, qn)
        got = 0
        for loop in _walk_own(f.node):
            if not isinstance(loop, ast.While):
                continue
            changed = assigned_in(loop)
            caps = cap_guards(loop, changed)
            if not caps and cond_capped(loop, changed):
                got += 1
            if caps:
                got += 1
                for x, cmp_, big, small in caps:
                    d = dead_cap(loop, cmp_, big, small)
                    if d is not None:
                        run.fail(Finding('T-R6', rel, qn, norm(d),
                                         'the cap test `%s` can never be true: %s was just clamped with '
                                         'min(..., %s), so the loop re-runs at the cap forever instead of '
                                         'raising' % (norm(cmp_), norm(big), norm(small)), line=d.lineno))
                    else:
                        run.ok('T-R6', '%s: %s' % (qn, norm(cmp_)))
        if got >= want:
            run.ok('T-R5', '%s: %d capped loop(s)' % (qn, got))
        else:
            run.fail(Finding('T-R5', rel, qn, 'iteration cap',
                             'this function relies on an iteration/precision cap (raise guarded by a '
                             'comparison of a quantity the loop increases) to stop on divergent input; '
                             '%d capped loop(s) found, %d confirmed on the reference tree -- the cap '
                             'was removed or moved out of the loop' % (got, want), line=f.lineno))
    # ---- T-R7: asymptotic (Bernoulli) series ---------------------------------------
    run.rule('T-R7', floor=4, desc='asymptotic Bernoulli series own a divergence exit or start far enough out')
    LN2_2PI = 0.11032
    seen_asym = set()
    for rel, m in sorted(ix.modules.items()):
        for f in m.funcs.values():
            for loop in _walk_own(f.node):
                if not isinstance(loop, ast.While) or not (
                        isinstance(loop.test, ast.Constant) and bool(loop.test.value)):
                    continue
                changed = assigned_in(loop)
                bern = [x for x in own_nodes(loop) if isinstance(x, ast.Call) and
                        norm(x.func).split('.')[-1] in ('mpf_bernoulli', 'bernoulli') and x.args and
                        any(isinstance(y, ast.Name) and y.id in changed for y in ast.walk(x.args[0]))]
                if not bern:
                    continue
                if (rel, f.qualname) not in ASYMPTOTIC:
                    if (rel, f.qualname) not in CONVERGENT_BERNOULLI:
                        run.stats.setdefault('unclassified_bernoulli_loops', []).append(
                            '%s:%s' % (rel, f.qualname))
                    continue
                seen_asym.add((rel, f.qualname))
                # (a) divergence exit: a guard that reads a variable holding a copy of
                # another guard variable from the previous pass
                copies = {}
                for x in own_nodes(loop):
                    if isinstance(x, ast.Assign) and isinstance(x.targets[0], ast.Name) and \
                            isinstance(x.value, ast.Name):
                        copies[x.targets[0].id] = x.value.id
                exits = breaks_of(loop) + [x for x in own_nodes(loop) if isinstance(x, (ast.Return, ast.Raise))]
                div = None
                for e in exits:
                    for c in guard_chain(e, loop):
                        names = set(y.id for y in ast.walk(c) if isinstance(y, ast.Name))
                        for p_, t_ in copies.items():
                            if p_ in names and t_ in names:
                                div = (c, p_, t_)
                # (b) the recurrence start: N = int(c * wp ...) with c >= ln2/(2 pi)
                coef = None
                for x in _walk_own(f.node):
                    if isinstance(x, ast.Assign) and isinstance(x.value, (ast.Call, ast.BinOp)):
                        for y in ast.walk(x.value):
                            if isinstance(y, ast.BinOp) and isinstance(y.op, ast.Mult) and \
                                    isinstance(y.left, ast.Constant) and isinstance(y.left.value, float) \
                                    and isinstance(y.right, ast.Name) and 'int(' in norm(x.value):
                                coef = max(coef or 0, y.left.value)
                if div is not None:
                    run.ok('T-R7', '%s: divergence exit `%s` (%s holds the previous %s)'
                           % (f.qualname, norm(div[0], 50), div[1], div[2]))
                elif coef is not None and coef >= LN2_2PI:
                    run.ok('T-R7', '%s: series starts at >= %.3g * working precision (needs > ln2/2pi = 0.1103)'
                           % (f.qualname, coef))
                else:
                    run.fail(Finding('T-R7', rel, f.qualname, norm(loop),
                                     'asymptotic Bernoulli series summed until a term is below the '
                                     'tolerance, with no exit when the terms start growing, and the '
                                     'recurrence start coefficient is %s (the smallest term reaches '
                                     '2^-wp only for >= ln2/(2 pi) = 0.1103): at high precision the '
                                     'tolerance is unreachable and the loop never ends'
                                     % (coef,), line=loop.lineno))
    if seen_asym != set(ASYMPTOTIC):
        raise AnalysisError('asymptotic series loops vanished: %s' % sorted(set(ASYMPTOTIC) - seen_asym))
    # ---- T-R4 -------------------------------------------------------------------
    for rel, qn, var, bound in ESCALATION:
        f = ix.func(rel, qn)
        loops = [x for x in _walk_own(f.node) if isinstance(x, ast.While)]
        target = None
        for lp in loops:
            txt = [norm(x) for x in own_nodes(lp) if isinstance(x, (ast.AugAssign, ast.Assign))]
            if any(t.startswith(var + ' ') for t in txt):
                target = lp
                break
        if target is None:
            run.fail(Finding('T-R4', rel, qn, 'escalation loop', 'no loop that escalates %s' % var,
                             line=f.lineno))
            continue
        problems = []
        # a raise guarded by a comparison of the escalating variable with the bound
        bounded = False
        for x in own_nodes(target):
            if isinstance(x, ast.Raise):
                for c in guard_chain(x, target):
                    names = set(norm(y) for y in ast.walk(c) if isinstance(y, (ast.Name, ast.Attribute)))
                    if var in names and bound in names:
                        bounded = True
        if not bounded:
            problems.append('no raising path compares %s with %s' % (var, bound))
        # escalation grows: `*=` by a constant > 1, `+=` a positive quantity, or assignment of a sum
        grows = False
        for x in own_nodes(target):
            if isinstance(x, ast.AugAssign) and norm(x.target) == var and \
                    isinstance(x.op, (ast.Mult, ast.Add)):
                if isinstance(x.op, ast.Mult) and isinstance(x.value, ast.Constant) and x.value.value <= 1:
                    continue
                grows = True
            if isinstance(x, ast.Assign) and norm(x.targets[0]) == var and \
                    isinstance(x.value, ast.BinOp) and isinstance(x.value.op, (ast.Add, ast.Mult)):
                grows = True
        if not grows:
            problems.append('%s is not increased inside the loop' % var)
        if problems:
            run.fail(Finding('T-R4', rel, qn, norm(target), '; '.join(problems), line=target.lineno))
        else:
            run.ok('T-R4', '%s: %s grows each pass and is compared with %s before raising' % (qn, var, bound))


# helpers that sum an ASYMPTOTIC series until a term drops below the resolution of their precision
# argument; they terminate only if the argument is large enough FOR THAT PRECISION
ASYMPTOTIC_SERIES = ('real_stirling_series', 'complex_stirling_series', 'ei_asymptotic', 'complex_ei_asymptotic')
PRECISION_NAMES = ('prec', 'wp', 'prec2', 'workprec')


# zero-exit loops of a divergent (asymptotic) series whose switch-over threshold was confirmed by hand to put
# the smallest term below 2^-wp (so that the term does reach exactly 0 in fixed point)
CONFIRMED_THRESHOLDS = {
    ('mpmath/libmp/libhyper.py', 'ei_asymptotic'): 'callers require |x| > wp*ln2 + 10 (T-R8 ties that test to wp): min term e^-x < 2^-wp',
    ('mpmath/libmp/libhyper.py', 'complex_ei_asymptotic'): 'same threshold on |z| (T-R8)',
    ('mpmath/libmp/libhyper.py', 'mpf_ci_si'): 'asymptotic only if mag-1 > log2(wp), i.e. |x| > wp: min term ~ e^-x < 2^-wp',
}


def threshold_formula_problem(ix, rel, f):
    """For the inline asymptotic series of mpf_ci_si the switch-over is the expression assigned to `asymptotic`
    (in mag = exp + bc of x and the working precision wp).  The series n!/x^n reaches a term below 2^-wp only if
    x > wp*ln 2; since |x| >= 2^(mag-1), the expression is evaluated from the source on a grid of (mag, wp) and must
    imply 2^(mag-1) >= wp*ln 2.  (Other confirmed loops are helpers whose callers T-R8 checks.)"""
    import math
    from ..formula import Evaluator
    if f.qualname != 'mpf_ci_si':
        return None
    asg = [x for x in _walk_own(f.node) if isinstance(x, ast.Assign) and norm(x.targets[0]) == 'asymptotic']
    if len(asg) != 1:
        raise AnalysisError('mpf_ci_si: switch-over expression not found')
    ev = Evaluator()

    class Ev(Evaluator):
        def ev(self, e, env):
            if isinstance(e, ast.Call) and norm(e.func) == 'bitcount':
                return int(self.ev(e.args[0], env)).bit_length()
            return Evaluator.ev(self, e, env)
    for wp in list(range(8, 200)) + [256, 333, 511, 512, 513, 1000, 1023, 1024, 1025, 4000, 10 ** 5]:
        for mag in range(0, 24):
            try:
                t = Ev().ev(asg[0].value, {'mag': mag, 'wp': wp})
            except AnalysisError as e:
                raise AnalysisError('mpf_ci_si: switch-over expression: %s' % e)
            if t and not (2.0 ** (mag - 1) >= wp * math.log(2)):
                return (norm(asg[0]),
                        'the asymptotic series is chosen for mag = %d at wp = %d, i.e. for |x| as small as %g, but its '
                        'smallest term e^-x only drops below 2^-wp for x > wp*ln2 = %.1f: in between the loop `while t` '
                        'never reaches 0 (si / ci run for ever)' % (mag, wp, 2.0 ** (mag - 1), wp * math.log(2)),
                        asg[0].lineno)
    return None


def check_divergence_exits(run, ix):
    """T-R9.  A fixed-point series loop that ends only when a term is exactly 0 (`while t:`) terminates if the
    terms shrink to 0.  When the term update MULTIPLIES by the loop counter (polynomial degree > 0 in a variable
    the loop increments) the series is divergent: its terms shrink only up to about counter ~ x and grow for ever
    after.  Such a loop needs a divergence exit - a comparison of consecutive |terms| that leaves the loop - unless
    its switch-over threshold is in the table of thresholds confirmed by hand.  (mpf_expint relied on a size
    ESTIMATE that was off by up to n+m bits: expint(90, 221) never returned.)"""
    from .c17 import _degree
    run.rule('T-R9', floor=3, desc='divergent fixed-point series: divergence exit or confirmed threshold')
    n = 0
    for rel in ('mpmath/libmp/libhyper.py', 'mpmath/libmp/libelefun.py', 'mpmath/libmp/gammazeta.py'):
        for f in ix.module(rel).funcs.values():
            if not isinstance(f.node, ast.FunctionDef):
                continue
            for lp in _walk_own(f.node):
                if not isinstance(lp, ast.While):
                    continue
                tnames = {x.id for x in ast.walk(lp.test) if isinstance(x, ast.Name)}
                # `while 1: ... if not t: break` is a zero-exit loop as well
                for g in ast.walk(lp):
                    if isinstance(g, ast.If) and g.body and isinstance(g.body[-1], ast.Break):
                        for u in ast.walk(g.test):
                            if isinstance(u, ast.UnaryOp) and isinstance(u.op, ast.Not) and isinstance(u.operand, ast.Name):
                                tnames.add(u.operand.id)
                counters = {x.target.id for x in ast.walk(lp) if isinstance(x, ast.AugAssign) and
                            isinstance(x.op, ast.Add) and isinstance(x.target, ast.Name) and
                            isinstance(x.value, ast.Constant)}
                growing = None
                for x in ast.walk(lp):
                    if isinstance(x, ast.Assign) and isinstance(x.targets[0], ast.Name):
                        used = {y.id for y in ast.walk(x.value) if isinstance(y, ast.Name)}
                        # a term: feeds itself (t = ... t ...) or a loop-condition variable
                        # a term the loop's exit depends on, fed by itself or by such a term
                        if x.targets[0].id not in tnames or not (used & tnames):
                            continue
                        for c in counters:
                            d = _degree(x.value, c)
                            if d is not None and d > 0 and c in used:
                                growing = (x, c, d)
                if growing is None:
                    continue
                n += 1
                x, c, d = growing
                key = (rel, f.qualname)
                # divergence exit: an If in the loop comparing abs() of two term-like values, leaving the loop
                exit_ok = False
                term = x.targets[0].id
                related = {term}
                for y in ast.walk(lp):
                    if isinstance(y, ast.Assign) and isinstance(y.targets[0], ast.Name):
                        if isinstance(y.value, ast.Name) and y.value.id in related:
                            related.add(y.targets[0].id)          # prev = term
                        if y.targets[0].id == term and isinstance(y.value, ast.Name):
                            related.add(y.value.id)                # term = u
                for g in ast.walk(lp):
                    if isinstance(g, ast.If) and g.body and isinstance(g.body[-1], (ast.Raise, ast.Break, ast.Return)):
                        for cmp_ in ast.walk(g.test):
                            if isinstance(cmp_, ast.Compare) and len(cmp_.ops) == 1 and \
                                    isinstance(cmp_.ops[0], (ast.Gt, ast.GtE)):
                                l = {u.id for u in ast.walk(cmp_.left) if isinstance(u, ast.Name)} - {'abs'}
                                r = {u.id for u in ast.walk(cmp_.comparators[0]) if isinstance(u, ast.Name)} - {'abs'}
                                if l and r and l <= related and r <= related and l != r:
                                    exit_ok = True
                if exit_ok:
                    run.ok('T-R9', '%s: `%s` (degree %d in %s) has a divergence exit' % (f.qualname, norm(x, 50), d, c))
                elif key in CONFIRMED_THRESHOLDS:
                    why = threshold_formula_problem(ix, rel, f)
                    if why:
                        run.fail(Finding('T-R9', rel, f.qualname, why[0], why[1], line=why[2]))
                    else:
                        run.ok('T-R9', '%s: threshold confirmed: %s' % (f.qualname, CONFIRMED_THRESHOLDS[key][:70]))
                else:
                    run.fail(Finding('T-R9', rel, f.qualname, norm(x),
                                     'the loop ends only when this term is exactly 0, but the term is multiplied by the '
                                     'growing counter %s (degree %d): past its smallest term the series grows for ever.  '
                                     'There is no divergence exit and the switch-over threshold is not a confirmed one: '
                                     'an argument just inside the threshold makes the loop run for ever' % (c, d),
                                     line=x.lineno))
    if n < 3:
        raise AnalysisError('T-R9: only %d divergent fixed-point series loops found' % n)


def check_gamma3_reentry(run, ix):
    """T-R10.  gammainc(z, a, b) hands the case "both limits given" to _gamma3.  _gamma3 may call gammainc back only
    in the one-limit forms (which dispatch to the upper / lower gamma functions): a call that again gives both
    limits - even (z, 0, a) - is swapped by gammainc's own normalisation into a generalized gamma function whenever
    a < 0 and comes straight back, 15 bits of precision higher each time, until RecursionError."""
    rel = 'mpmath/functions/expintegrals.py'
    f = ix.func(rel, '_gamma3')
    run.rule('T-R10', floor=2, desc='_gamma3 re-enters gammainc only in one-limit forms')
    n = 0
    for c in _walk_own(f.node):
        if isinstance(c, ast.Call) and norm(c.func) == 'ctx.gammainc':
            n += 1
            two = len(c.args) >= 3 or any(k.arg == 'b' for k in c.keywords)
            if two:
                run.fail(Finding('T-R10', rel, f.qualname, norm(c),
                                 'the handler of the two-limit case calls gammainc with two limits again: for a '
                                 'negative limit the normalisation in gammainc turns it back into this case and the '
                                 'two functions call each other without end (RecursionError, not a documented exception)',
                                 line=c.lineno))
            else:
                run.ok('T-R10', '_gamma3 -> %s (one limit)' % norm(c, 50))
    if n < 2:
        raise AnalysisError('_gamma3: calls of gammainc not found')


def check_asymptotic_thresholds(run, ix):
    """T-R8.  An asymptotic series evaluated at precision `wp` terminates only when the argument was
    made large enough for `wp` bits.  The quantity that decides this (the threshold of the
    switch-over, the target of the argument reduction) must therefore be computed from the very
    precision variable the series is called with, after that variable received its final value:
    a threshold taken from `prec` while the series runs at `wp = prec + 20`, or computed before
    `wp += extra`, leaves a window of arguments for which the smallest term never drops below
    2**-wp and the summation loop never ends."""
    run.rule('T-R8', floor=4, desc='asymptotic series: threshold computed from the precision the series runs at')
    nsites = 0
    for rel in ('mpmath/libmp/gammazeta.py', 'mpmath/libmp/libhyper.py'):
        m = ix.module(rel)
        for f in m.funcs.values():
            if f.parent is not None or not isinstance(f.node, ast.FunctionDef):
                continue
            calls = [x for x in _walk_own(f.node) if isinstance(x, ast.Call) and isinstance(x.func, ast.Name)
                     and x.func.id in ASYMPTOTIC_SERIES]
            for c in calls:
                pv = c.args[-1] if c.args else None
                if not isinstance(pv, ast.Name):
                    raise AnalysisError('%s: precision argument of %s is not a variable' % (f.name, c.func.id))
                nsites += 1
                pvn = pv.id
                # gating quantities: assignments before the call whose value mentions a precision name and
                # whose target (or the value itself, when it is a comparison) is used in a test
                tests = [norm(x.test, 300) for x in _walk_own(f.node) if isinstance(x, (ast.If, ast.While, ast.IfExp))]
                writes = [x for x in _walk_own(f.node) if isinstance(x, (ast.Assign, ast.AugAssign)) and
                          any(isinstance(t, ast.Name) and t.id == pvn
                              for t in (x.targets if isinstance(x, ast.Assign) else [x.target]))]
                problems = []
                ngates = 0
                for a in _walk_own(f.node):
                    if not (isinstance(a, ast.Assign) and len(a.targets) == 1 and isinstance(a.targets[0], ast.Name)):
                        continue
                    if a.lineno >= c.lineno:
                        continue
                    tname = a.targets[0].id
                    if tname in PRECISION_NAMES or tname == pvn:
                        continue
                    pn = set(n.id for n in ast.walk(a.value) if isinstance(n, ast.Name) and
                             (n.id in PRECISION_NAMES or n.id == pvn))
                    if not pn:
                        continue
                    used_in_test = any(tname in t.replace('(', ' ').replace(')', ' ').split() or
                                       (tname + ' ') in t or t.startswith(tname) or (' ' + tname) in t for t in tests)
                    if not (used_in_test or isinstance(a.value, ast.Compare)):
                        continue
                    # a threshold is an int / bool expression: no number-kernel call in it
                    if any(isinstance(y, ast.Call) and isinstance(y.func, ast.Name) and
                           y.func.id.startswith(('mpf_', 'mpc_', 'to_fixed', 'from_', 'mpi_'))
                           for y in ast.walk(a.value)):
                        continue
                    if not (isinstance(a.value, ast.Compare) or
                            (isinstance(a.value, ast.Call) and norm(a.value.func) in ('int', 'max', 'min'))):
                        continue
                    ngates += 1
                    if pvn not in pn:
                        problems.append((a, 'is computed from `%s`, but the series runs at `%s`' % ('/'.join(sorted(pn)), pvn)))
                        continue
                    later = [w for w in writes if a.lineno < w.lineno < c.lineno]
                    if later:
                        problems.append((a, 'is computed before `%s` is changed (line %d: `%s`) and the series runs at '
                                         'the new value' % (pvn, later[0].lineno, norm(later[0], 40))))
                if problems:
                    for a, why in problems:
                        run.fail(Finding('T-R8', rel, f.name, norm(a),
                                         'the threshold `%s` that guards the asymptotic series %s(..., %s) %s: for '
                                         'arguments between the two thresholds the smallest term stays above the '
                                         'resolution and the summation loop does not terminate'
                                         % (a.targets[0].id, c.func.id, pvn, why), line=a.lineno))
                elif ngates:
                    run.ok('T-R8', '%s: %d threshold(s) of %s computed from `%s` after its last change'
                           % (f.name, ngates, c.func.id, pvn))
                else:
                    raise AnalysisError('%s: no precision-dependent threshold found in front of %s' % (f.name, c.func.id))
    if nsites < 4:
        raise AnalysisError('asymptotic series call sites vanished (%d)' % nsites)


# --------------------------------------------------------------------------- T-R11
BREAK_ESCALATION = (('mpmath/ctx_base.py', 'StandardBaseContext.sum_accurately'),
                    ('mpmath/ctx_base.py', 'StandardBaseContext.mul_accurately'))


def check_break_escalation(run, ix):
    """T-R11.  sum_accurately / mul_accurately re-evaluate their terms at a working precision that grows by the
    observed cancellation until the cancellation is covered.  When the sum is exactly zero (the product exactly
    one) the cancellation is +inf on every round: the loop ends only if one of its exits is a CAP -- a comparison
    `escalated quantity > bound` whose bound is not recomputed inside the loop (`cancellation < extraprec` is not
    one: its other side is recomputed).  Also: every name the loop reads after the term loop is bound on every
    path through it (a sum of all-zero terms skipped the only assignment of `sum_mag`: UnboundLocalError)."""
    run.rule('T-R11', floor=4, desc='break-exit precision escalation has a cap and reads only bound names')
    for rel, qn in BREAK_ESCALATION:
        f = ix.func(rel, qn)
        loops = [x for x in _walk_own(f.node) if isinstance(x, ast.While)
                 and isinstance(x.test, ast.Constant) and bool(x.test.value)]
        if not loops:
            raise AnalysisError('%s: escalation loop not found' % qn)
        loop = loops[0]
        changed = assigned_in(loop)
        esc = {t for t in ('extraprec', 'ctx.prec') if t in changed}
        if not esc:
            raise AnalysisError('%s: no escalated quantity found' % qn)
        cap = None
        for x in own_nodes(loop):
            if not isinstance(x, (ast.Break, ast.Return, ast.Raise)):
                continue
            p = x._parent
            while not isinstance(p, (ast.While, ast.For)):
                p = p._parent
            if p is not loop:
                continue
            for c in guard_chain(x, loop):
                for cmp_ in ast.walk(c):
                    if isinstance(cmp_, ast.Compare) and len(cmp_.ops) == 1 and \
                            isinstance(cmp_.ops[0], (ast.Gt, ast.GtE, ast.Lt, ast.LtE)):
                        big, small = cmp_.left, cmp_.comparators[0]
                        if isinstance(cmp_.ops[0], (ast.Lt, ast.LtE)):
                            big, small = small, big
                        bn = {norm(y) for y in ast.walk(big) if isinstance(y, (ast.Name, ast.Attribute))}
                        sn = {norm(y) for y in ast.walk(small) if isinstance(y, (ast.Name, ast.Attribute))}
                        if bn & esc and not (sn & changed):
                            cap = cmp_
        if cap is not None:
            run.ok('T-R11', '%s: the escalation is capped by `%s`' % (qn.split('.')[-1], norm(cap)))
        else:
            run.fail(Finding('T-R11', rel, qn, norm(loop, 60), 'the working precision grows by the observed '
                             'cancellation on every pass and no exit compares it with a bound that stays fixed: for '
                             'a sum that is exactly zero (a product that is exactly one, qp(2, 1, 2)) the '
                             'cancellation is +inf forever and the precision doubles until an overflow',
                             line=loop.lineno))
        # names read after the inner term loop must be assigned before it or unconditionally inside it
        inner = [x for x in loop.body if isinstance(x, ast.For)]
        if not inner:
            raise AnalysisError('%s: term loop not found' % qn)
        i = loop.body.index(inner[0])
        pre = set()
        for st in loop.body[:i]:
            for y in ast.walk(st):
                if isinstance(y, ast.Name) and isinstance(y.ctx, ast.Store):
                    pre.add(y.id)
        uncond = {y.id for st in inner[0].body if isinstance(st, (ast.Assign, ast.AugAssign))
                  for y in ast.walk(st) if isinstance(y, ast.Name) and isinstance(y.ctx, ast.Store)}
        cond = {y.id for st in inner[0].body if isinstance(st, ast.If) for y in ast.walk(st)
                if isinstance(y, ast.Name) and isinstance(y.ctx, ast.Store)}
        params = set(f.params)
        outer = {y.id for st in f.node.body for y in ast.walk(st) if isinstance(y, ast.Name)
                 and isinstance(y.ctx, ast.Store) and st is not loop and not any(st is z for z in ast.walk(loop))}
        bad = []
        for st in loop.body[i + 1:]:
            for y in ast.walk(st):
                if isinstance(y, ast.Name) and isinstance(y.ctx, ast.Load) and y.id in cond and \
                        y.id not in pre and y.id not in params:
                    bad.append(y)
        if bad:
            run.fail(Finding('T-R11', rel, qn, norm(bad[0]._parent, 60) if hasattr(bad[0], '_parent') else bad[0].id,
                             '`%s` is read after the term loop but assigned only under a condition inside it: when no '
                             'term satisfies the condition (all terms zero: ellipe(pi, m)) the call ends in '
                             'UnboundLocalError' % bad[0].id, line=bad[0].lineno))
        else:
            run.ok('T-R11', '%s: every name read after the term loop is bound before it' % qn.split('.')[-1])


# --------------------------------------------------------------------------- T-R12
def check_agm_iteration(run, ix):
    """T-R12.  The complex AGM iteration stops when |a - b| is small relative to |a|.  With the principal square
    root, a pair (a, a) with Re a < 0 becomes (a, -a), then (0, .), and from then on one member is zero and the other
    halves forever (|a - b| = |a|): the loop must either choose the square root next to the arithmetic mean or test
    for a zero / opposite pair INSIDE the loop."""
    run.rule('T-R12', floor=1, desc='the complex AGM loop cannot reach the halving fixed point (0, x)')
    f = ix.func('mpmath/libmp/libhyper.py', 'mpc_agm')
    loops = [x for x in _walk_own(f.node) if isinstance(x, ast.While)]
    if not loops:
        raise AnalysisError('mpc_agm: loop not found')
    loop = loops[0]
    inside_zero = any(isinstance(x, ast.If) and 'mpc_zero' in norm(x.test) and
                      any(isinstance(y, ast.Return) for y in ast.walk(x)) for x in own_nodes(loop))
    closer = any(isinstance(x, ast.If) and isinstance(x.test, ast.Call) and norm(x.test.func) in ('mpf_gt', 'mpf_lt', 'mpf_ge', 'mpf_le')
                 and 'mpc_sub' in norm(x.test, 300) and 'mpc_add' in norm(x.test, 300)
                 and any(isinstance(y, ast.Call) and norm(y.func) == 'mpc_neg' for y in ast.walk(x)) for x in own_nodes(loop))
    if inside_zero or closer:
        run.ok('T-R12', 'mpc_agm: %s' % ('square root chosen next to the mean' if closer else 'zero pair tested inside the loop'))
    else:
        run.fail(Finding('T-R12', 'mpmath/libmp/libhyper.py', 'mpc_agm', norm(loop, 60),
                         'the zero / opposite-pair guards are tested only before the loop and the principal square '
                         'root is taken at every step: agm(-1, -1) goes (-1, 1), (0, i), (i/2, 0), (i/4, 0), ... and '
                         'never meets |a - b| < eps |a|', line=loop.lineno))


# --------------------------------------------------------------------------- T-R13
def check_zero_tolerance(run, ix):
    """T-R13.  Several series are summed "until a term is below eps times the leading term": `tol = ctx.eps*abs(term)`
    before a `while 1` whose only exit is `abs(term) < tol`.  When the leading term carries a factor `n**d` with n the
    summation index itself (not 2n+1 or the like) it is exactly zero at n == 0, the tolerance is zero and the strict
    comparison can never hold: the loop runs forever.  Such a tolerance must be assigned under a test that the index
    is non-zero (with a fallback for n == 0), as _djacobi_theta3a does."""
    run.rule('T-R13', floor=1, desc='a relative tolerance is not taken from a term that vanishes at index 0')
    judged = 0
    run.rule('T-R14', floor=5, desc='unbounded term generators of sum_accurately: counter cap, factorial decay or a bound before')
    check_generator_term_bound(run, ix)
    for rel, m in sorted(ix.modules.items()):
        if not rel.startswith('mpmath/functions/'):
            continue
        for f in m.funcs.values():
            if f.parent is not None or not isinstance(f.node, ast.FunctionDef):
                continue
            body = f.node.body
            # summation indices: names stepped by +-1 inside a `while 1`
            idx = set()
            for lp in _walk_own(f.node):
                if isinstance(lp, ast.While) and isinstance(lp.test, ast.Constant):
                    for a in lp.body:
                        if isinstance(a, ast.AugAssign) and isinstance(a.target, ast.Name) and \
                                isinstance(a.value, ast.Constant) and a.value.value == 1:
                            idx.add(a.target.id)
            if not idx:
                continue
            last = {}

            def scan(stmts, guards):
                nonlocal judged
                for st in stmts:
                    if isinstance(st, ast.Assign):
                        # tolerance?
                        v = st.value
                        if isinstance(v, ast.BinOp) and isinstance(v.op, ast.Mult) and 'eps' in norm(v) and \
                                any(isinstance(c, ast.Call) and norm(c.func) == 'abs' for c in ast.walk(v)):
                            absarg = [c.args[0] for c in ast.walk(v) if isinstance(c, ast.Call) and norm(c.func) == 'abs'][0]
                            src = last.get(absarg.id) if isinstance(absarg, ast.Name) else absarg
                            if src is not None:
                                bases = [p.left.id for p in ast.walk(src) if isinstance(p, ast.BinOp) and isinstance(p.op, ast.Pow)
                                         and isinstance(p.left, ast.Name) and p.left.id in idx]
                                if bases:
                                    judged += 1
                                    n_ = bases[0]
                                    ok = any(norm(g) in ('%s != 0' % n_, n_, '%s' % n_) for g in guards)
                                    if ok:
                                        run.ok('T-R13', '%s: `%s` only where %s != 0' % (f.name, norm(st), n_))
                                    else:
                                        run.fail(Finding('T-R13', rel, f.qualname, norm(st), 'the tolerance is eps times a '
                                                         'term with the factor `%s**...`, which is exactly zero when the '
                                                         'series starts at %s == 0: the loop exit `abs(term) < tolerance` '
                                                         'can then never be taken (jtheta(3, 0.3+0.5j, 0.5, 1) never '
                                                         'returns)' % (n_, n_), line=st.lineno))
                        for t in st.targets:
                            for nm in ([t] if isinstance(t, ast.Name) else []):
                                last[nm.id] = st.value
                    elif isinstance(st, ast.If):
                        scan(st.body, guards + [st.test])
                        scan(st.orelse, guards)
            scan(body, [])
    run.stats['zero_tolerance_sites'] = judged


def check_generator_term_bound(run, ix):
    """T-R14.  sum_accurately stops a `while 1` term generator only when the terms have become small against the sum;
    how many terms that takes is decided by the ARGUMENT (decay rate).  A generator with an unbounded loop is
    accepted when (i) its loop compares a counter with a bound and leaves (break / return / raise), or (ii) its terms
    decay factorially (the running term is divided by the loop counter), or (iii) the enclosing function bounds the
    number of terms before the generator is defined (a raise under a comparison that involves the quantity the loop
    scales by).  Otherwise an argument with a slow decay keeps the loop busy for an astronomic number of terms
    (primezeta(mpc(2**-40, 1)): 7e13 evaluations of zeta)."""
    for f in ix.all_funcs():
        if '/tests/' in f.file:
            continue
        for c in _walk_own(f.node):
            if not (isinstance(c, ast.Call) and norm(c.func).endswith('sum_accurately') and c.args and
                    isinstance(c.args[0], ast.Name)):
                continue
            gens = [nf for nf in f.nested if nf.name == c.args[0].id]
            if not gens:
                continue
            g = gens[0]
            loops = [x for x in ast.walk(g.node) if isinstance(x, ast.While) and isinstance(x.test, ast.Constant)
                     and x.test.value]
            for lp in loops:
                counters = set()
                for x in own_nodes(lp):
                    if isinstance(x, ast.AugAssign) and isinstance(x.op, ast.Add) and isinstance(x.target, ast.Name) \
                            and isinstance(x.value, ast.Constant):
                        counters.add(x.target.id)
                capped = False
                for x in own_nodes(lp):
                    if isinstance(x, ast.If) and isinstance(x.test, ast.Compare) and \
                            any(isinstance(n_, ast.Name) and n_.id in counters for n_ in ast.walk(x.test.left)) and \
                            isinstance(x.test.ops[0], (ast.Gt, ast.GtE)) and \
                            any(isinstance(b, (ast.Break, ast.Return, ast.Raise)) for b in x.body):
                        capped = True
                factorial = False
                for x in own_nodes(lp):
                    if isinstance(x, ast.Assign) and isinstance(x.value, ast.BinOp) and isinstance(x.value.op, ast.Div) \
                            and isinstance(x.value.right, ast.Name) and x.value.right.id in counters and \
                            any(isinstance(n_, ast.Name) and n_.id == norm(x.targets[0]) for n_ in ast.walk(x.value.left)):
                        factorial = True
                before = False
                for st in f.node.body:
                    if st.lineno >= g.node.lineno:
                        break
                for x in _walk_own(f.node):
                    if isinstance(x, ast.If) and x.lineno < g.node.lineno and isinstance(x.test, ast.Compare) and \
                            any(isinstance(b, ast.Raise) and 'NoConvergence' in norm(b) for b in x.body):
                        before = True
                if capped or factorial or before:
                    run.ok('T-R14', '%s.%s: %s' % (f.qualname, g.name, 'counter cap inside the loop' if capped else
                                                  ('factorial decay of the terms' if factorial else
                                                   'term count bounded before the generator')))
                else:
                    run.fail(Finding('T-R14', f.file, f.qualname, 'def %s' % g.name,
                                     'the `while 1` loop of the term generator handed to sum_accurately has no cap on its '
                                     'counter, no factorial decay, and the number of terms is not bounded before: it ends only '
                                     'when the terms have decayed, after a number of terms set by the argument '
                                     '(primezeta(mpc(2**-40, 1)) needs 7e13 evaluations of zeta)', line=g.node.lineno))


# --------------------------------------------------------------------------- T-R15
def check_float_estimates(run, ix):
    """T-R15 (fourth C24 hunt; repair 77a2f5d).  The Riemann-Siegel code estimates its error terms with Python floats:
    `math.pow(9, sigma)`, `math.pow(2, -sigma)` with sigma taken from the argument.  A float power with an exponent that
    is not a constant overflows for a finite argument (|sigma| > 323) and raises OverflowError, which is neither among
    the documented exceptions nor what the callers of the Riemann-Siegel entry points catch (zeta and siegelz fall back
    on NotImplementedError).  Decided: every @defun entry point of rszeta.py from which a `math.pow` / `math.exp` with a
    non-constant exponent is reachable inside the module makes its calls inside a `try` that has a handler for
    OverflowError (or ArithmeticError / Exception) which raises one of the documented exceptions."""
    REL = 'mpmath/functions/rszeta.py'
    DOCUMENTED = ('NotImplementedError', 'ValueError', 'ZeroDivisionError', 'NoConvergence', 'ctx.NoConvergence')
    run.rule('T-R15', floor=2, desc='float estimates with argument-dependent exponents: OverflowError becomes a documented exception')
    m = ix.module(REL)
    top = dict((f.name, f) for f in m.funcs.values() if f.parent is None)

    def risky_here(f):
        out = []
        for c in _walk_own(f.node):
            if isinstance(c, ast.Call) and norm(c.func) in ('math.pow', 'math.exp') and c.args:
                e = c.args[-1]
                if not all(isinstance(y, (ast.Constant, ast.UnaryOp, ast.BinOp, ast.operator, ast.unaryop, ast.Load))
                           for y in ast.walk(e)):
                    out.append(c)
        return out
    reach = {}

    def reaches(name, seen=()):
        if name in reach:
            return reach[name]
        f = top[name]
        r = bool(risky_here(f))
        if not r:
            for c in _walk_own(f.node):
                if isinstance(c, ast.Call):
                    callee = None
                    if isinstance(c.func, ast.Name) and c.func.id in top:
                        callee = c.func.id
                    elif isinstance(c.func, ast.Attribute) and norm(c.func.value) == 'ctx' and c.func.attr in top:
                        callee = c.func.attr
                    if callee and callee != name and callee not in seen and reaches(callee, seen + (name,)):
                        r = True
                        break
        reach[name] = r
        return r
    entries = [f for f in top.values() if any(norm(d) == 'defun' for d in f.node.decorator_list)]
    if not entries:
        raise AnalysisError('rszeta: no @defun entry points')
    n = 0
    for f in sorted(entries, key=lambda f: f.lineno):
        calls = []
        for c in _walk_own(f.node):
            if isinstance(c, ast.Call):
                callee = c.func.id if isinstance(c.func, ast.Name) and c.func.id in top else \
                    c.func.attr if isinstance(c.func, ast.Attribute) and norm(c.func.value) == 'ctx' and c.func.attr in top else None
                if callee and callee != f.name and reaches(callee):
                    calls.append(c)
        calls += risky_here(f)
        if not calls:
            continue
        n += 1
        bad = None
        for c in calls:
            ok = False
            p_ = c
            while p_ is not f.node:
                par = p_._parent
                if isinstance(par, ast.Try) and any(p_ is b for b in par.body):
                    for h in par.handlers:
                        names = [norm(x) for x in (h.type.elts if isinstance(h.type, ast.Tuple) else [h.type])] \
                            if h.type is not None else ['BaseException']
                        if set(names) & {'OverflowError', 'ArithmeticError', 'Exception', 'BaseException'}:
                            raises = [r for b in h.body for r in ast.walk(b) if isinstance(r, ast.Raise) and r.exc is not None]
                            if raises and all(norm(r.exc.func if isinstance(r.exc, ast.Call) else r.exc) in DOCUMENTED
                                              for r in raises):
                                ok = True
                p_ = par
            if not ok and bad is None:
                bad = c
        if bad is None:
            run.ok('T-R15', '%s: float estimates run under a handler that turns OverflowError into a documented exception' % f.qualname)
        else:
            run.fail(Finding('T-R15', REL, f.qualname, norm(bad),
                             'a float power with an exponent taken from the argument (math.pow(9, sigma)) is reachable from '
                             'this entry point outside any handler for OverflowError: siegelz(110000+330j) at 53 bits and '
                             'zeta(325+1.7e6j) at 3300 bits raise OverflowError instead of falling back (their callers catch '
                             'NotImplementedError only)', line=bad.lineno))
    if n < 2:
        raise AnalysisError('T-R15: fewer than two Riemann-Siegel entry points reach a float estimate (%d)' % n)


# --------------------------------------------------------------------------- T-R16
def check_divergent_bound_loops(run, ix):
    """T-R16 (fourth C24 hunt; repair a950b2b).  `while <bound(L)> >= eps: L = L + 1` ends only if the bound gets below
    eps.  A bound with the Gamma function (or a factorial) of the COUNTER in it -- Gamma(L/2)/(ab)^L, the size of the
    terms of an asymptotic series -- decreases to a minimum and then grows without limit: if the minimum is above eps
    the loop never ends (mp.rs_z(10)).  Decided over every while loop of the package: when the condition calls
    gamma / fac / factorial / rgamma on an expression that contains a name the body assigns, the body owns a guarded
    raise, break or return."""
    run.rule('T-R16', floor=3, desc='search loops over the bound of a divergent series own a second exit')
    GROW = ('gamma', 'fac', 'factorial', 'rgamma', 'gammaprod', 'loggamma')
    n = 0
    for rel in sorted(ix.modules):
        m = ix.module(rel)
        for f in m.funcs.values():
            for lp in _walk_own(f.node):
                if not isinstance(lp, ast.While):
                    continue
                assigned = set()
                for st in ast.walk(lp):
                    if isinstance(st, (ast.Assign, ast.AugAssign)) and st is not lp:
                        for t in (st.targets if isinstance(st, ast.Assign) else [st.target]):
                            for y in ast.walk(t):
                                if isinstance(y, ast.Name):
                                    assigned.add(y.id)
                hit = None
                for c in ast.walk(lp.test):
                    if isinstance(c, ast.Call) and norm(c.func).split('.')[-1] in GROW and c.args and \
                            any(isinstance(y, ast.Name) and y.id in assigned for a in c.args for y in ast.walk(a)):
                        hit = c
                if hit is None:
                    continue
                n += 1
                exits = [x for b in lp.body for x in ast.walk(b) if isinstance(x, (ast.Raise, ast.Break, ast.Return))]
                if exits:
                    run.ok('T-R16', '%s:%d the search over `%s` owns a second exit (line %d)'
                           % (f.qualname, lp.lineno, norm(hit, 30), exits[0].lineno))
                else:
                    run.fail(Finding('T-R16', rel, f.qualname, 'while ' + norm(lp.test),
                                     'the loop ends only when `%s` gets below its tolerance, but a bound with the Gamma '
                                     'function of the counter in it grows again after its minimum: when that minimum is above '
                                     'the tolerance the loop never ends (mp.rs_z(10), mp.rs_zeta(0.5+30j) at 53 bits)'
                                     % norm(lp.test, 70), line=lp.lineno))
    if n < 3:
        raise AnalysisError('T-R16: only %d loops over a divergent bound found' % n)
