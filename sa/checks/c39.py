"""C39 -- magnitude and classification helpers are exact (Engine N, sa/classdom.py).

Decided, for EVERY mpf / mpc / int / reduced rational input, by interpreting the helper's syntax
tree once per representation class (the helpers look at a number only through class-determined
tests; anything else stops the run as an analysis error):
  N-R1  isnan, isinf, isnormal, isint (also gaussian=True), isnpint, isfinite agree with their
        specification on the 10 classes of an mpf, the 100 class pairs of an mpc, the 3 classes of a
        Python int and the 5 classes of a reduced rational; this includes dispatch exhaustiveness
        (a type without a branch falls through to an exception and fails its specification)
  N-R2  mag: exp + bc + c with c in {0, 1} for a normal mpf (|x| < 2^(exp+bc), at most 2 above
        optimal), -inf for zero, +inf for the infinities; for an mpc with two non-zero parts
        max(mag re, mag im) + 1 exactly, with one zero part the magnitude of the other part
  N-R3  ldexp multiplies by 2^n exactly (exponent + n, every other field unchanged, zero and the
        specials returned as they are); frexp returns (y, e) with e = exp + bc, the fields of y
        those of x with exponent -bc (so |y| = man / 2^bc lies in [1/2, 1)) and y * 2^e = x
  N-R4  the truth values the helpers rely on (`not x`) are those of the number classes:
        __bool__ of mpf / mpc / mpq test against zero
  N-R5  mag of a Python int / a rational: the closed forms bitcount(|x|) and 1 + bitcount(|p|) -
        bitcount(q) are evaluated from the source on a grid of values against |x| <= 2^m <= 4|x|...
        (grid evaluation of a closed form, not a proof)
  N-R6  nint_distance: the rational branch and the mpf branch (closed-form integer arithmetic on
        (p, q) / (sign, man, exp)) evaluated from the source on a grid against "n is a nearest
        integer, d = -inf iff x is an integer, else 2^(d-2) <= |x - n| < 2^(d+1)" (grid
        evaluation, not a proof)
  N-R7  nint_distance on zero and on every class with an infinite or nan component (class interpretation)
  N-R8  rationals stored without create_reduced keep a positive denominator (sign analysis of mpq's methods)
NOT decided: nint_distance beyond that grid, the fp and iv contexts, Python floats/complex
(converted by ctx.convert: C09).
"""
import ast
from fractions import Fraction

from ..index import AnalysisError, norm
from ..prec_effect import _walk_own
from ..report import Finding
from ..classdom import (ClassInterp, Unsupported, Raised, NeedsConvert, Raw, MpfObj, MpcObj, PyInt, Mpq, Int, Sym,
                        Ext, MaxSym, Tuple, all_raws)

CTXPY = 'mpmath/ctx_mp_python.py'
CTXMP = 'mpmath/ctx_mp.py'
LIBMPF = 'mpmath/libmp/libmpf.py'
PREDICATES = ('isnan', 'isinf', 'isnormal', 'isint', 'isnpint', 'isfinite')


def make_lookup(ix):
    def lookup(name):
        for rel, cls in ((CTXMP, 'MPContext'), (CTXPY, 'PythonMPContext')):
            f = ix.find_func(rel, '%s.%s' % (cls, name))
            if f is not None:
                return f.node
        f = ix.find_func(LIBMPF, name)
        if f is not None and name in ('mpf_shift', 'mpf_frexp'):
            return f.node
        return None
    return lookup


def symclasses(*raws):
    sc = {'r': 'POS'}
    for r in raws:
        if r.kind == 'N':
            sc['man' + r.tag] = 'POS'
            sc['bc' + r.tag] = 'POS'
            sc['exp' + r.tag] = r.expc
    return sc


# ---- specifications ---------------------------------------------------------------------------
def is_int_raw(r):
    return r.kind == 'Z' or (r.kind == 'N' and r.expc in ('ZERO', 'POS'))


def spec_mpf(pred, r, gaussian=False):
    return {
        'isnan': r.kind == 'NAN',
        'isinf': r.kind in ('PINF', 'NINF'),
        'isnormal': r.kind == 'N',
        'isint': is_int_raw(r),
        'isnpint': r.kind == 'Z' or (r.kind == 'N' and r.sign == 1 and r.expc in ('ZERO', 'POS')),
        'isfinite': r.kind in ('Z', 'N'),
    }[pred]


def spec_mpc(pred, re, im, gaussian=False):
    fin = lambda r: r.kind in ('Z', 'N')
    return {
        'isnan': re.kind == 'NAN' or im.kind == 'NAN',
        'isinf': re.kind in ('PINF', 'NINF') or im.kind in ('PINF', 'NINF'),
        # |z| is normal: finite and not zero
        'isnormal': fin(re) and fin(im) and not (re.kind == 'Z' and im.kind == 'Z'),
        'isint': (is_int_raw(re) and is_int_raw(im)) if gaussian else (is_int_raw(re) and im.kind == 'Z'),
        'isnpint': im.kind == 'Z' and spec_mpf('isnpint', re),
        'isfinite': not (re.kind in ('PINF', 'NINF', 'NAN') or im.kind in ('PINF', 'NINF', 'NAN')),
    }[pred]


def spec_int(pred, cls):
    return {'isnan': False, 'isinf': False, 'isnormal': cls != 'ZERO', 'isint': True,
            'isnpint': cls != 'POS', 'isfinite': True}[pred]


def spec_mpq(pred, pcls, q1):
    return {'isnan': False, 'isinf': False, 'isnormal': pcls != 'ZERO',
            'isint': q1 or pcls == 'ZERO', 'isnpint': pcls == 'ZERO' or (q1 and pcls == 'NEG'),
            'isfinite': True}[pred]


def run(run, ix, tier):
    run.explanation = (
        'The classification helpers look at a number only through the identity of the special encodings, '
        'the truth value of the mantissa, the sign bit, the sign of the exponent and affine arithmetic on '
        'exponent and bit count.  For such programs the representation class of the input (zero, +inf, -inf, '
        'nan, or normal with sign and exponent class; an odd mantissa makes "exponent >= 0" the same as '
        '"integer") determines the result, so each helper\'s syntax tree is interpreted once per class - and '
        'once per pair of classes for complex numbers - and compared with the specification.  mag, ldexp and '
        'frexp are evaluated symbolically (affine forms in exp, bc, n).  Exhaustive over the abstraction; no '
        'repository code is executed.  nint_distance is not decided.')
    run.exhaustive = True
    run.assumptions = ['raw mpf values are canonical (C01): odd mantissa, exact bit count, one encoding per special',
                       'rationals are reduced with a positive denominator (mpq invariant)']
    run.trusted = ['sa/classdom.py (interpreter over representation classes)']
    run.rule('N-R1', floor=800, desc='classification predicates on every representation class')
    run.rule('N-R2', floor=80, desc='mag: symbolic bound on every class')
    run.rule('N-R3', floor=20, desc='ldexp / frexp are exact (symbolic fields)')
    run.rule('N-R4', floor=3, desc='truth values of the number classes')
    run.rule('N-R5', floor=2, desc='mag of ints and rationals (closed form on a grid)')
    lookup = make_lookup(ix)
    for p in PREDICATES + ('mag', '_mpf_mag', 'ldexp', 'frexp'):
        if lookup(p) is None:
            raise AnalysisError('helper %s vanished' % p)
    check_truth(run, ix)
    check_predicates(run, ix, lookup)
    check_mag(run, ix, lookup)
    check_ldexp_frexp(run, ix, lookup)
    check_mag_grid(run, ix, lookup)
    check_fp_specials(run, ix)
    run.rule('N-R6', floor=2, desc='nint_distance: rational and mpf branches as closed forms on a grid')
    check_nint_distance(run, ix)
    check_nint_distance_specials(run, ix, lookup)
    check_mpq_denominators(run, ix)
    check_exact_rational_branches(run, ix)


def where(ix, name):
    for rel, cls in ((CTXMP, 'MPContext'), (CTXPY, 'PythonMPContext')):
        f = ix.find_func(rel, '%s.%s' % (cls, name))
        if f is not None:
            return rel, f
    raise AnalysisError('%s vanished' % name)


def evaluate(lookup, name, args, sc):
    it = ClassInterp(lookup, sc)
    try:
        return 'ok', it.run(lookup(name), args), it
    except Raised as r:
        return 'raise', r.what, it
    except Unsupported as u:
        raise AnalysisError('%s: %s' % (name, u))


def check_truth(run, ix):
    want = (('mpmath/ctx_mp_python.py', '_mpf.__nonzero__', 'return s._mpf_ != fzero'),
            ('mpmath/ctx_mp_python.py', '_mpc.__nonzero__', 'return mpc_is_nonzero(s._mpc_)'),
            ('mpmath/rational.py', 'mpq.__nonzero__', 'return bool(s._mpq_[0])'))
    for rel, qn, body in want:
        f = ix.func(rel, qn)
        got = [norm(s) for s in f.node.body if not (isinstance(s, ast.Expr) and isinstance(s.value, ast.Constant))]
        cls = ix.module(rel).classes.get(qn.split('.')[0])
        alias = any(isinstance(s, ast.Assign) and norm(s.targets[0]) == '__bool__' and norm(s.value) == '__nonzero__'
                    for s in cls.node.body)
        if got == [body] and alias:
            run.ok('N-R4', '%s: %s; __bool__ is the same method' % (qn, body))
        else:
            run.fail(Finding('N-R4', rel, qn, got[0] if got else 'def __nonzero__',
                             'the truth value of this number class is not "differs from zero" (%s%s): the helpers '
                             'that test `not x` misclassify' % (got, '' if alias else '; __bool__ is not bound to it'),
                             line=f.lineno))
    g = ix.func('mpmath/libmp/libmpc.py', 'mpc_is_nonzero')
    body = [norm(s) for s in g.node.body]
    if body == ['return z != mpc_zero']:
        run.ok('N-R4', 'mpc_is_nonzero: z != mpc_zero')
    else:
        run.fail(Finding('N-R4', 'mpmath/libmp/libmpc.py', 'mpc_is_nonzero', body[0] if body else 'def',
                         'not a comparison with the complex zero', line=g.lineno))


def check_predicates(run, ix, lookup):
    for pred in PREDICATES:
        rel, f = where(ix, pred)
        fails = []
        n = 0

        def judge(label, args, sc, want):
            try:
                kind, val, it = evaluate(lookup, pred, args, sc)
            except NeedsConvert as nc:
                # the helper has no branch of its own for this type and converts to mpf: every mpf the
                # conversion can produce must give the specified answer
                alts = convert_alternatives(nc.obj)
                for r in alts:
                    why = judge(label + ' converted to mpf ' + r.label(), [MpfObj(r)] + args[1:], symclasses(r), want)
                    if why:
                        return 'no branch for this type; after conversion (%s): %s' % (r.label(), why)
                return None
            if kind == 'raise':
                return 'raises %s, expected %r' % (val, want)
            try:
                got = it.truth(val)
            except Unsupported as u:
                raise AnalysisError('%s(%s): %s' % (pred, label, u))
            if got != want:
                return 'returns %r, expected %r' % (got, want)
            return None

        cases = []
        for r in all_raws():
            cases.append(('mpf %s' % r.label(), [MpfObj(r)], symclasses(r), spec_mpf(pred, r)))
        for re in all_raws('_re'):
            for im in all_raws('_im'):
                cases.append(('mpc(%s, %s)' % (re.label(), im.label()), [MpcObj(re, im)], symclasses(re, im),
                              spec_mpc(pred, re, im)))
                if pred == 'isint':
                    cases.append(('mpc(%s, %s), gaussian=True' % (re.label(), im.label()),
                                  [MpcObj(re, im), Int(True)], symclasses(re, im), spec_mpc(pred, re, im, True)))
        for cls in ('NEG', 'ZERO', 'POS'):
            cases.append(('int %s' % cls, [PyInt(cls)], {}, spec_int(pred, cls)))
        for pcls, q1 in (('NEG', True), ('POS', True), ('ZERO', True), ('NEG', False), ('POS', False)):
            sc = {'q': 'ONE' if q1 else 'GT1', 'r': 'POS'}
            cases.append(('rational p %s, q %s' % (pcls, '== 1' if q1 else '> 1'), [Mpq(pcls, q1)], sc,
                          spec_mpq(pred, pcls, q1)))
        for label, args, sc, want in cases:
            n += 1
            why = judge(label, args, sc, want)
            if why:
                fails.append((label, why))
                run.rule('N-R1')['sites'] += 1
                run.obligations += 1
            else:
                run.ok('N-R1')
        if fails:
            run.rule('N-R1')['failed'] += len(fails)
            label, why = fails[0]
            run.findings.append(Finding('N-R1', rel, f.qualname, 'def %s' % pred,
                                        '%s(x) is wrong on %d of %d representation classes, e.g. x = %s: %s'
                                        % (pred, len(fails), n, label, why), line=f.lineno))
        run.sample('N-R1', '%s: %d classes of mpf / mpc / int / rational inputs' % (pred, n))


def convert_alternatives(obj):
    if isinstance(obj, PyInt):
        if obj.cls == 'ZERO':
            return [Raw('Z')]
        return [Raw('N', 1 if obj.cls == 'NEG' else 0, e) for e in ('ZERO', 'POS')]
    # a rational: rounding to the working precision can produce any normal class of its sign
    if obj.pcls == 'ZERO':
        return [Raw('Z')]
    return [Raw('N', 1 if obj.pcls == 'NEG' else 0, e) for e in ('NEG', 'ZERO', 'POS')]


def sym_offset(v, names):
    """v == sum(names) + c  ->  c, else None"""
    if isinstance(v, Sym) and all(v.coef.get(n) == 1 for n in names) and len(v.coef) == len(names):
        return v.c
    return None


def check_mag(run, ix, lookup):
    rel, f = where(ix, 'mag')
    problems = []

    def note(ok, label, why=None):
        if ok:
            run.ok('N-R2')
        else:
            problems.append((label, why))
            run.rule('N-R2')['sites'] += 1
            run.obligations += 1

    def real_ok(val, r):
        if r.kind == 'Z':
            return isinstance(val, Ext) and val.which == 'ninf', 'expected -inf for zero'
        if r.kind in ('PINF', 'NINF'):
            return isinstance(val, Ext) and val.which == 'inf', 'expected +inf for an infinity'
        if r.kind == 'NAN':
            return isinstance(val, Ext) and val.which == 'nan', 'expected nan for nan (documented)'
        c = sym_offset(val, ['exp' + r.tag, 'bc' + r.tag])
        return c in (0, 1), 'expected exp + bc (+ at most 1): |x| < 2^(exp+bc) and 2^(exp+bc-1) <= |x|'

    for r in all_raws():
        kind, val, it = evaluate(lookup, 'mag', [MpfObj(r)], symclasses(r))
        ok, why = (False, 'raises %s' % val) if kind == 'raise' else real_ok(val, r)
        note(ok, 'mpf %s' % r.label(), '%s; got %r' % (why, val))
    for re in all_raws('_re'):
        for im in all_raws('_im'):
            kind, val, it = evaluate(lookup, 'mag', [MpcObj(re, im)], symclasses(re, im))
            label = 'mpc(%s, %s)' % (re.label(), im.label())
            if kind == 'raise':
                note(False, label, 'raises %s' % val)
                continue
            if 'NAN' in (re.kind, im.kind):
                # |z| is nan whichever component is nan: the answer must not depend on the order of the parts
                ok, why = isinstance(val, Ext) and val.which == 'nan', 'expected nan when a component is nan'
            elif re.kind == 'Z':
                ok, why = real_ok(val, im)
            elif im.kind == 'Z':
                ok, why = real_ok(val, re)
            elif re.kind in ('PINF', 'NINF') or im.kind in ('PINF', 'NINF'):
                ok, why = isinstance(val, Ext) and val.which == 'inf', 'expected +inf'
            else:
                # both parts normal: max(mag re, mag im) + 1 exactly
                ok = isinstance(val, MaxSym) and val.c == 1 and len(val.items) == 2 and \
                    sym_offset(val.items[0], ['exp_re', 'bc_re']) == 0 and \
                    sym_offset(val.items[1], ['exp_im', 'bc_im']) == 0
                why = ('expected max(mag re, mag im) + 1: |z| < sqrt(2) * 2^max needs +1, and +2 would be 3 above '
                       'optimal')
            note(ok, label, '%s; got %r' % (why, val))
    if problems:
        run.rule('N-R2')['failed'] += len(problems)
        label, why = problems[0]
        run.findings.append(Finding('N-R2', rel, f.qualname, 'def mag',
                                    'mag(x) violates its bound on %d classes, e.g. x = %s: %s'
                                    % (len(problems), label, why), line=f.lineno))
    run.sample('N-R2', 'mag evaluated symbolically on 10 mpf classes and 100 mpc class pairs')


def _rounding_constructor(run, ix, name):
    """ldexp and frexp are documented as exact ("no rounding is performed").  The constructor ctx.mpf(x) (and unary
    plus) rounds its argument to the working precision, ctx.convert does not: a call of the constructor on the way is a
    finding of N-R3, not something to interpret (seed C39-8)."""
    rel, f = where(ix, name)
    for c in _walk_own(f.node):
        if isinstance(c, ast.Call) and norm(c.func) in ('ctx.mpf', 'ctx.mpc') or \
                (isinstance(c, ast.UnaryOp) and isinstance(c.op, ast.UAdd)):
            run.rule('N-R3')['sites'] += 1
            run.obligations += 1
            run.rule('N-R3')['failed'] += 1
            run.findings.append(Finding('N-R3', rel, f.qualname, norm(c),
                                        '%s puts its argument through `%s`, which rounds to the working precision: the '
                                        'documented "no rounding is performed" is lost for an argument with more bits than '
                                        'that (frexp(1 - 2**-100) made at 200 bits and taken at 53 returns (0.5, 1); '
                                        'frexp(2**100 + 1) returns (0.5, 101))' % (name, norm(c, 30)), line=c.lineno))
            return True
    return False


def check_ldexp_frexp(run, ix, lookup):
    if _rounding_constructor(run, ix, 'ldexp') or _rounding_constructor(run, ix, 'frexp'):
        return
    rel, f = where(ix, 'ldexp')
    bad = []
    for r in all_raws():
        sc = symclasses(r)
        sc['n'] = 'ANY'
        kind, val, it = evaluate(lookup, 'ldexp', [MpfObj(r), Sym({'n': 1})], sc)
        label = 'mpf %s' % r.label()
        ok = False
        if kind == 'ok':
            raw = val.raw if isinstance(val, MpfObj) else None
            if isinstance(val, Tuple) and val.items and val.items[0] == 'made':
                raw = val.items[1]
            if r.kind != 'N':
                ok = isinstance(raw, Raw) and raw.kind == r.kind
            elif isinstance(raw, Tuple) and len(raw.items) == 4:
                s, m, e, b = raw.items
                ok = isinstance(s, Int) and s.v == r.sign and sym_offset(m, ['man']) == 0 and \
                    isinstance(e, Sym) and e.coef == {'exp': 1, 'n': 1} and e.c == 0 and sym_offset(b, ['bc']) == 0
        if ok:
            run.ok('N-R3')
        else:
            bad.append((label, val))
            run.rule('N-R3')['sites'] += 1
            run.obligations += 1
    if bad:
        run.rule('N-R3')['failed'] += len(bad)
        run.findings.append(Finding('N-R3', rel, f.qualname, 'def ldexp',
                                    'ldexp(x, n) is not x * 2^n exactly on %d classes, e.g. x = %s: fields %r'
                                    % (len(bad), bad[0][0], bad[0][1]), line=f.lineno))
    rel, f = where(ix, 'frexp')
    bad = []
    for r in all_raws():
        kind, val, it = evaluate(lookup, 'frexp', [MpfObj(r)], symclasses(r))
        label = 'mpf %s' % r.label()
        ok = False
        if r.kind in ('PINF', 'NINF', 'NAN'):
            ok = kind == 'raise'         # documented: only finite numbers
        elif kind == 'ok' and isinstance(val, Tuple) and len(val.items) == 2:
            y, e = val.items
            raw = y.raw if isinstance(y, MpfObj) else (y.items[1] if isinstance(y, Tuple) and y.items[0] == 'made' else None)
            if r.kind == 'Z':
                ok = isinstance(raw, Raw) and raw.kind == 'Z' and isinstance(e, Int) and e.v == 0
            elif isinstance(raw, Tuple) and len(raw.items) == 4:
                s, m, ex, b = raw.items
                ok = isinstance(s, Int) and s.v == r.sign and sym_offset(m, ['man']) == 0 and \
                    isinstance(ex, Sym) and ex.coef == {'bc': -1} and ex.c == 0 and \
                    sym_offset(b, ['bc']) == 0 and sym_offset(e, ['exp', 'bc']) == 0
        if ok:
            run.ok('N-R3')
        else:
            bad.append((label, val))
            run.rule('N-R3')['sites'] += 1
            run.obligations += 1
    if bad:
        run.rule('N-R3')['failed'] += len(bad)
        run.findings.append(Finding('N-R3', rel, f.qualname, 'def frexp',
                                    'frexp(x) is not (y, e) with |y| in [1/2, 1) and y * 2^e = x on %d classes, e.g. '
                                    'x = %s: %r' % (len(bad), bad[0][0], bad[0][1]), line=f.lineno))


def check_mag_grid(run, ix, lookup):
    """int and rational branches of mag: closed forms evaluated on a grid"""
    from ..formula import Evaluator
    rel, f = where(ix, 'mag')
    branches = {}
    for st in ast.walk(f.node):
        if isinstance(st, ast.If):
            t = norm(st.test)
            if 'int_types' in t:
                branches['int'] = st.body
            elif 'mpq' in t:
                branches['mpq'] = st.body
    for kind in ('int', 'mpq'):
        if kind not in branches:
            run.fail(Finding('N-R5', rel, f.qualname, 'def mag', 'no branch for %s inputs' % kind, line=f.lineno))
            continue
        body = branches[kind]
        bad = None
        n = 0
        grid = [(p, 1) for p in list(range(-70, 71)) + [2 ** 40 - 1, 2 ** 40, 2 ** 40 + 1, -(2 ** 33)]] if kind == 'int' else \
            [(p, q) for q in range(1, 40) for p in range(-80, 81) if Fraction(p, q).denominator == q]

        class Ev(Evaluator):
            def ev(self, e, env):
                if isinstance(e, ast.Call) and norm(e.func) == 'bitcount':
                    return int(self.ev(e.args[0], env)).bit_length()
                if isinstance(e, ast.Attribute) and norm(e) == 'ctx.ninf':
                    return float('-inf')
                if isinstance(e, ast.Attribute) and norm(e) == 'x._mpq_':
                    return env['__pq']
                return Evaluator.ev(self, e, env)

            def block(self, body, env):
                for st in body:
                    if isinstance(st, ast.Assign) and isinstance(st.targets[0], ast.Tuple):
                        vals = self.ev(st.value, env)
                        for t, v in zip(st.targets[0].elts, vals):
                            env[t.id] = v
                        continue
                    r = Evaluator.block(self, [st], env)
                    if r is not None:
                        return r
                return None
        for p, q in grid:
            env = {'x': p, '__pq': (p, q)}
            try:
                m = Ev().block(body, env)
            except AnalysisError as e:
                raise AnalysisError('mag (%s branch): %s' % (kind, e))
            n += 1
            x = abs(Fraction(p, q))
            if x == 0:
                ok = m == float('-inf')
            else:
                ok = isinstance(m, int) and x <= Fraction(2) ** m and Fraction(2) ** (m - 3) < x
            if not ok and bad is None:
                bad = (p, q, m)
        if bad:
            run.fail(Finding('N-R5', rel, f.qualname, 'mag (%s branch)' % kind,
                             'mag(%s) = %r: not a bound 2^m >= |x| at most 2 above optimal'
                             % ('%d' % bad[0] if kind == 'int' else '%d/%d' % bad[:2], bad[2]), line=f.lineno))
        else:
            run.ok('N-R5', 'mag, %s branch: %d grid values' % (kind, n))


# ---------------------------------------------------------------------------------------------
# N-R6  nint_distance: the int, rational and mpf branches are closed-form integer arithmetic on
# (p, q) resp. (sign, man, exp, bc).  They are EVALUATED from the syntax tree on a grid (not a proof;
# the grid covers every sign, half-integers, values just below / above integers, |x| < 1/2 and
# integers) against the specification: n is a nearest integer of x (|x - n| <= 1/2), d = -inf iff
# x is an integer, otherwise 2^(d-2) <= |x - n| < 2^(d+1).
class _Grid(object):
    def __init__(self):
        from ..formula import Evaluator
        outer = self

        class Ev(Evaluator):
            def ev(self, e, env):
                if isinstance(e, ast.Call) and norm(e.func) == 'bitcount':
                    return int(self.ev(e.args[0], env)).bit_length()
                if isinstance(e, ast.Attribute) and norm(e) == 'ctx.ninf':
                    return float('-inf')
                if isinstance(e, ast.Attribute) and e.attr == '_mpq_':
                    return env['__pq']
                if isinstance(e, ast.Call) and norm(e.func) == 'divmod':
                    return divmod(self.ev(e.args[0], env), self.ev(e.args[1], env))
                if isinstance(e, ast.Tuple):
                    return tuple(self.ev(x, env) for x in e.elts)
                if isinstance(e, ast.BinOp) and isinstance(e.op, ast.BitAnd):
                    return self.ev(e.left, env) & self.ev(e.right, env)
                if isinstance(e, ast.Name) and e.id == 'fzero':
                    return (0, 0, 0, 0)
                return Evaluator.ev(self, e, env)

            def block(self, body, env):
                for st in body:
                    if isinstance(st, ast.Assign) and isinstance(st.targets[0], ast.Tuple):
                        vals = self.ev(st.value, env)
                        for t, v in zip(st.targets[0].elts, vals):
                            env[t.id] = v
                        continue
                    if isinstance(st, ast.AugAssign) and isinstance(st.target, ast.Name):
                        cur = env[st.target.id]
                        v = self.ev(st.value, env)
                        env[st.target.id] = {ast.Add: cur + v, ast.Sub: cur - v}[type(st.op)] \
                            if isinstance(st.op, (ast.Add, ast.Sub)) else None
                        continue
                    if isinstance(st, ast.Raise):
                        raise ValueError('raise')
                    if isinstance(st, ast.If):
                        r = self.block(st.body if self.ev(st.test, env) else st.orelse, env)
                        if r is not None:
                            return r
                        continue
                    r = Evaluator.block(self, [st], env)
                    if r is not None:
                        return r
                return None
        self.Ev = Ev


def check_nint_distance(run, ix):
    rel, f = where(ix, 'nint_distance')
    body = [st for st in f.node.body if not (isinstance(st, ast.Expr) and isinstance(st.value, ast.Constant))]
    # the rational branch and the common mpf tail
    mpq_body = None
    for st in ast.walk(f.node):
        if isinstance(st, ast.If) and 'mpq' in norm(st.test) and 'typx' in norm(st.test):
            mpq_body = st.body
    tail = None
    for i, st in enumerate(body):
        if isinstance(st, ast.Assign) and isinstance(st.targets[0], ast.Tuple) and norm(st.value) == 're' and \
                len(st.targets[0].elts) == 4:
            tail = body[i:]
    if mpq_body is None or tail is None:
        raise AnalysisError('nint_distance: rational branch / mpf tail not found')
    G = _Grid()

    def judge(x, res):
        if not (isinstance(res, tuple) and len(res) == 2):
            return 'returns %r' % (res,)
        n, d = res
        if not isinstance(n, int) or abs(x - n) > Fraction(1, 2):
            return 'n = %r is not a nearest integer' % (n,)
        if x == n:
            return None if d == float('-inf') else 'd = %r for an integer (expected -inf)' % (d,)
        if not isinstance(d, int):
            return 'd = %r for a non-integer' % (d,)
        dist = abs(x - n)
        if not (Fraction(2) ** (d - 2) <= dist < Fraction(2) ** (d + 1)):
            return 'd = %d but |x - n| = %s (2^%.2f)' % (d, dist, __import__('math').log(dist, 2))
        return None
    # rationals
    bad = None
    n = 0
    for q in list(range(1, 33)) + [1000, 1000000]:
        for p in list(range(-3 * q - 2, 3 * q + 3)) if q < 40 else [q - 1, q + 1, -q + 1, 2 * q - 1, q // 2, q // 2 + 1, 3 * q + 1]:
            fr = Fraction(p, q)
            if fr.denominator != q:
                continue
            n += 1
            try:
                res = G.Ev().block(mpq_body, {'__pq': (p, q), 'x': None})
            except AnalysisError as e:
                raise AnalysisError('nint_distance (rational branch): %s' % e)
            why = judge(fr, res)
            if why and bad is None:
                bad = ('%d/%d' % (p, q), why)
    if bad:
        run.fail(Finding('N-R6', rel, f.qualname, 'nint_distance (rational branch)',
                         'nint_distance(%s): %s' % bad, line=f.lineno))
    else:
        run.ok('N-R6', 'rational branch: %d grid values' % n)
    # mpf tail
    bad = None
    n = 0
    for sign in (0, 1):
        for man in [m for m in range(1, 130, 2)] + [2 ** 20 + 1, 2 ** 53 - 1]:
            for exp in range(-12, 5):
                n += 1
                x = Fraction(man) * Fraction(2) ** exp * (-1 if sign else 1)
                env = {'re': (sign, man, exp, man.bit_length()), 'im_dist': float('-inf')}
                try:
                    res = G.Ev().block(tail, env)
                except AnalysisError as e:
                    raise AnalysisError('nint_distance (mpf branch): %s' % e)
                why = judge(x, res)
                if why and bad is None:
                    bad = ('%s * 2**%d' % ('-%d' % man if sign else man, exp), why)
    env = {'re': (0, 0, 0, 0), 'im_dist': float('-inf')}
    res = G.Ev().block(tail, env)
    if res != (0, float('-inf')) and bad is None:
        bad = ('0', 'returns %r' % (res,))
    if bad:
        run.fail(Finding('N-R6', rel, f.qualname, 'nint_distance (mpf branch)',
                         'nint_distance(%s): %s' % bad, line=f.lineno))
    else:
        run.ok('N-R6', 'mpf branch: %d grid values (all signs, half-integers, |x| < 1/2, integers)' % n)


# --------------------------------------------------------------------------- N-R7
def check_nint_distance_specials(run, ix, lookup):
    """N-R7.  nint_distance on the classes the grid of N-R6 does not reach: a zero gives (0, -inf); an infinite
    or nan real OR imaginary part must raise ("requires a finite number") -- the encodings of the specials have
    large negative exponents, so a magnitude test made before the mantissa test takes them for |x| < 1/2."""
    run.rule('N-R7', floor=40, desc='nint_distance raises for every infinite or nan component, (0, -inf) for zero')
    rel, f = where(ix, 'nint_distance')
    bad = []
    n = 0

    def outcome(arg, sc):
        it = ClassInterp(lookup, sc)
        try:
            return 'ok', it.run(lookup('nint_distance'), [arg])
        except Raised as r:
            return 'raise', r.what
        except Unsupported as u:
            return 'unsupported', str(u)
    SPECIAL = ('NAN', 'PINF', 'NINF')
    for r in all_raws():
        if r.kind == 'N':
            continue
        kind, val = outcome(MpfObj(r), symclasses(r))
        n += 1
        if r.kind in SPECIAL:
            ok = kind == 'raise' and 'ValueError' in str(val)
            why = 'expected ValueError for a non-finite number, got %s %s' % (kind, 'a result pair' if isinstance(val, Tuple) else val)
        else:
            ok = kind == 'ok' and isinstance(val, Tuple) and len(val.items) == 2 and isinstance(val.items[0], Int) \
                and val.items[0].v == 0 and isinstance(val.items[1], Ext) and val.items[1].which == 'ninf'
            why = 'expected (0, -inf) for zero, got %s %r' % (kind, val)
        if ok:
            run.ok('N-R7')
        else:
            bad.append(('mpf %s' % r.label(), why))
    for re in all_raws('_re'):
        for im in all_raws('_im'):
            if re.kind not in SPECIAL and im.kind not in SPECIAL:
                continue
            kind, val = outcome(MpcObj(re, im), symclasses(re, im))
            n += 1
            if kind == 'raise' and 'ValueError' in str(val):
                run.ok('N-R7')
            else:
                bad.append(('mpc(%s, %s)' % (re.label(), im.label()),
                            'expected ValueError for a non-finite component, got %s %s'
                            % (kind, 'a result pair' if isinstance(val, Tuple) else val)))
    if bad:
        run.rule('N-R7')['sites'] += len(bad)
        run.rule('N-R7')['failed'] += len(bad)
        run.obligations += len(bad)
        label, why = bad[0]
        run.findings.append(Finding('N-R7', rel, f.qualname, 'def nint_distance',
                                    'nint_distance accepts a non-finite number on %d of %d classes, e.g. %s: %s '
                                    '(nint_distance(inf) == (0, -458): inf "within 2**-458 of the integer 0")'
                                    % (len(bad), n, label, why), line=f.lineno))
    run.sample('N-R7', 'nint_distance interpreted on %d special operand classes' % n)


# --------------------------------------------------------------------------- N-R8
def check_mpq_denominators(run, ix):
    """N-R8.  isnpint, nint_distance and mag look at a rational through (p, q) and assume q > 0 (the reduced form
    that create_reduced establishes: its gcd loop ends with a divisor that has the sign of q).  Every method of
    mpq that stores `_mpq_` directly, bypassing create_reduced, must therefore store a denominator that is
    positive: a tiny sign analysis over the method body (denominators unpacked from `_mpq_` are positive;
    products and powers of positives are positive; a swap moves the sign information; `if b < 0: a, b = -a, -b`
    makes b positive)."""
    run.rule('N-R8', floor=6, desc='rationals stored without create_reduced keep a positive denominator')
    rel = 'mpmath/rational.py'
    cls = ix.module(rel).classes.get('mpq')
    if cls is None:
        raise AnalysisError('class mpq vanished')

    def positive(e, pos):
        if isinstance(e, ast.Name):
            return e.id in pos
        if isinstance(e, ast.Constant):
            return isinstance(e.value, int) and e.value > 0
        if isinstance(e, ast.BinOp) and isinstance(e.op, ast.Mult):
            return positive(e.left, pos) and positive(e.right, pos)
        if isinstance(e, ast.BinOp) and isinstance(e.op, ast.Pow):
            return positive(e.left, pos)
        return False

    def walk(body, pos, f):
        for st in body:
            if isinstance(st, ast.Assign) and len(st.targets) == 1:
                t, v = st.targets[0], st.value
                if isinstance(t, ast.Attribute) and t.attr == '_mpq_' and isinstance(v, ast.Tuple) and len(v.elts) == 2:
                    if positive(v.elts[1], pos):
                        run.ok('N-R8', '%s: `%s` stores a positive denominator' % (f.name, norm(st)))
                    else:
                        run.fail(Finding('N-R8', rel, 'mpq.%s' % f.name, norm(st), 'the denominator `%s` can be negative '
                                         'here and create_reduced is bypassed: isnpint / nint_distance / mag assume q > 0 '
                                         '(isnpint(mpq(-1,2)**-1) was False for the value -2)' % norm(v.elts[1]),
                                         line=st.lineno))
                elif isinstance(t, ast.Tuple) and isinstance(v, ast.Attribute) and v.attr == '_mpq_' and len(t.elts) == 2:
                    pos.discard(norm(t.elts[0]))
                    pos.add(norm(t.elts[1]))
                elif isinstance(t, ast.Tuple) and isinstance(v, ast.Tuple) and len(t.elts) == len(v.elts):
                    new = {norm(a) for a, b in zip(t.elts, v.elts) if positive(b, pos)}
                    for a in t.elts:
                        pos.discard(norm(a))
                    pos |= new
                elif isinstance(t, ast.Name):
                    pos.discard(t.id)
                    if positive(v, pos):
                        pos.add(t.id)
            elif isinstance(st, ast.If):
                # `if b < 0: a, b = -a, -b`  makes b non-negative (non-zero is the caller's concern)
                tst = st.test
                flip = None
                if isinstance(tst, ast.Compare) and isinstance(tst.ops[0], ast.Lt) and isinstance(tst.left, ast.Name) \
                        and norm(tst.comparators[0]) == '0' and not st.orelse:
                    for s2 in st.body:
                        if isinstance(s2, ast.Assign) and isinstance(s2.targets[0], ast.Tuple) and \
                                isinstance(s2.value, ast.Tuple):
                            for a, b in zip(s2.targets[0].elts, s2.value.elts):
                                if norm(a) == tst.left.id and norm(b) == '-%s' % tst.left.id:
                                    flip = tst.left.id
                p1, p2 = set(pos), set(pos)
                walk(st.body, p1, f)
                walk(st.orelse, p2, f)
                pos.clear()
                pos |= (p1 & p2)
                if flip:
                    pos.add(flip)
            elif isinstance(st, (ast.For, ast.While, ast.With, ast.Try)):
                walk(getattr(st, 'body', []), pos, f)
    for st in cls.node.body:
        if isinstance(st, ast.FunctionDef):
            walk(st.body, set(), st)


def check_exact_rational_branches(run, ix):
    """N-R9.  "For all numeric types": a Fraction is an exact number, and ctx.convert ROUNDS it to the working
    precision -- isint(Fraction(2**60+1, 2)) was True at 53 bits, nint_distance gave (2**59, -inf) for 2**59 + 1/2.
    The predicates that classify by exact value (isint, isnpint, nint_distance) must therefore test for
    numbers.Rational before they fall back to ctx.convert, and decide from numerator / denominator (or hand an mpq
    of them to the exact branch)."""
    run.rule('N-R9', floor=3, desc='exact-valued predicates decide a Fraction from numerator and denominator, not from its rounding')
    for rel, qn in (('mpmath/ctx_mp_python.py', 'PythonMPContext.isint'), ('mpmath/ctx_mp.py', 'MPContext.isnpint'),
                    ('mpmath/ctx_mp.py', 'MPContext.nint_distance')):
        f = ix.func(rel, qn)
        x = f.params[1]
        conv = [c for c in _walk_own(f.node) if isinstance(c, ast.Call) and norm(c.func).endswith('.convert') and
                c.args and norm(c.args[0]) == x]
        if not conv:
            raise AnalysisError('%s: fallback conversion not found' % qn)
        first = min(c.lineno for c in conv)
        tests = [t for t in _walk_own(f.node) if isinstance(t, ast.If) and t.lineno < first and
                 norm(t.test).replace(' ', '') == 'isinstance(%s,numbers.Rational)' % x]
        good = False
        for t in tests:
            body = ' '.join(norm(b, 200) for b in t.body)
            if '%s.denominator' % x in body and any(isinstance(b, ast.Return) for b in t.body):
                good = True
        if good:
            run.ok('N-R9', '%s decides a Rational from its numerator / denominator before the rounding fallback' % qn)
        else:
            run.fail(Finding('N-R9', rel, qn, norm(enclosing(conv[0])),
                             'a Fraction reaches `ctx.convert`, which rounds it to the working precision, before its '
                             'value is classified: isint(Fraction(2**60+1, 2)) is True at 53 bits, where mpq(2**60+1, 2) '
                             'gives False', line=first))


def enclosing(node):
    while not isinstance(node, ast.stmt):
        node = node._parent
    return node


# --------------------------------------------------------------------------- N-R10
def check_fp_specials(run, ix):
    """N-R10 (third C39 hunt; repair a93bfbf).  The fp context implements mag and isnpint with math functions that do not
    take every double: `math.frexp` gives the exponent 0 for inf and nan, `abs` of a complex overflows although both
    parts are finite, a float conversion of an int overflows beyond 2**1024, and `round` raises for an infinity.
    Decided for FPContext.mag: the frexp call is preceded by returns for nan (`z != z`) and for an infinite magnitude
    (a comparison with math2.INF / an isinf call), ints leave through an `isinstance(z, int_types)` branch that has no
    frexp, and `abs(<parameter>)` is not applied on a path where the parameter may be complex.  For FPContext.isnpint:
    every `round(x)` is a later conjunct of an `and` whose earlier conjuncts exclude the infinities (`x - x == 0.0` or an
    isinf / isfinite call)."""
    FP = 'mpmath/ctx_fp.py'
    run.rule('N-R10', floor=5, desc='fp.mag and fp.isnpint take infinities, nan, large complex numbers and large ints')
    f = ix.func(FP, 'FPContext.mag')
    z = f.params[1]
    fre = [c for c in _walk_own(f.node) if isinstance(c, ast.Call) and norm(c.func).split('.')[-1] == 'frexp']
    if not fre:
        raise AnalysisError('FPContext.mag: frexp call vanished')
    first = min(c.lineno for c in fre)

    def returns_before(pred, what):
        for i in _walk_own(f.node):
            if isinstance(i, ast.If) and i.lineno < first and pred(i.test) and i.body and \
                    isinstance(i.body[-1], ast.Return) and norm(i.body[-1].value) == what:
                return i
        return None
    nan_t = returns_before(lambda t: norm(t).replace(' ', '') in ('%s!=%s' % (z, z),) or
                           (isinstance(t, ast.Call) and norm(t.func).split('.')[-1] == 'isnan'), 'ctx.nan')
    inf_t = returns_before(lambda t: 'INF' in norm(t) or 'ctx.inf' in norm(t) or
                           any(isinstance(c, ast.Call) and norm(c.func).split('.')[-1] == 'isinf' for c in ast.walk(t)), 'ctx.inf')
    int_t = None
    for i in _walk_own(f.node):
        if isinstance(i, ast.If) and i.lineno < first and norm(i.test).replace(' ', '') == 'isinstance(%s,int_types)' % z and \
                i.body and isinstance(i.body[-1], ast.Return) and \
                not any(isinstance(c, ast.Call) and norm(c.func).split('.')[-1] in ('frexp', 'float') for b in i.body for c in ast.walk(b)):
            int_t = i
    for got, what, why in ((nan_t, 'nan', 'math.frexp(nan) has the exponent 0: fp.mag(nan) is 0 (mp.mag(nan) is nan)'),
                           (inf_t, 'an infinity', 'math.frexp(inf) has the exponent 0: fp.mag(inf) is 0 although the '
                                                   'property asks for +inf (and inf > 2**0)'),
                           (int_t, 'an int', 'an int is pushed through float: fp.mag(10**400) raises OverflowError '
                                             '(mp.mag gives 1329)')):
        if got is not None:
            run.ok('N-R10', 'mag: %s leaves before frexp (line %d)' % (what, got.lineno))
        else:
            run.fail(Finding('N-R10', FP, f.qualname, norm(fre[0]), 'no return for %s before the frexp call: %s' % (what, why),
                             line=fre[0].lineno))
    # abs(z) only where z is not complex
    bad_abs = None
    for c in _walk_own(f.node):
        if isinstance(c, ast.Call) and norm(c.func) == 'abs' and c.args and norm(c.args[0]) == z:
            ok = False
            p_ = c
            while p_ is not f.node:
                par = p_._parent
                if isinstance(par, ast.If) and any(p_ is b or any(p_ is y for y in ast.walk(b)) for b in par.orelse):
                    t = norm(par.test).replace(' ', '')
                    if t in ('type(%s)iscomplex' % z, 'isinstance(%s,complex)' % z):
                        ok = True
                if isinstance(par, ast.If) and any(p_ is b or any(p_ is y for y in ast.walk(b)) for b in par.body) and \
                        norm(par.test).replace(' ', '') == 'isinstance(%s,int_types)' % z:
                    ok = True       # an int
                p_ = par
            if not ok:
                bad_abs = c
    if bad_abs is None:
        run.ok('N-R10', 'mag: abs() of the argument is taken on the non-complex path only')
    else:
        run.fail(Finding('N-R10', FP, f.qualname, norm(bad_abs),
                         'abs() of a complex number overflows for finite parts: fp.mag(1.5e308+1.5e308j) raises OverflowError '
                         '(|x| = 2.12e308 <= 2**1025)', line=bad_abs.lineno))
    g = ix.func(FP, 'FPContext.isnpint')
    x = g.params[1]
    rounds = [c for c in _walk_own(g.node) if isinstance(c, ast.Call) and norm(c.func) == 'round' and c.args and
              norm(c.args[0]) == x]
    if not rounds:
        run.ok('N-R10', 'isnpint: no round() of the argument')
    for c in rounds:
        ok = False
        p_ = c
        while p_ is not g.node:
            par = p_._parent
            if isinstance(par, ast.BoolOp) and isinstance(par.op, ast.And):
                idx = [i for i, v in enumerate(par.values) if v is p_ or any(p_ is y for y in ast.walk(v))][0]
                for v in par.values[:idx]:
                    t = norm(v).replace(' ', '')
                    if t in ('%s-%s==0.0' % (x, x), '%s-%s==0' % (x, x)) or \
                            any(isinstance(y, ast.Call) and norm(y.func).split('.')[-1] in ('isinf', 'isfinite') for y in ast.walk(v)):
                        ok = True
            p_ = par
        if ok:
            run.ok('N-R10', 'isnpint: round(%s) only after the infinities are excluded' % x)
        else:
            run.fail(Finding('N-R10', FP, g.qualname, norm(c),
                             'round() of an infinity raises: fp.isnpint(-inf) is OverflowError instead of False (and with it '
                             'fp.rf(-inf, 2), fp.binomial(-inf, 2), fp.psi(0, -inf))', line=c.lineno))
