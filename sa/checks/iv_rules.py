"""Shared rules of Engine C used by C14 (real intervals) and C15 (rectangles)."""
import ast

from ..index import AnalysisError, norm
from ..prec_effect import _walk_own
from ..report import Finding
from ..iv_dir import (LIBMPI, MONO, OPPOSITE, interval_problems, side_problems,
                      is_interval_func, operand_modes, _m)
from .c10 import get_round_engine


def functions(ix, complex_):
    m = ix.module(LIBMPI)
    out = []
    for f in m.funcs.values():
        if f.parent is not None:
            continue
        if complex_ and f.name.startswith('mpci_'):
            out.append(f)
        elif not complex_ and f.name.startswith('mpi_'):
            out.append(f)
    return out


def check_returns(run, ix, complex_, rule='C-R1', skip=()):
    eng = get_round_engine(ix)
    n = 0
    for f in functions(ix, complex_):
        if f.name in skip:
            continue
        pname = 'prec' if 'prec' in f.params else None
        ka = eng.analyse_detail(f, pname)
        per_node = {}
        for node, classes, w in ka.returns:
            per_node.setdefault(id(node), [node, set()])[1].update(classes)
        for k, (node, classes) in sorted(per_node.items(), key=lambda kv: kv[1][0].lineno):
            if node.value is None:
                continue
            # predicates / strings are not intervals
            if f.name in ('mpi_eq', 'mpi_ne', 'mpi_lt', 'mpi_le', 'mpi_gt', 'mpi_ge',
                          'mpi_overlap', 'mpi_str', 'mpi_to_str', 'mpi_delta', 'mpi_mid',
                          'mpci_abs'):
                continue
            n += 1
            probs = []
            for c in classes:
                probs.extend(interval_problems(c, complex_))
            if not probs:
                run.ok(rule, '%s line %d `%s`' % (f.qualname, node.lineno, norm(node, 50)))
            else:
                txt = '; '.join('%s %s' % (what, ', '.join(pr)) for what, pr in probs)
                run.fail(Finding(rule, LIBMPI, f.qualname, norm(node),
                                 'returned %s is not typed as an enclosure: %s'
                                 % ('rectangle' if complex_ else 'interval', txt[:400]),
                                 line=node.lineno))
    return n


def check_calls(run, ix, complex_, rule_ops='C-R2', rule_args='C-R3'):
    """operands of directed real-kernel calls and arguments of interval calls"""
    eng = get_round_engine(ix)
    nops = nargs = 0
    for f in functions(ix, complex_):
        pname = 'prec' if 'prec' in f.params else None
        ka = eng.analyse_detail(f, pname)
        seen = {}
        for call, g, amode, opvals, w in ka.calls:
            key = id(call)
            ent = seen.setdefault(key, [call, g, amode, {}])
            for p_, v in opvals:
                ent[3].setdefault(p_, []).append(v)
        for key, (call, g, amode, ops) in sorted(seen.items(), key=lambda kv: kv[1][0].lineno):
            st = call
            while not isinstance(st, ast.stmt):
                st = st._parent
            if is_interval_func(g.name):
                # C-R3: interval-typed arguments
                cplx = g.name.startswith('mpci_')
                for i, p_ in enumerate(g.params):
                    if p_ not in ops or p_ in ('prec', 'n', 'type', 'percent'):
                        continue
                    classes = set()
                    for v in ops[p_]:
                        if v[0] == 'mpf':
                            classes |= v[1]
                    if not classes:
                        continue
                    # mpci_* take rectangles, except scalar helpers
                    want_cplx = cplx and not (g.name in ('mpci_mul_mpi',) and i == 1)
                    probs = []
                    for c in classes:
                        if c[0] == 'P':
                            probs.extend(interval_problems(c, want_cplx))
                    nargs += 1
                    if probs:
                        txt = '; '.join('%s %s' % (what, ', '.join(pr)) for what, pr in probs)
                        run.fail(Finding(rule_args, LIBMPI, f.qualname, norm(st),
                                         'argument `%s` of %s is not a valid enclosure: %s'
                                         % (p_, g.name, txt[:300]), line=st.lineno))
                    else:
                        run.ok(rule_args)
                continue
            if amode not in ('f', 'c'):
                continue
            mono = MONO.get(g.name)
            for p_ in g.params:
                if p_ in ops and (g.name, p_) in CORNER_OPERANDS:
                    nops += 1
                    run.ok(rule_ops, '%s: %s -- operand `%s` is a %s' % (f.qualname, norm(call, 50), p_,
                                                                         CORNER_OPERANDS[(g.name, p_)]))
            mpfparams = [p_ for p_ in g.params if p_ in ops and p_ not in ('prec', 'rnd')
                         and (g.name, p_) not in CORNER_OPERANDS]
            for i, p_ in enumerate(mpfparams):
                modes = set()
                for v in ops[p_]:
                    modes |= operand_modes(v)
                if not modes:
                    continue          # exact operand
                nops += 1
                kind = mono[i] if mono and i < len(mono) else '?'
                need = amode if kind == '+' else (OPPOSITE[amode] if kind == '-' else None)
                bad = [m for m in modes if need is None or m != need]
                if bad:
                    why = ('operand `%s` is itself a rounded value (%s) but %s is not monotone in '
                           'it / its sign is unknown: the direction of the bound is lost'
                           % (p_, ', '.join(_m(m) for m in sorted(modes)), g.name)) if need is None else \
                          ('operand `%s` of the %s-rounded %s was rounded with %s; this position needs '
                           'a value rounded with %s' % (p_, _m(amode), g.name,
                                                        ', '.join(_m(m) for m in sorted(bad)), _m(need)))
                    run.fail(Finding(rule_ops, LIBMPI, f.qualname, norm(st), why, line=st.lineno))
                else:
                    run.ok(rule_ops, '%s: %s' % (f.qualname, norm(call, 60)))
    return nops, nargs


# (helper, parameter): a CORNER of the input rectangle, picked by the audited corner logic of the caller (which
# endpoint bounds the function is not decided by the direction rules, see ENDPOINT_LEVEL); the helper bounds the
# kernel's value AT that corner
CORNER_OPERANDS = {
    ('mpc_outward', 'z'): 'corner of the rectangle handed to the complex kernel by mpci_gamma',
}


# functions whose endpoint-level logic (sign cases, monotone regions, corner choice) was read and is
# covered by the direction rules C-R1..C-R5; WHICH endpoint bounds the function is a value question
# that no rule decides, so this is the audited set; every other interval function is an enclosure
# by construction because it only composes interval operations
ENDPOINT_LEVEL = {
    'mpci_gamma', 'mpci_pow', 'mpi_abs', 'mpi_add', 'mpi_atan', 'mpi_atan2', 'mpi_cos_sin', 'mpi_delta',
    'mpi_div', 'mpi_exp', 'mpi_from_str', 'mpi_gamma', 'mpi_le', 'mpi_lt', 'mpi_log', 'mpi_mid', 'mpi_mul',
    'mpi_neg', 'mpi_overlap', 'mpi_pos', 'mpi_pow', 'mpi_pow_int', 'mpi_shift', 'mpi_sqrt', 'mpi_square',
    'mpi_str', 'mpi_sub', 'mpi_to_str',
}


NOT_INTERVAL_RESULT = ('mpi_eq', 'mpi_ne', 'mpi_lt', 'mpi_le', 'mpi_gt', 'mpi_ge', 'mpi_overlap', 'mpi_str',
                       'mpi_to_str', 'mpi_delta', 'mpi_mid', 'mpci_abs', 'mpci_arg')


def endpoint_access(f):
    """first place where an interval function takes an INTERVAL apart into endpoints: unpacking or
    subscripting a value of kind interval (its interval parameters, a component of a rectangle, the
    result of an mpi_* call).  Taking a rectangle apart into its two intervals is composition."""
    cplx = f.name.startswith('mpci_')
    kind = {}
    for i, p_ in enumerate(f.params):
        if p_ in ('prec', 'n', 'type', 'percent', 'rnd'):
            continue
        kind[p_] = 'R' if (cplx and not (f.name == 'mpci_mul_mpi' and i == 1)) else 'I'

    def kind_of(e):
        if isinstance(e, ast.Name):
            return kind.get(e.id)
        if isinstance(e, ast.Call) and isinstance(e.func, ast.Name):
            n = e.func.id
            if n in NOT_INTERVAL_RESULT:
                return 'I' if n in ('mpci_abs', 'mpci_arg') else None
            if n.startswith('mpci_') or n in ('mpi_cos_sin', 'mpi_cosh_sinh'):
                return 'R'          # a pair of intervals
            if n.startswith('mpi_'):
                return 'I'
        if isinstance(e, ast.Subscript) and isinstance(e.slice, ast.Constant) and kind_of(e.value) == 'R':
            return 'I'
        if isinstance(e, ast.Tuple) and len(e.elts) == 2 and all(kind_of(x) == 'I' for x in e.elts):
            return 'R'
        return None
    changed = True
    while changed:
        changed = False
        for x in _walk_own(f.node):
            if isinstance(x, ast.Assign) and len(x.targets) == 1:
                t, v = x.targets[0], x.value
                k = kind_of(v)
                if isinstance(t, ast.Name) and k and kind.get(t.id) != k:
                    kind[t.id] = k
                    changed = True
                if isinstance(t, ast.Tuple) and k == 'R' and len(t.elts) == 2:
                    for e in t.elts:
                        if isinstance(e, ast.Name) and kind.get(e.id) != 'I':
                            kind[e.id] = 'I'
                            changed = True
                if isinstance(t, ast.Tuple) and isinstance(v, ast.Tuple) and len(t.elts) == len(v.elts):
                    for e, w in zip(t.elts, v.elts):
                        kk = kind_of(w)
                        if isinstance(e, ast.Name) and kk and kind.get(e.id) != kk:
                            kind[e.id] = kk
                            changed = True
    for x in _walk_own(f.node):
        if isinstance(x, ast.Assign) and isinstance(x.targets[0], ast.Tuple) and kind_of(x.value) == 'I' and \
                not isinstance(x.value, ast.Tuple):
            return x
        if isinstance(x, ast.Assign) and isinstance(x.targets[0], ast.Tuple) and kind_of(x.value) == 'R' and \
                any(isinstance(e, ast.Tuple) for e in x.targets[0].elts):
            return x
        if isinstance(x, ast.Subscript) and isinstance(x.slice, ast.Constant) and kind_of(x.value) == 'I':
            return x
    return None


def check_composition(run, ix, complex_, rule='C-R13'):
    """C-R13: an interval function outside the audited endpoint-level set must stay a composition
    of interval operations on whole intervals (then it is an enclosure by construction).  Taking
    the argument apart and evaluating at its endpoints needs a monotonicity argument; in a function
    that had none this is unaudited corner selection (both independent seeding agents produced
    exactly this for the cosh of mpi_cosh_sinh: the larger of |a|, |b| was not considered)."""
    n = 0
    for f in functions(ix, complex_):
        if f.name in ENDPOINT_LEVEL:
            continue
        n += 1
        x = endpoint_access(f)
        if x is None:
            run.ok(rule, '%s composes interval operations only' % f.name if n < 6 else None)
        else:
            st = x
            while not isinstance(st, ast.stmt):
                st = st._parent
            run.fail(Finding(rule, LIBMPI, f.qualname, norm(st),
                             '%s takes its interval argument apart into endpoints; it is not one of the audited '
                             'endpoint-level functions, and was an enclosure only because it composed interval '
                             'operations on whole intervals.  Results built from endpoint evaluations are enclosures '
                             'only on a monotone piece, which nothing here establishes' % f.name, line=st.lineno))
    for name in sorted(ENDPOINT_LEVEL):
        if not any(g.name == name for g in ix.module(LIBMPI).funcs.values()):
            raise AnalysisError('audited endpoint-level function vanished: %s' % name)
    return n
