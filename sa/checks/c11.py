"""C11 -- working precision is restored after every call, normal or failing.

Rules (DESIGN section 2, Engine A):
  A-R1  normal-path restore at every public entry point
  A-R2  exception-path restore at every public entry point
  A-R3  restoration goes through .prec from a snapshot of .prec (not .dps)
  A-R4  two-phase protocols pair (PrecisionManager, inverse-Laplace rules)
  A-R5  both _wrap_specfun wrappers restore in finally and return +retval
  A-R6  prec/dps setters agree and update the shared list in place
"""
import ast

from ..index import AnalysisError, norm
from ..prec_effect import PrecEngine, E, is_cell_attr, _walk_own
from ..report import Finding
from ..resolve import get_resolver
from .. import tables

PUBLIC_DUNDERS = {'__call__', '__enter__', '__exit__', '__init__', '__iter__',
                  '__next__', '__getitem__', '__setitem__'}

_ENGINE = {}


def get_engine(ix):
    if id(ix) not in _ENGINE:
        _ENGINE[id(ix)] = PrecEngine(ix)
    return _ENGINE[id(ix)]


def is_public_name(name):
    if name in PUBLIC_DUNDERS:
        return True
    return not name.startswith('_')


def entry_points(ix, res, eng):
    """-> list of (Func, kind, wrapped)"""
    out = {}
    protocol = set()
    for (rel, cls, m1, m2, why) in tables.A_PROTOCOL_PAIRS:
        for m in (m1, m2):
            f = ix.find_func(rel, '%s.%s' % (cls, m))
            if f is None:
                raise AnalysisError('protocol table row vanished: %s %s.%s' % (rel, cls, m))
            protocol.add(f)
    impl = set()
    for (rel, qn, why) in tables.A_CELL_IMPLEMENTATION:
        f = ix.find_func(rel, qn)
        if f is None:
            raise AnalysisError('cell-implementation table row vanished: %s %s' % (rel, qn))
        impl.add(f)
    # 1. context methods and registered functions
    for name, ents in res.registry.items():
        if not is_public_name(name):
            continue
        for e in ents:
            if e.func in impl:
                continue
            out[e.func] = ('context method (%s)' % e.how, e.wrap)
    # 2. public methods of every other class
    for f in ix.all_funcs():
        if f.cls is None or f.parent is not None or f in out:
            continue
        if f in protocol or f in impl:
            continue
        if is_public_name(f.name):
            out[f] = ('method of class %s' % f.cls, False)
    # 3. closures handed out by entry points
    changed = True
    while changed:
        changed = False
        for f in list(out):
            for x in _walk_own(f.node):
                if isinstance(x, ast.Return) and x.value is not None:
                    cands = []
                    if isinstance(x.value, ast.Name):
                        cands = [g for g in f.nested if g.name == x.value.id]
                    elif isinstance(x.value, ast.Lambda) and hasattr(x.value, '_func'):
                        cands = [x.value._func]
                    for g in cands:
                        if g not in out:
                            out[g] = ('closure returned by %s' % f.qualname, False)
                            changed = True
    return out, protocol, impl


def origin_text(fa, tags, limit=4):
    items = []
    for t in sorted(tags, key=lambda t: (getattr(fa.sites[t][1], 'lineno', 0), t[0])):
        kind, node, text = fa.sites[t]
        if kind in ('w', 'cn', 'cx'):
            items.append('line %s: %s [%s]' % (getattr(node, 'lineno', '?'), norm(node, 70), text))
    return items[:limit]


def first_site(fa, tags, kinds):
    best = None
    for t in tags:
        kind, node, text = fa.sites[t]
        if kind in kinds:
            ln = getattr(node, 'lineno', 0)
            if best is None or ln < best[0]:
                best = (ln, node, text)
    return best


def run(run, ix, tier):
    res = get_resolver(ix)
    eng = get_engine(ix)
    run.explanation = (
        'Path analysis of the working-precision cell (<ctx>.prec/.dps) over every '
        'function that writes it, with bottom-up callee summaries: at every normal '
        'and exceptional exit of every public entry point the cell must equal its '
        'value on entry (abstract interpretation over statements, one state per '
        'kind of completion; try/finally applied per completion kind).  Decides the '
        'property for all paths and all crash points at statement granularity; '
        'does not execute any code.')
    run.assumptions = [
        'user callbacks do not themselves leave the precision changed',
        'a restoring store `<ctx>.prec = <name>` and a relative change by a call-free '
        'expression are atomic (do not raise half-way)',
        'attribute calls are resolved by name over the context registries and class '
        'methods (class-hierarchy style); unresolved calls are assumed not to touch '
        'the precision (counted in stats)',
    ]
    run.trusted = ['sa/flow.py structured abstract interpreter', 'tables.A_PROTOCOL_PAIRS',
                   'tables.A_CELL_IMPLEMENTATION']
    entries, protocol, impl = entry_points(ix, res, eng)
    run.rule('A-R1', floor=300, desc='normal-path restore, per public entry point')
    run.rule('A-R2', floor=300, desc='exception-path restore, per public entry point')
    run.rule('A-R3', floor=1, desc='restore through .prec, not .dps')
    run.rule('A-R4', floor=4, desc='two-phase protocol pairing')
    run.rule('A-R5', floor=2, desc='_wrap_specfun wrapper integrity')
    run.rule('A-R6', floor=4, desc='setter agreement')
    run.rule('A-R7', floor=2, desc='no saved precision is restored after a yield (generators)')
    nwriters = len(eng.writers)
    nwrites = sum(s.writes for s in eng.summaries.values())
    if nwriters < 90 or nwrites < 300:
        raise AnalysisError('only %d functions / %d statements write the precision cell '
                            '(expected >= 90 / >= 300): the scan is missing code'
                            % (nwriters, nwrites))
    run.stats.update({
        'functions_indexed': len(eng.funcs),
        'functions_analysed': eng.analysed,
        'cell_writer_functions': nwriters,
        'cell_write_statements': nwrites,
        'summary_iterations': eng.iterations,
        'entry_points': len(entries),
        'entry_points_wrapped': sum(1 for k, w in entries.values() if w),
        'unresolved_calls': eng.unresolved_calls,
        'callback_call_sites': eng.callback_sites,
        'leaking_helpers_contained': sorted(
            f.qualname for f, s in eng.summaries.items()
            if (s.leak_n or s.leak_x) and f not in entries)[:80],
        'modules_digest': ix.digest(),
        'modules': len(ix.modules),
    })

    # ---- A-R5 wrapper integrity (discharges all wrapped entry points) ------
    wrappers_ok = check_wrappers(run, ix, eng)

    # ---- A-R1 / A-R2 -------------------------------------------------------
    for f in sorted(entries, key=lambda f: (f.file, f.qualname)):
        kind, wrapped = entries[f]
        s = eng.summaries[f]
        fa = eng.analyses.get(f)
        if wrapped:
            # public callable is the wrapper; raw function body is covered by it
            if wrappers_ok:
                run.ok('A-R1')
                run.ok('A-R2')
            continue
        if s.leak_n:
            site = first_site(fa, s.origins_n, ('w', 'cn'))
            run.fail(Finding('A-R1', f.file, f.qualname,
                             norm(site[1]) if site else 'exit',
                             'precision not restored on a normal exit of public entry point '
                             '(%s); changed at: %s' % (kind, '; '.join(origin_text(fa, s.origins_n))),
                             line=site[0] if site else f.lineno))
        else:
            run.ok('A-R1', '%s:%s' % (f.file, f.qualname) if s.writes else None)
        if s.leak_x:
            site = first_site(fa, s.origins_x, ('w', 'cn', 'cx'))
            xs = first_site(fa, s.origins_x, ('x', 'cx'))
            run.fail(Finding('A-R2', f.file, f.qualname,
                             norm(site[1]) if site else 'exit',
                             'an exception raised while the precision is changed escapes '
                             'public entry point (%s) without a restoring finally; e.g. raised '
                             'at line %s `%s`; changed at: %s'
                             % (kind, xs[0] if xs else '?', norm(xs[1], 60) if xs else '?',
                                '; '.join(origin_text(fa, s.origins_x))),
                             line=site[0] if site else f.lineno))
        else:
            run.ok('A-R2', '%s:%s' % (f.file, f.qualname) if s.writes else None)

    # ---- A-R3 ------------------------------------------------------------------
    check_r3(run, ix, eng)
    # ---- A-R4 ------------------------------------------------------------------
    check_protocols(run, ix, eng)
    check_manager_activations(run, ix)
    check_rule_object_steps(run, ix)
    # ---- A-R6 ------------------------------------------------------------------
    check_setters(run, ix)
    # ---- A-R7 ------------------------------------------------------------------
    check_generators(run, ix)
    check_relative_changes(run, ix)
    # A-R10: a function that changes the precision of ANOTHER context (fp computing in the global mp) snapshots THAT
    # context's precision and restores it in a finally clause: rule X-R6 of the C38 module (local aliases followed)
    from ..report import SubRun
    from . import c38
    run.rule('A-R10', floor=1, desc='the precision of a borrowed context is saved from and restored to that context')
    c38.check_foreign_cell(SubRun(run, keep=('X-R6',), rename=lambda r: 'A-R10'), ix)


# ---------------------------------------------------------------------------
def check_wrappers(run, ix, eng):
    ok_all = True
    found = 0
    for rel, qn in (('mpmath/ctx_mp_python.py', 'PythonMPContext._wrap_specfun.f_wrapped'),
                    ('mpmath/ctx_iv.py', 'MPIntervalContext._wrap_specfun.f_wrapped')):
        f = ix.func(rel, qn)
        found += 1
        s = eng.summaries[f]
        fa = eng.analyses.get(f)
        problems = []
        if fa is None or s.writes == 0:
            problems.append('wrapper no longer changes the precision (cannot discharge '
                            'wrapped entry points through it)')
        if s.leak_n:
            problems.append('precision not restored on normal exit')
        if s.leak_x:
            problems.append('precision not restored when the wrapped function raises')
        # snapshot must be taken from .prec before the first write
        body = f.node.body
        snap_var = None
        first_write_idx = None
        for x in ast.walk(f.node):
            if isinstance(x, ast.Assign) and is_cell_attr(x.value) and x.value.attr == 'prec' \
                    and isinstance(x.targets[0], ast.Name):
                snap_var = x.targets[0].id
        if snap_var is None:
            problems.append('no snapshot of .prec')
        # the return value is +retval evaluated after the restoring finally
        rets = [x for x in _walk_own(f.node) if isinstance(x, ast.Return)]
        good_ret = False
        for r in rets:
            if isinstance(r.value, ast.UnaryOp) and isinstance(r.value.op, ast.UAdd):
                # must not be inside the try whose finally restores
                p = getattr(r, '_parent', None)
                inside_try = False
                while p is not None and p is not f.node:
                    if isinstance(p, ast.Try):
                        inside_try = True
                    p = getattr(p, '_parent', None)
                if not inside_try:
                    good_ret = True
        if not good_ret or len(rets) != 1:
            problems.append('return value is not `+retval` evaluated after the precision '
                            'was restored (result would keep the 10 guard bits)')
        # the raise must be relative and positive
        raised = False
        for x in _walk_own(f.node):
            if isinstance(x, ast.AugAssign) and is_cell_attr(x.target) and \
                    isinstance(x.op, ast.Add):
                raised = True
        if not raised:
            problems.append('working precision is not raised relative to the caller')
        # the wrapper is the one installed when wrap is true
        outer = f.parent
        inst = [x for x in _walk_own(outer.node) if isinstance(x, ast.Call)
                and norm(x.func) == 'setattr']
        if not inst or norm(inst[0].args[2]) != 'f_wrapped':
            problems.append('setattr(cls, name, f_wrapped) not found')
        if problems:
            ok_all = False
            run.fail(Finding('A-R5', f.file, f.qualname, 'def f_wrapped',
                             '; '.join(problems), line=f.lineno))
        else:
            run.ok('A-R5', '%s:%s snapshot=%s, restore in finally, return +retval' % (rel, qn, snap_var))
    return ok_all


def check_r3(run, ix, eng):
    """every store to .dps whose right-hand side is a saved dps value"""
    n = 0
    for f in eng.writers:
        s = eng.summaries[f]
        fa = eng.analyses[f]
        flagged = set(id(x) for x in s.r3)
        # attribute-held snapshots across methods of one class
        saved_attrs = set()
        if f.cls:
            ci = f.module.classes.get(f.cls)
            if ci is not None:
                for m in ci.methods.values():
                    for x in ast.walk(m.node):
                        if isinstance(x, ast.Assign) and is_cell_attr(x.value) and \
                                x.value.attr == 'dps':
                            for t in x.targets:
                                if isinstance(t, ast.Attribute):
                                    saved_attrs.add(norm(t))
        for x in _walk_own(f.node):
            if isinstance(x, ast.Assign) and len(x.targets) == 1 and \
                    is_cell_attr(x.targets[0]):
                n += 1
                t = x.targets[0]
                bad = id(x) in flagged or (t.attr == 'dps' and norm(x.value) in saved_attrs)
                if bad:
                    run.fail(Finding('A-R3', f.file, f.qualname, norm(x),
                                     'precision restored through dps: prec -> dps -> prec is not '
                                     'the identity (e.g. 101 bits -> 29 digits -> 100 bits)',
                                     line=x.lineno))
                else:
                    run.ok('A-R3')
    return n


def check_protocols(run, ix, eng):
    for (rel, cls, m1, m2, why) in tables.A_PROTOCOL_PAIRS:
        f1 = ix.func(rel, '%s.%s' % (cls, m1))
        f2 = ix.func(rel, '%s.%s' % (cls, m2))
        problems = []
        # phase 1: snapshot attribute assigned from .prec before the first write
        snap = None
        seen_write = False
        order_ok = True
        stack = False
        for st in _stmts_in_order(f1.node):
            if isinstance(st, ast.Expr) and isinstance(st.value, ast.Call) and \
                    isinstance(st.value.func, ast.Attribute) and st.value.func.attr == 'append' and \
                    len(st.value.args) == 1 and is_cell_attr(st.value.args[0]) and \
                    st.value.args[0].attr == 'prec' and isinstance(st.value.func.value, ast.Attribute):
                # stack form: self.<slot>.append(<ctx>.prec)
                if seen_write:
                    order_ok = False
                snap = norm(st.value.func.value)
                stack = True
            if isinstance(st, ast.Assign):
                if is_cell_attr(st.value) and st.value.attr == 'prec' and \
                        isinstance(st.targets[0], ast.Attribute):
                    if seen_write:
                        order_ok = False
                    snap = norm(st.targets[0])
                for t in st.targets:
                    if is_cell_attr(t):
                        seen_write = True
            elif isinstance(st, ast.AugAssign) and is_cell_attr(st.target):
                seen_write = True
        if snap is None:
            problems.append('%s does not save <ctx>.prec on the object' % m1)
        elif not order_ok:
            problems.append('%s saves the precision after changing it' % m1)
        if stack and snap is not None and m1 == '__enter__':
            # __exit__ is not called when __enter__ raises: the pushed entry must be taken back and the precision
            # restored by __enter__ itself, or the next use of the manager object pops a stale entry
            writes = [st for st in _stmts_in_order(f1.node) if
                      (isinstance(st, ast.Assign) and any(is_cell_attr(t) for t in st.targets)) or
                      (isinstance(st, ast.AugAssign) and is_cell_attr(st.target))]
            for w in writes:
                p_ = getattr(w, '_parent', None)
                in_handler = False
                protected = False
                while p_ is not None and p_ is not f1.node:
                    if isinstance(p_, ast.ExceptHandler):
                        in_handler = True
                    if isinstance(p_, ast.Try) and not in_handler:
                        for h in p_.handlers:
                            if h.type is None or norm(h.type) in ('BaseException', 'Exception'):
                                pops = any(isinstance(c, ast.Call) and norm(c.func) == snap + '.pop' for c in ast.walk(h))
                                reraises = any(isinstance(r, ast.Raise) and r.exc is None for r in ast.walk(h))
                                if pops and reraises:
                                    protected = True
                    p_ = getattr(p_, '_parent', None)
                if not in_handler and not protected:
                    problems.append('__enter__ changes the precision (`%s`) after pushing the saved one and outside a '
                                    'try that pops it again: when the setter raises (with mp.workprec(-10**400)) '
                                    '__exit__ is not called and the entry stays on %s' % (norm(w, 50), snap))
        # phase 2: restores .prec from that attribute
        restores = []
        for st in _stmts_in_order(f2.node):
            if isinstance(st, ast.Assign) and len(st.targets) == 1 and \
                    is_cell_attr(st.targets[0]) and st.targets[0].attr == 'prec' \
                    and snap is not None and norm(st.value) == (snap + '.pop()' if stack else snap):
                restores.append(st)
        if snap is not None and not restores:
            problems.append('%s does not restore <ctx>.prec from %s' % (m2, snap))
        if m2 == '__exit__':
            # a context manager object can be entered again while it is active (the same object in
            # a nested `with`, a decorated function that recurses): a single slot is overwritten by
            # the inner entry and the outer exit then restores the raised precision.  The saved
            # precisions must form a stack (push in __enter__, pop in __exit__), created per object.
            if snap is not None and not stack:
                problems.append('the saved precision is a single slot (%s): entering the same manager '
                                'object again overwrites it and the outer exit restores the wrong '
                                'precision; a stack is needed' % snap)
            if stack:
                init = ix.func(rel, '%s.__init__' % cls)
                made = [x for x in _walk_own(init.node) if isinstance(x, ast.Assign) and
                        any(norm(t) == snap for t in x.targets) and
                        isinstance(x.value, ast.List) and not x.value.elts]
                if not made:
                    problems.append('the stack %s is not created empty per object in __init__' % snap)
                PROTOCOL_STACKS.add(cls)
            # unconditional, and must not swallow exceptions
            for st in restores:
                if getattr(st, '_parent', None) is not f2.node:
                    problems.append('__exit__ restores only conditionally')
            for x in _walk_own(f2.node):
                if isinstance(x, ast.Return) and x.value is not None:
                    if not (isinstance(x.value, ast.Constant) and not x.value.value):
                        problems.append('__exit__ may return a true value (swallows exceptions)')
        if problems:
            run.fail(Finding('A-R4', rel, '%s.%s/%s' % (cls, m1, m2), 'protocol pair',
                             '; '.join(problems), line=f1.lineno))
        else:
            run.ok('A-R4', '%s %s.%s saves %s, %s restores it through .prec' % (rel, cls, m1, snap, m2))


PROTOCOL_STACKS = set()
MANAGER_FACTORIES = ('workprec', 'workdps', 'extraprec', 'extradps', 'PrecisionManager')


def check_manager_activations(run, ix):
    """A-R4r: the snapshot of a precision manager lives in ONE slot on the manager object
    (self.origp).  Entering the same object again before it was exited (recursion, two decorated
    helpers sharing a manager) overwrites the slot and the outer exit restores the wrong
    precision.  So every activation must use a manager object of its own: the item of every
    `with` is a call that creates the manager (ctx.workprec(n), ...), never an object that
    outlives the activation (self inside the manager's own decorator wrapper, an attribute, a
    variable of an enclosing scope), and __enter__/__exit__ are not called by hand on such an
    object."""
    run.rule('A-R4r', floor=2, desc='one manager object per activation')
    # names bound anywhere to a manager (long-lived handles)
    handles = set()
    for m in ix.modules.values():
        for x in ast.walk(m.tree):
            if isinstance(x, ast.Assign) and isinstance(x.value, ast.Call):
                fn = x.value.func
                nm = fn.attr if isinstance(fn, ast.Attribute) else fn.id if isinstance(fn, ast.Name) else ''
                if nm in MANAGER_FACTORIES:
                    for t in x.targets:
                        # attribute slots and module-level names outlive an activation; a plain local
                        # of the function that also enters it does not
                        if isinstance(t, ast.Attribute) or isinstance(getattr(x, '_parent', None), ast.Module):
                            handles.add(norm(t))
    protocol_classes = set(cls for (rel, cls, m1, m2, why) in tables.A_PROTOCOL_PAIRS if m1 == '__enter__')
    n = 0
    for f in ix.all_funcs():
        top = f
        while top.parent is not None:
            top = top.parent
        in_manager_class = bool(top.cls and top.cls.split('.')[-1] in protocol_classes)
        selfname = top.params[0] if (in_manager_class and top.params) else None
        for x in _walk_own(f.node):
            exprs = []
            if isinstance(x, ast.With):
                exprs = [(i.context_expr, 'entered with `with`') for i in x.items]
            elif isinstance(x, ast.Call) and isinstance(x.func, ast.Attribute) and \
                    x.func.attr in ('__enter__', '__exit__'):
                exprs = [(x.func.value, 'driven by hand through %s()' % x.func.attr)]
            for e, how in exprs:
                n += 1
                if isinstance(e, ast.Call):
                    run.ok('A-R4r', '%s: `%s` creates its manager' % (f.qualname, norm(e, 50)) if n < 6 else None)
                    continue
                txt = norm(e)
                shared = (selfname is not None and txt == selfname) or txt in handles or \
                    isinstance(e, ast.Attribute)
                if 'PrecisionManager' in PROTOCOL_STACKS:
                    # A-R4 proved the saved precisions form a per-object stack: re-entry is safe
                    run.ok('A-R4r', '%s: `%s` re-entered safely (stack)' % (f.qualname, txt) if shared else None)
                    continue
                if isinstance(e, ast.Name) and not shared:
                    # a local created in this very function from a factory call is per activation
                    local = [y for y in _walk_own(f.node) if isinstance(y, ast.Assign) and
                             any(norm(t) == txt for t in y.targets)]
                    if not local:
                        shared = True        # comes from an enclosing scope / parameter
                if shared:
                    st = x
                    while not isinstance(st, ast.stmt):
                        st = st._parent
                    run.fail(Finding('A-R4r', f.file, f.qualname, norm(st),
                                     'the manager object `%s` is %s, but it is not created for this activation: '
                                     'its saved precision is a single slot on the object, so a nested or '
                                     'recursive entry overwrites it and the outer exit restores the raised '
                                     'precision instead of the caller\'s' % (txt, how), line=st.lineno))
                else:
                    run.ok('A-R4r')
    run.stats['manager_activations'] = n


def _stmts_in_order(fnode):
    out = []

    def rec(body):
        for st in body:
            if isinstance(st, (ast.FunctionDef, ast.AsyncFunctionDef, ast.ClassDef)):
                continue
            out.append(st)
            for field in ('body', 'orelse', 'finalbody'):
                sub = getattr(st, field, None)
                if isinstance(sub, list):
                    rec(sub)
            for h in getattr(st, 'handlers', []):
                rec(h.body)
    rec(fnode.body)
    return out


def check_setters(run, ix):
    spec = [
        ('mpmath/ctx_mp_python.py', 'PythonMPContext', '_prec_rounding'),
        ('mpmath/ctx_iv.py', 'MPIntervalContext', '_prec'),
    ]
    for rel, cls, listname in spec:
        for setter, conv_field, conv_fn, direct_field in (
                ('_set_prec', '_dps', 'prec_to_dps', 'prec'),
                ('_set_dps', '_prec', 'dps_to_prec', 'dps')):
            f = ix.func(rel, '%s.%s' % (cls, setter))
            param = f.params[1] if len(f.params) > 1 else None
            problems = []
            elem_store = False
            dps_store = None
            prec_val = None
            for st in f.node.body:
                if not isinstance(st, ast.Assign):
                    continue
                for t in st.targets:
                    if isinstance(t, ast.Subscript) and isinstance(t.value, ast.Attribute) \
                            and t.value.attr == listname and norm(t.slice) == '0':
                        elem_store = True
                        prec_val = st.value
                    if isinstance(t, ast.Attribute) and t.attr == listname:
                        problems.append('rebinds %s instead of storing element 0 (number '
                                        'classes alias the list through _ctxdata)' % listname)
                    if isinstance(t, ast.Attribute) and t.attr == '_dps':
                        dps_store = st.value
            # values computed into locals first (`prec, dps = max(1, int(n)), prec_to_dps(n)`) are resolved
            locals_ = {}
            for st in f.node.body:
                if isinstance(st, ast.Assign) and len(st.targets) == 1:
                    t = st.targets[0]
                    if isinstance(t, ast.Name):
                        locals_[t.id] = st.value
                    elif isinstance(t, ast.Tuple) and isinstance(st.value, ast.Tuple) and len(t.elts) == len(st.value.elts):
                        for a, b in zip(t.elts, st.value.elts):
                            if isinstance(a, ast.Name):
                                locals_[a.id] = b
            if isinstance(prec_val, ast.Name) and prec_val.id in locals_:
                prec_val = locals_[prec_val.id]
            if isinstance(dps_store, ast.Name) and dps_store.id in locals_:
                dps_store = locals_[dps_store.id]
            # atomicity: every conversion that can fail (prec_to_dps / dps_to_prec / int) runs before the first store
            first_store = None
            for i_, st in enumerate(f.node.body):
                if isinstance(st, ast.Assign) and any(
                        (isinstance(t, ast.Subscript) and isinstance(t.value, ast.Attribute) and t.value.attr == listname) or
                        (isinstance(t, ast.Attribute) and t.attr in ('_dps', '_prec')) for t in st.targets):
                    first_store = i_
                    break
            if first_store is not None:
                late = [c for st in f.node.body[first_store:] for c in ast.walk(st) if isinstance(c, ast.Call)
                        and norm(c.func) in ('prec_to_dps', 'dps_to_prec')
                        and not (st is f.node.body[first_store] and
                                 not any(isinstance(c2, ast.Call) and norm(c2.func) in ('prec_to_dps', 'dps_to_prec')
                                         for st2 in f.node.body[first_store + 1:] for c2 in ast.walk(st2))
                                 and all(isinstance(t, ast.Attribute) and t.attr == '_dps' for t in st.targets))]
                if late and first_store is not None and any(
                        c for st in f.node.body[first_store + 1:] for c in ast.walk(st)
                        if isinstance(c, ast.Call) and norm(c.func) in ('prec_to_dps', 'dps_to_prec')):
                    problems.append('a conversion (`%s`) runs after the first store: when it fails (OverflowError for '
                                    '|n| > 1.8e308) prec and dps are left inconsistent' % norm(late[-1]))
            # both stores must be unconditional: top-level statements, and
            # nothing before them may leave the setter early
            stores_done = 0
            for st in f.node.body:
                is_store = isinstance(st, ast.Assign) and any(
                    (isinstance(t, ast.Subscript) and isinstance(t.value, ast.Attribute)
                     and t.value.attr == listname) or
                    (isinstance(t, ast.Attribute) and t.attr == '_dps') for t in st.targets)
                if is_store:
                    stores_done += sum(1 for t in st.targets if
                                       (isinstance(t, ast.Subscript) and isinstance(t.value, ast.Attribute)
                                        and t.value.attr == listname) or
                                       (isinstance(t, ast.Attribute) and t.attr == '_dps'))
                    continue
                if stores_done < 2 and any(isinstance(x, (ast.Return, ast.Raise))
                                           for x in ast.walk(st)):
                    problems.append('an early exit (`%s`) can skip the update of the '
                                    'precision pair' % norm(st, 60))
            if elem_store and dps_store is not None and stores_done < 2:
                problems.append('the stores to %s[0] and _dps are not unconditional '
                                'top-level statements' % listname)
            if not elem_store:
                problems.append('does not store the new precision into %s[0]' % listname)
            if dps_store is None:
                problems.append('does not update _dps')
            if setter == '_set_prec':
                if prec_val is not None and param not in [x.id for x in ast.walk(prec_val)
                                                          if isinstance(x, ast.Name)]:
                    problems.append('stored precision does not derive from the argument')
                if dps_store is not None and not _is_call_to(dps_store, 'prec_to_dps', param):
                    problems.append('_dps is not prec_to_dps(argument)')
            else:
                if prec_val is not None and not _is_call_to(prec_val, 'dps_to_prec', param):
                    problems.append('precision is not dps_to_prec(argument)')
                if dps_store is not None and param not in [x.id for x in ast.walk(dps_store)
                                                           if isinstance(x, ast.Name)]:
                    problems.append('_dps does not derive from the argument')
            if problems:
                run.fail(Finding('A-R6', rel, f.qualname, 'def %s' % setter,
                                 '; '.join(problems), line=f.lineno))
            else:
                run.ok('A-R6', '%s:%s stores %s[0] and _dps consistently' % (rel, f.qualname, listname))
        # the property objects are wired to these setters
        ci = ix.module(rel).classes.get(cls)
        for pname, setter in (('prec', '_set_prec'), ('dps', '_set_dps')):
            v = ci.assigns.get(pname)
            ok = isinstance(v, ast.Call) and norm(v.func) == 'property' and \
                len(v.args) >= 2 and norm(v.args[1]) == setter
            if ok:
                run.ok('A-R6', '%s.%s = property(..., %s)' % (cls, pname, setter))
            else:
                run.fail(Finding('A-R6', rel, cls, '%s = property(...)' % pname,
                                 'property %s is not wired to %s' % (pname, setter),
                                 line=getattr(v, 'lineno', None)))
    # conversion formulas: documented pair in libmpf
    m = ix.module('mpmath/libmp/libmpf.py')
    for fn, expect in (('prec_to_dps', 'max(1, int(round(int(n) / 3.3219280948873626) - 1))'),
                       ('dps_to_prec', 'max(1, int(round((int(n) + 1) * 3.3219280948873626)))')):
        f = ix.func('mpmath/libmp/libmpf.py', fn)
        rets = [x for x in _walk_own(f.node) if isinstance(x, ast.Return)]
        val = _eval_formula(rets[0].value) if len(rets) == 1 else None
        want = _eval_formula(ast.parse(expect, mode='eval').body)
        if val is None or val != want:
            run.fail(Finding('A-R6', m.relpath, fn, 'def %s' % fn,
                             'conversion formula differs from the documented one on the '
                             'sample grid n=1..4000', line=f.lineno))
        else:
            run.ok('A-R6', '%s agrees with the documented formula on n=1..4000 '
                           '(formula evaluated by the checker, not mpmath)' % fn)


def _is_call_to(node, fname, param):
    return isinstance(node, ast.Call) and norm(node.func).split('.')[-1] == fname and \
        len(node.args) == 1 and isinstance(node.args[0], ast.Name) and node.args[0].id == param


def _eval_formula(expr):
    """Evaluate a closed arithmetic formula over n with a whitelisted
    evaluator (max/int/round, + - * /, constants).  This is constant folding of
    a pure arithmetic expression of the source, not execution of mpmath."""
    allowed = {'max': max, 'int': int, 'round': round}

    def ev(x, n):
        if isinstance(x, ast.Constant) and isinstance(x.value, (int, float)):
            return x.value
        if isinstance(x, ast.Name) and x.id == 'n':
            return n
        if isinstance(x, ast.BinOp):
            a, b = ev(x.left, n), ev(x.right, n)
            if isinstance(x.op, ast.Add):
                return a + b
            if isinstance(x.op, ast.Sub):
                return a - b
            if isinstance(x.op, ast.Mult):
                return a * b
            if isinstance(x.op, ast.Div):
                return a / b
            raise ValueError
        if isinstance(x, ast.Call) and isinstance(x.func, ast.Name) and x.func.id in allowed \
                and not x.keywords:
            return allowed[x.func.id](*[ev(a, n) for a in x.args])
        raise ValueError
    try:
        return tuple(ev(expr, n) for n in range(1, 4001))
    except Exception:
        return None


# ---------------------------------------------------------------------------
# A-R7: a generator hands control to its consumer at every yield, and the consumer may change
# the precision before asking for the next item.  A precision saved BEFORE a yield and written
# back AFTER it therefore resets the consumer's precision to a stale value.
A_R7_INTERNAL = {
    # (file, qualname): reason the generator never runs interleaved with foreign code
    ('mpmath/functions/zeta.py', 'primezeta.terms'):
        'passed to sum_accurately, which consumes it completely inside its own try/finally without '
        'touching the precision between items; never handed to the caller',
}


def check_generators(run, ix):
    from ..flow import FlowAnalysis

    class Stale(FlowAnalysis):
        def __init__(self):
            self.bad = []

        def join(self, a, b):
            return a | b

        def simple(self, node, state):
            has_yield = any(isinstance(x, (ast.Yield, ast.YieldFrom)) for x in _walk_own(node)) or \
                isinstance(getattr(node, 'value', None), (ast.Yield, ast.YieldFrom))
            st = state
            if isinstance(node, ast.Assign) and len(node.targets) == 1:
                t = node.targets[0]
                if isinstance(t, ast.Name) and is_cell_attr(node.value):
                    st = frozenset(x for x in st if x[0] != t.id) | {(t.id, 'fresh')}
                elif isinstance(t, ast.Name):
                    st = frozenset(x for x in st if x[0] != t.id)
                elif is_cell_attr(t) and isinstance(node.value, ast.Name):
                    if (node.value.id, 'stale') in st:
                        self.bad.append(node)
            if has_yield:
                st = frozenset((n, 'stale') for n, _ in st)
            return st, st

    n = 0
    for f in ix.all_funcs():
        if not isinstance(f.node, ast.FunctionDef):
            continue
        own = list(_walk_own(f.node))
        if not any(isinstance(x, (ast.Yield, ast.YieldFrom)) for x in own):
            continue
        writes = [x for x in own if isinstance(x, ast.Assign) and len(x.targets) == 1 and
                  is_cell_attr(x.targets[0]) and isinstance(x.value, ast.Name)]
        if not writes:
            continue
        n += 1
        an = Stale()
        an.run(f.node.body, frozenset())
        key = (f.file, f.qualname)
        if not an.bad:
            run.ok('A-R7', '%s: every restore uses a precision saved after the last yield' % f.qualname)
        elif key in A_R7_INTERNAL:
            run.ok('A-R7', '%s: internal generator (%s)' % (f.qualname, A_R7_INTERNAL[key][:60]))
        else:
            seen = set()
            for node in an.bad:
                if id(node) in seen:
                    continue
                seen.add(id(node))
                run.fail(Finding('A-R7', f.file, f.qualname, norm(node),
                                 'the generator writes back a precision it saved before a yield: if the '
                                 'consumer changed the precision between two items, the next item resets it '
                                 'to the stale value (and leaves a surrounding workprec block running at it)',
                                 line=node.lineno))
    if n < 2:
        raise AnalysisError('only %d generators that restore a precision found' % n)


# --------------------------------------------------------------------------- A-R8
def check_rule_object_steps(run, ix):
    """A-R8.  The inverse-Laplace rule objects are a documented two-call protocol: calc_laplace_parameter raises the
    precision of the CALLING context, calc_time_domain_solution puts it back (A-R4 checks the pairing).  A step that
    fails must not leave the raised precision behind: every concrete implementation of the two methods either contains
    a try whose handler / finally assigns <ctx>.prec, or is wrapped by a decorator of the module whose wrapper does so
    and re-raises."""
    run.rule('A-R8', floor=6, desc='a failing step of an inverse-Laplace rule object restores the precision')
    rel = 'mpmath/calculus/inverselaplace.py'
    m = ix.module(rel)

    def restoring_try(fn):
        for t in ast.walk(fn):
            if isinstance(t, ast.Try):
                blocks = list(t.finalbody)
                for h in t.handlers:
                    if any(isinstance(r, ast.Raise) and r.exc is None for r in ast.walk(h)):
                        blocks += h.body
                for b_ in blocks:
                    for a in ast.walk(b_):
                        if isinstance(a, ast.Assign) and any(isinstance(x, ast.Attribute) and x.attr == 'prec' and
                                                             'ctx' in norm(x) for x in a.targets):
                            return True
        return False
    n = 0
    for cname, c in sorted(m.classes.items()):
        bases = [norm(b) for b in c.node.bases]
        if 'InverseLaplaceTransform' not in bases:
            continue
        for mname in ('calc_laplace_parameter', 'calc_time_domain_solution'):
            f = c.methods.get(mname)
            if f is None:
                continue
            n += 1
            ok = restoring_try(f.node)
            for d in f.node.decorator_list:
                g = m.funcs.get(norm(d))
                if g is not None and restoring_try(g.node):
                    ok = True
            if ok:
                run.ok('A-R8', '%s.%s restores the precision when it fails' % (cname, mname))
            else:
                run.fail(Finding('A-R8', rel, '%s.%s' % (cname, mname), 'def %s' % mname,
                                 'this step changes / relies on the raised precision of the calling context and has no '
                                 'exception path that puts it back: a failure (t = 0, a transform list of the wrong '
                                 'length) leaves the caller at the rule\'s working precision', line=f.lineno))
    if n < 6:
        raise AnalysisError('only %d rule-object steps found' % n)


def check_relative_changes(run, ix):
    """A-R9.  A relative change `ctx.prec += e ... ctx.prec -= e` gives the entry value back only if the amount is an
    INTEGER: the setter truncates with int(), so 53 + 10.5 is stored as 63 and 63 - 10.5 as 52 -- every call then
    leaves the precision one bit lower.  Decided: the amount of every augmented assignment to .prec / .dps is an
    integer expression (int literals, mag(), int(), len(), bitcount(), //, +, -, *, <<, >>, max / min of such, names
    all of whose definitions are such); a true division or a float constant in it is the finding."""
    run.rule('A-R9', floor=8, desc='relative precision changes add and subtract integers')

    def integral(e, f, seen):
        if isinstance(e, ast.Constant):
            return isinstance(e.value, int) and not isinstance(e.value, bool)
        if isinstance(e, ast.Name):
            if e.id in seen:
                return True
            defs = [a.value for a in _walk_own(f.node) if isinstance(a, ast.Assign) and
                    any(isinstance(t, ast.Name) and t.id == e.id for t in a.targets)]
            defs += [a.value for a in _walk_own(f.node) if isinstance(a, ast.AugAssign) and
                     isinstance(a.target, ast.Name) and a.target.id == e.id and
                     not isinstance(a.op, ast.Div)]
            if any(isinstance(a, ast.AugAssign) and isinstance(a.target, ast.Name) and a.target.id == e.id and
                   isinstance(a.op, ast.Div) for a in _walk_own(f.node)):
                return False
            if not defs:
                return True          # parameter / outer name: documented integer amounts (extraprec, n, ...)
            return all(integral(d, f, seen | {e.id}) for d in defs)
        if isinstance(e, ast.BinOp):
            if isinstance(e.op, ast.Div):
                return False
            if isinstance(e.op, (ast.Add, ast.Sub, ast.Mult, ast.FloorDiv, ast.LShift, ast.RShift, ast.Mod, ast.Pow)):
                return integral(e.left, f, seen) and integral(e.right, f, seen)
            return False
        if isinstance(e, ast.UnaryOp):
            return integral(e.operand, f, seen)
        if isinstance(e, ast.Call):
            fn = norm(e.func).split('.')[-1]
            if fn in ('int', 'mag', 'len', 'bitcount', 'round', 'ceil', 'floor', 'dps_to_prec', 'prec_to_dps',
                      '_mag_if_small', 'to_int'):
                return True
            if fn in ('max', 'min', 'abs'):
                return all(integral(a, f, seen) for a in e.args)
            return True              # other calls: not judged (not a division by construction)
        if isinstance(e, ast.IfExp):
            return integral(e.body, f, seen) and integral(e.orelse, f, seen)
        return True
    for f in ix.all_funcs():
        if '/tests/' in f.file:
            continue
        for x in _walk_own(f.node):
            if isinstance(x, ast.AugAssign) and isinstance(x.target, ast.Attribute) and x.target.attr in ('prec', 'dps') \
                    and isinstance(x.op, (ast.Add, ast.Sub)):
                if integral(x.value, f, frozenset()):
                    run.ok('A-R9', '%s: `%s` changes the precision by an integer' % (f.qualname, norm(x)))
                else:
                    run.fail(Finding('A-R9', f.file, f.qualname, norm(x), 'the amount `%s` of this relative precision '
                                     'change is not an integer (a true division or a float enters it): the setter '
                                     'truncates, so adding and subtracting it does not give the entry precision back '
                                     '(53 + 10.5 -> 63, 63 - 10.5 -> 52)' % norm(x.value), line=x.lineno))
