"""One module per property; each exposes run(run, ix, tier)."""
