"""Engine D -- cache discipline (C33, clauses of C38/C17/C43).

Generic, name-parametrised data-flow rules over the AST of the functions that
own a memo table.  The frozen table (tables.CACHES) only *classifies* each
known container; every container that is mutated from a function body and is
not classified is an ANALYSIS-ERROR (untriaged), so a new cache can never hide.
"""
import ast
import re

from .index import AnalysisError, norm
from .prec_effect import _walk_own

PREC_PARAM = re.compile(r'^(in|w|work|new|c|cached_|tol_)?(prec|wp|dps)[0-9]*$')
SAFE_OPS = (ast.GtE, ast.Gt, ast.Eq)          # tag OP requested
FLIP = {ast.GtE: ast.LtE, ast.Gt: ast.Lt, ast.LtE: ast.GtE, ast.Lt: ast.Gt,
        ast.Eq: ast.Eq, ast.NotEq: ast.NotEq}


def prec_derived_names(f):
    """Names in f whose value derives only from precision parameters,
    <ctx>.prec loads, constants and integer arithmetic on those."""
    derived = set(p for p in f.all_params() if PREC_PARAM.match(p))
    changed = True
    assigns = [x for x in _walk_own(f.node) if isinstance(x, (ast.Assign, ast.AugAssign))]
    while changed:
        changed = False
        for st in assigns:
            if isinstance(st, ast.AugAssign):
                continue
            if len(st.targets) != 1 or not isinstance(st.targets[0], ast.Name):
                continue
            name = st.targets[0].id
            if name in derived:
                continue
            if is_prec_expr(st.value, derived) and _mentions_prec(st.value, derived):
                derived.add(name)
                changed = True
    return derived


def _mentions_prec(e, derived):
    for x in ast.walk(e):
        if isinstance(x, ast.Name) and x.id in derived:
            return True
        if isinstance(x, ast.Attribute) and x.attr in ('prec', '_prec'):
            return True
    return False


def is_prec_expr(e, derived):
    """expression built only from precision-derived names, <obj>.prec,
    constants, ALLCAPS constants, int()/max()/min()/bitcount() and arithmetic"""
    if isinstance(e, ast.Constant):
        return isinstance(e.value, (int, float))
    if isinstance(e, ast.Name):
        return e.id in derived or e.id.isupper()
    if isinstance(e, ast.Attribute):
        return e.attr in ('prec', '_prec') and isinstance(e.value, (ast.Name, ast.Attribute))
    if isinstance(e, ast.BinOp):
        return is_prec_expr(e.left, derived) and is_prec_expr(e.right, derived)
    if isinstance(e, ast.UnaryOp):
        return is_prec_expr(e.operand, derived)
    if isinstance(e, ast.Call) and isinstance(e.func, ast.Name) and \
            e.func.id in ('int', 'max', 'min', 'bitcount', 'round') and not e.keywords:
        return all(is_prec_expr(a, derived) for a in e.args)
    if isinstance(e, ast.Subscript) and isinstance(e.value, ast.Name):
        # table lookup indexed by a precision (cache_prec_steps[prec])
        return is_prec_expr(e.slice, derived) and not isinstance(e.slice, ast.Constant)
    if isinstance(e, ast.IfExp):
        return is_prec_expr(e.body, derived) and is_prec_expr(e.orelse, derived)
    return False


class CacheAccesses(object):
    """All syntactic accesses of one container inside one function."""

    def __init__(self, f, cname):
        self.f = f
        self.cname = cname            # normalised text of the container expression
        self.loads = []               # Subscript loads  C[k]
        self.gets = []                # C.get(k, ...)
        self.stores = []              # Assign stmt with target C[k]
        self.tests = []               # Compare  k in C / k not in C
        self.iters = []               # for x in C
        self.other = []
        for x in _walk_own(f.node):
            if isinstance(x, ast.Subscript) and norm(x.value) == cname:
                if isinstance(x.ctx, ast.Load):
                    self.loads.append(x)
                elif isinstance(x.ctx, ast.Store):
                    p = x._parent
                    while p is not None and not isinstance(p, ast.stmt):
                        p = p._parent
                    self.stores.append((p, x))
            elif isinstance(x, ast.Call) and isinstance(x.func, ast.Attribute) and \
                    norm(x.func.value) == cname:
                if x.func.attr == 'get':
                    self.gets.append(x)
                else:
                    self.other.append(x)
            elif isinstance(x, ast.Compare) and len(x.ops) == 1 and \
                    isinstance(x.ops[0], (ast.In, ast.NotIn)) and \
                    norm(x.comparators[0]) == cname:
                self.tests.append(x)
            elif isinstance(x, ast.For) and norm(x.iter) == cname:
                self.iters.append(x)

    def any(self):
        return bool(self.loads or self.gets or self.stores or self.tests or self.iters)


def enclosing_stmt(node):
    p = node
    while p is not None and not isinstance(p, ast.stmt):
        p = getattr(p, '_parent', None)
    return p


def ancestors(node):
    p = getattr(node, '_parent', None)
    while p is not None:
        yield p
        p = getattr(p, '_parent', None)


def conjuncts(test):
    """the conjuncts of a condition reached only through `and`"""
    if isinstance(test, ast.BoolOp) and isinstance(test.op, ast.And):
        out = []
        for v in test.values:
            out.extend(conjuncts(v))
        return out
    return [test]


def gated_by(node, is_safe_gate, stop):
    """node lies in the *body* of an enclosing `if` (below `stop`) one of whose
    conjuncts satisfies is_safe_gate; or follows, in the same conjunction, such
    a conjunct (short-circuit)."""
    child = node
    for p in ancestors(node):
        if p is stop:
            break
        if isinstance(p, ast.If) and child in p.body:
            for c in conjuncts(p.test):
                if is_safe_gate(c):
                    return True
        if isinstance(p, ast.IfExp) and child is p.body:
            for c in conjuncts(p.test):
                if is_safe_gate(c):
                    return True
        if isinstance(p, ast.BoolOp) and isinstance(p.op, ast.And):
            idx = p.values.index(child) if child in p.values else -1
            for v in p.values[:max(idx, 0)]:
                for c in conjuncts(v):
                    if is_safe_gate(c):
                        return True
        child = p
    return False


def compare_norm(c, is_tag, is_req):
    """Normalise a Compare to (op-class, tag-node, req-node) with the tag on
    the left; None if it is not a tag/requested comparison."""
    if not (isinstance(c, ast.Compare) and len(c.ops) == 1):
        return None
    a, b = c.left, c.comparators[0]
    op = type(c.ops[0])
    if is_tag(a) and is_req(b):
        return op, a, b
    if is_tag(b) and is_req(a) and op in FLIP:
        return FLIP[op], b, a
    return None
