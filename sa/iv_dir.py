"""Engine C -- interval endpoint discipline (C14, C15, clause of C17).

Built on Engine B's classification (sa/round_flow.py): every mpf value carries
the precision AND the rounding-mode term of the step that produced it.  An
interval is a pair (lower, upper); the typing rule of enclosures is

    lower  in  { exact/special/input endpoint,  rounded with round_floor   }
    upper  in  { exact/special/input endpoint,  rounded with round_ceiling }

Rules
  C-R1  every pair returned by an mpi_* function (every pair of pairs returned
        by an mpci_* function) is typed as above on every path
  C-R2  a rounded value that is an operand of a *directed* real-kernel call
        sits in a position whose monotonicity carries its bound the right way
        (add ++, sub +-, neg -, pos/shift +, exp/log/sqrt/atan +); operands of
        mul/div and of non-monotone kernels must be exact
  C-R3  every pair handed to an interval function as an argument is typed as
        an enclosure (this is what catches a corner evaluated with the wrong
        direction and then passed on, as in mpci_gamma)
  C-R4  the one outward-perturbation idiom (mpi_cos_sin.finalize) has the
        shape that makes it outward for both signs and both directions
What is NOT decided: that the right corner / monotonicity region is chosen,
and the rigour of the transcendental kernels inside their guard bits.
"""
import ast

from .index import AnalysisError, norm
from .prec_effect import _walk_own
from .round_flow import describe, S, X

LIBMPI = 'mpmath/libmp/libmpi.py'

# monotonicity of real kernels in their mpf operands ('+' increasing, '-'
# decreasing, '?' unknown / sign dependent)
MONO = {
    'mpf_add': ('+', '+'), 'mpf_sub': ('+', '-'), 'mpf_neg': ('-',), 'mpf_pos': ('+',),
    'mpf_shift': ('+',), 'mpf_exp': ('+',), 'mpf_log': ('+',), 'mpf_sqrt': ('+',),
    'mpf_atan': ('+',), 'mpf_mul': ('?', '?'), 'python_mpf_mul': ('?', '?'),
    'gmpy_mpf_mul': ('?', '?'), 'mpf_div': ('?', '?'), 'mpf_abs': ('?',),
}
OPPOSITE = {'f': 'c', 'c': 'f'}


def side_problems(classes, want, allow_unknown=()):
    """why a set of classes is not a valid `want` ('f' lower / 'c' upper) bound"""
    out = []
    for c in classes:
        if c == S or c == X or c[0] == 'A':
            continue
        if c[0] == 'R':
            if c[2] != want:
                out.append('rounded with %s' % _m(c[2]))
            continue
        if c[0] == 'T':
            if c[1] in allow_unknown:
                continue
            out.append('unknown (%s)' % c[1])
            continue
        if c[0] == 'P':
            out.append('a pair where a number is expected')
            continue
        out.append(describe(c))
    return sorted(set(out))


def _m(m):
    return {'f': 'round_floor', 'c': 'round_ceiling', 'd': 'the default round-down',
            'n': 'round_nearest', 'u': 'round_up', 'v': 'a non-constant mode',
            'U': 'an unknown mode'}.get(m, m)


def interval_problems(c, complex_=False):
    """c: a class; returns list of (what, problems)"""
    if c[0] != 'P':
        if c[0] == 'T':
            return [('value', ['unknown (%s)' % c[1]])]
        if c == S or c[0] == 'A':
            return []           # constant / an input interval handed on unchanged
        return [('value', ['not an interval: %s' % describe(c)])]
    if complex_:
        out = []
        for idx, name in ((1, 'real part'), (2, 'imaginary part')):
            for k in c[idx]:
                for what, pr in interval_problems(k, False):
                    out.append(('%s %s' % (name, what), pr))
        return out
    out = []
    lo = side_problems(c[1], 'f')
    hi = side_problems(c[2], 'c')
    if lo:
        out.append(('lower endpoint', lo))
    if hi:
        out.append(('upper endpoint', hi))
    return out


def is_interval_func(name):
    return name.startswith('mpi_') or name.startswith('mpci_')


def operand_modes(v):
    """mode letters of the rounded alternatives of an operand value"""
    out = set()
    if v[0] != 'mpf':
        return out

    def rec(c):
        if c[0] == 'R':
            out.add(c[2])
        elif c[0] == 'P':
            for k in c[1] | c[2]:
                rec(k)
    for c in v[1]:
        rec(c)
    return out
