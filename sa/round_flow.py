"""Engine B -- rounding-flow analysis of the libmp kernels and the thin
context layer (C10; clauses of C06, C04, C02, C13).

Flow-sensitive, bounded-disjunctive abstract interpretation (a small set of
"worlds" = environment + boolean facts, so that flag/precision correlations
like mpf_nthroot's flag_inverse are kept), with on-demand inter-procedural
summaries.

Abstract class of an mpf-typed value:
   S            named special/small constant, zero-mantissa value, power of two
   ('R', aff)   passed a rounding primitive at precision `aff` (affine form
                over the function's precision parameter P and opaque symbols)
   ('R', 'U')   rounded at a precision the analysis cannot relate to P
   X            exact result of an operation (unbounded number of bits)
   ('A', i, path)  parameter i (component path) passed through unrounded
   ('T', why)   unknown
   ('P', a, b)  complex pair of class-sets
"""
import ast

from .flow import FlowAnalysis, Outcome
from .index import AnalysisError, norm
from .prec_effect import _walk_own

S = ('S',)
X = ('X',)
KERNEL_MODULES = ['mpmath/libmp/libmpf.py', 'mpmath/libmp/libmpc.py',
                  'mpmath/libmp/libelefun.py', 'mpmath/libmp/gammazeta.py',
                  'mpmath/libmp/libhyper.py', 'mpmath/libmp/libmpi.py',
                  'mpmath/libmp/libintmath.py']

SPECIAL_NAMES = {'fzero', 'fnzero', 'fone', 'fnone', 'ftwo', 'ften', 'fhalf', 'fnan',
                 'finf', 'fninf'}
PAIR_SPECIAL_NAMES = {'mpc_one', 'mpc_zero', 'mpc_two', 'mpc_half', 'mpi_zero', 'mpi_one'}

# rounding primitives: name -> index of the precision argument.  Their bodies
# are validated by Engine E (C01); here they are the trusted base.
PRIMITIVES = {'normalize': 4, 'normalize1': 4, '_normalize': 4, '_normalize1': 4,
              'strict_normalize': 4, 'strict_normalize1': 4}
# exact when called without precision, result class = class of argument 0
EXACT_PRESERVING = {'mpf_neg', 'mpf_abs', 'mpf_shift', 'mpf_pos', 'mpc_neg', 'mpc_shift',
                    'mpc_conjugate_exact'}
# exact integer-part operation (its internal mpf_pos to `mag` bits IS the
# operation, not a rounding of the result)
EXACT_INTEGER_PART = {'mpf_round_int'}
# helper -> (index of the precision argument, index of the mode argument, where its body is verified)
OUTWARD_HELPERS = {
    'mpf_outward': (2, 3, 'C14 rule C-R19: computes at prec + 20, multiplies by 1 +- 2**(10-wp) on the outward side and '
                          'rounds with the given mode at the given precision'),
    'mpc_outward': (2, 3, 'C15 rule C-R19c: computes at prec + 20, moves the part outward by 2**(10-wp) relative to the '
                          'larger part and rounds with the given mode at the given precision'),
}
# helper -> (index of the precision argument, where the bound is verified)
GUARD_BOUNDED = {
    'exact_nthroot': (2, 'C13 rule E-X1: returns None unless c**n == man, after `if k > prec: return None` with '
                         'k = ceil(bc/n) >= bit length of c'),
}
SMALL_CLOSED = {'mpf_add', 'mpf_sub', 'mpf_neg', 'mpf_abs', 'mpf_pos'}
PREC_NAMES = ('prec', 'wp')


class Aff(object):
    """affine form  const + sum coeff*sym ; immutable, hashable"""
    __slots__ = ('c', 't', '_h')

    def __init__(self, c=0, t=()):
        self.c = c
        self.t = tuple(sorted((s, k) for s, k in dict(t).items() if k != 0))
        self._h = hash((self.c, self.t))

    def __eq__(self, o):
        return isinstance(o, Aff) and self.c == o.c and self.t == o.t

    def __hash__(self):
        return self._h

    def __add__(self, o):
        d = dict(self.t)
        for s, k in o.t:
            d[s] = d.get(s, 0) + k
        return Aff(self.c + o.c, d.items())

    def __neg__(self):
        return Aff(-self.c, [(s, -k) for s, k in self.t])

    def __sub__(self, o):
        return self + (-o)

    def scale(self, k):
        return Aff(self.c * k, [(s, c * k) for s, c in self.t])

    def subst(self, sym, repl):
        d = dict(self.t)
        k = d.pop(sym, 0)
        return Aff(self.c, d.items()) + repl.scale(k)

    def syms(self):
        return set(s for s, k in self.t)

    def is_const(self):
        return not self.t

    def __repr__(self):
        parts = ['%s%s' % ('' if k == 1 else '%d*' % k, s) for s, k in self.t]
        if self.c or not parts:
            parts.append(str(self.c))
        return '+'.join(parts).replace('+-', '-')


P = Aff(0, [('P', 1)])

# ---- rounding-mode terms ------------------------------------------------------
# 'v' + flags: the caller's mode variable, possibly mapped through negative_rnd
# ('n') and/or reciprocal_rnd ('r'); a single letter: constant mode; 'U': unknown
ROUND_CONSTS = {'round_floor': 'f', 'round_ceiling': 'c', 'round_down': 'd', 'round_up': 'u',
                'round_nearest': 'n', 'round_fast': 'd'}
_NEG = {'f': 'c', 'c': 'f', 'd': 'd', 'u': 'u', 'n': 'n'}
_REC = {'f': 'c', 'c': 'f', 'd': 'u', 'u': 'd', 'n': 'n'}


def mode_neg(m):
    if m == 'U':
        return m
    if m.startswith('v'):
        fl = set(m[1:])
        fl ^= {'n'}
        return 'v' + ''.join(sorted(fl))
    return _NEG[m]


def mode_rec(m):
    if m == 'U':
        return m
    if m.startswith('v'):
        fl = set(m[1:])
        fl ^= {'r'}
        return 'v' + ''.join(sorted(fl))
    return _REC[m]


def mode_compose(callee, actual):
    """callee's mode term instantiated with the actual mode passed by the caller"""
    if callee == 'U' or not callee.startswith('v'):
        return callee
    out = actual
    if 'n' in callee[1:]:
        out = mode_neg(out)
    if 'r' in callee[1:]:
        out = mode_rec(out)
    return out


def mkR(aff, mode='v', single=True):
    return ('R', aff, mode, single)


def mode_text(m):
    return {'v': "caller's mode", 'vn': "negative_rnd[mode]", 'vr': 'reciprocal_rnd[mode]',
            'vnr': 'negative_rnd[reciprocal_rnd[mode]]', 'U': 'unknown mode',
            'd': 'round-down (default)'}.get(m, 'constant mode %r' % m)


def bounded_by_P(cls):
    """True if a value of this class carries at most P bits"""
    if cls == S:
        return True
    if cls[0] == 'R':
        a = cls[1]
        if isinstance(a, Aff):
            if a.is_const() and a.c <= 1:
                return True
            d = a - P
            return d.is_const() and d.c <= 0
        return False
    return False


def describe(cls):
    if cls == S:
        return 'special/small constant'
    if cls == X:
        return 'exact (unrounded) result'
    if cls[0] == 'R':
        t = 'rounded to %s bits' % (cls[1] if cls[1] != 'U' else 'an unrelated number of')
        if len(cls) > 2 and cls[2] != 'v':
            t += ' with %s' % mode_text(cls[2])
        if len(cls) > 3 and not cls[3]:
            t += ' (of an already rounded intermediate)'
        return t
    if cls[0] == 'A':
        return 'operand %s%s%s passed through unrounded' % (
            '-' if len(cls) > 3 and cls[3] else '', cls[1], ''.join('[%d]' % i for i in cls[2]))
    if cls[0] == 'T':
        return 'unknown (%s)' % cls[1]
    if cls[0] == 'P':
        return '(%s, %s)' % ('|'.join(sorted(describe(c) for c in cls[1])),
                             '|'.join(sorted(describe(c) for c in cls[2])))
    return str(cls)


# -- abstract values held in the environment ------------------------------------
def MPF(classes):
    return ('mpf', frozenset(classes))


def INT(affs):
    return ('int', frozenset(affs))


UNKNOWN = ('unk',)
NONE = ('none',)


def pair(a, b):
    return ('P', frozenset(a), frozenset(b))


class World(object):
    __slots__ = ('env', 'facts', '_k')

    def __init__(self, env, facts):
        self.env = env
        self.facts = facts
        self._k = None

    def key(self):
        if self._k is None:
            self._k = (tuple(sorted(self.env.items(), key=lambda kv: kv[0])), self.facts)
        return self._k

    def __eq__(self, o):
        return isinstance(o, World) and self.key() == o.key()

    def __hash__(self):
        return hash(self.key())

    def set(self, name, val):
        env = dict(self.env)
        env[name] = val
        facts = frozenset(f for f in self.facts if f[1] != name)
        return World(env, facts)

    def unset(self, name):
        env = dict(self.env)
        env.pop(name, None)
        facts = frozenset(f for f in self.facts if f[1] != name)
        return World(env, facts)

    def signs(self, name):
        for f in self.facts:
            if f[0] == 'sg' and f[1] == name:
                return f[2]
        return frozenset((-1, 0, 1))

    def restrict_sign(self, name, allowed):
        cur = self.signs(name)
        new = cur & frozenset(allowed)
        if not new:
            return None
        if new == cur:
            return self
        facts = frozenset(f for f in self.facts if not (f[0] == 'sg' and f[1] == name))
        return World(self.env, facts | {('sg', name, new)})

    def fact(self, lit):
        """add a literal; None if it contradicts"""
        neg = ('f' if lit[0] == 't' else 't', lit[1])
        if neg in self.facts:
            return None
        if lit in self.facts:
            return self
        return World(self.env, self.facts | {lit})


MAXWORLDS = 12


def merge_worlds(ws):
    ws = list(ws)
    env = {}
    names = set()
    for w in ws:
        names |= set(w.env)
    for n in names:
        vals = [w.env.get(n, UNKNOWN) for w in ws]
        v0 = vals[0]
        if all(v == v0 for v in vals):
            env[n] = v0
        elif all(v[0] == 'mpf' or v == NONE for v in vals):
            u = set()
            for v in vals:
                u |= v[1] if v[0] == 'mpf' else {('T', 'None')}
            env[n] = MPF(_norm_classes(u))
        elif all(v[0] == 'int' for v in vals):
            u = set()
            for v in vals:
                u |= v[1]
            env[n] = INT(u) if len(u) <= 6 else UNKNOWN
        else:
            env[n] = UNKNOWN
    facts = None
    for w in ws:
        facts = w.facts if facts is None else (facts & w.facts)
    return World(env, facts or frozenset())


def compact(ws):
    """bound the number of worlds: first merge worlds that agree on their
    boolean facts (keeps flag/precision correlations), then everything"""
    if len(ws) <= MAXWORLDS:
        return ws
    groups = {}
    for w in ws:
        groups.setdefault(w.facts, []).append(w)
    out = frozenset(merge_worlds(g) if len(g) > 1 else g[0] for g in groups.values())
    if len(out) <= MAXWORLDS:
        return out
    return frozenset([merge_worlds(out)])


def _has_rounded(c):
    if c[0] == 'R':
        return True
    if c[0] == 'P':
        return any(_has_rounded(k) for k in c[1] | c[2])
    return False


def _map_modes(c, fn):
    if c[0] == 'R':
        return ('R', c[1], fn(c[2]), c[3])
    if c[0] == 'A' and fn is mode_neg:
        # an operand passed through negated: remember it, so that the mode of
        # whatever is substituted for it is mapped through negative_rnd
        neg = len(c) > 3 and c[3]
        return ('A', c[1], c[2], not neg) if not neg else ('A', c[1], c[2])
    if c[0] == 'P':
        return pair([_map_modes(k, fn) for k in c[1]], [_map_modes(k, fn) for k in c[2]])
    return c


def _norm_classes(classes):
    """merge several pairs into one componentwise pair"""
    pairs = [c for c in classes if c[0] == 'P']
    if len(pairs) <= 1:
        return frozenset(classes)
    a, b = set(), set()
    for p in pairs:
        a |= p[1]
        b |= p[2]
    rest = [c for c in classes if c[0] != 'P']
    return frozenset(rest + [pair(a, b)])


class KernelAnalysis(FlowAnalysis):
    max_iter = 30

    def __init__(self, engine, func, mode='kernel'):
        self.eng = engine
        self.func = func
        self.mode = mode
        self.record_calls = False
        self.calls = []           # (call node, callee Func, mode term, [(param, value)], world)
        self.tuples = []          # (4-tuple display node, world)
        self.returns = []         # (node, frozenset classes)
        self.sites = []           # context layer: (node, expr, classes)

    # ---- lattice over sets of worlds ----------------------------------------
    def join(self, a, b):
        return compact(a | b)

    def widen(self, old, new, n):
        if n > 10:
            return frozenset([merge_worlds(new)])
        return new

    # ---- expression evaluation ------------------------------------------------
    def zero_man(self, w, name):
        """variable `name` is known to have a zero mantissa in world w"""
        for m, v in w.env.items():
            if v == ('man', name) and ('f', m) in w.facts:
                return True
        return ('zm', name) in w.facts

    def ev(self, e, w):
        """-> abstract value"""
        if isinstance(e, ast.Name):
            if e.id == '__ctx_prec__':
                return INT([P])
            if e.id == '__ctx_rnd__':
                return ('rnd', 'ctx')
            if e.id in w.env:
                v = w.env[e.id]
                if v[0] == 'mpf' and self.zero_man(w, e.id):
                    return MPF([S])
                return v
            if e.id in SPECIAL_NAMES:
                return MPF([S])
            if e.id in PAIR_SPECIAL_NAMES:
                return MPF([pair([S], [S])])
            if e.id == 'MPZ_ONE' or e.id == 'MPZ_ZERO':
                return INT([Aff(1 if e.id == 'MPZ_ONE' else 0)])
            if e.id.isupper():
                return INT([Aff(0, [(e.id, 1)])])
            return UNKNOWN
        if isinstance(e, ast.Constant):
            if e.value is None:
                return NONE
            if isinstance(e.value, bool):
                return UNKNOWN
            if isinstance(e.value, int):
                return INT([Aff(e.value)])
            return UNKNOWN
        if isinstance(e, ast.Attribute):
            return self.ev_attribute(e, w)
        if isinstance(e, ast.Tuple):
            return self.ev_tuple(e, w)
        if isinstance(e, ast.List):
            cl = set()
            for x in e.elts:
                v = self.ev(x, w)
                cl |= self.as_classes(v, 'list element %s' % norm(x, 30))
            return ('list', frozenset(cl))
        if isinstance(e, ast.Call):
            return self.ev_call(e, w)
        if isinstance(e, ast.Subscript):
            return self.ev_subscript(e, w)
        if isinstance(e, ast.IfExp):
            a, b = self.ev(e.body, w), self.ev(e.orelse, w)
            return self.union(a, b)
        if isinstance(e, ast.BoolOp) and isinstance(e.op, ast.Or):
            a = self.ev(e.values[0], w)
            if a[0] == 'int' and all(self.positive(x) for x in a[1]):
                return a
            out = a
            for v in e.values[1:]:
                b = self.ev(v, w)
                if out == NONE:
                    out = b
                elif out[0] == 'mpf' and b[0] == 'mpf':
                    # `x or y`: a None alternative of x is replaced by y
                    out = MPF(_norm_classes((out[1] - {('T', 'None')}) | b[1]))
                else:
                    out = self.union(out, b)
            return out
        if isinstance(e, ast.UnaryOp):
            a = self.ev(e.operand, w)
            if isinstance(e.op, ast.USub) and a[0] == 'int':
                return INT([-x for x in a[1]])
            if isinstance(e.op, ast.UAdd):
                return a
            return UNKNOWN
        if isinstance(e, ast.BinOp):
            a, b = self.ev(e.left, w), self.ev(e.right, w)
            if a[0] == 'int' and b[0] == 'int' and len(a[1]) * len(b[1]) <= 6:
                if isinstance(e.op, ast.Add):
                    return INT([x + y for x in a[1] for y in b[1]])
                if isinstance(e.op, ast.Sub):
                    return INT([x - y for x in a[1] for y in b[1]])
                if isinstance(e.op, ast.Mult):
                    out = []
                    for x in a[1]:
                        for y in b[1]:
                            if x.is_const():
                                out.append(y.scale(x.c))
                            elif y.is_const():
                                out.append(x.scale(y.c))
                            else:
                                return self.opaque(e)
                    return INT(out)
            if a[0] == 'int' or b[0] == 'int' or a == UNKNOWN or b == UNKNOWN:
                return self.opaque(e)
            return UNKNOWN
        return UNKNOWN

    def opaque(self, e):
        return INT([Aff(0, [('<%s>' % norm(e, 50), 1)])])

    def positive(self, a):
        # P and ALLCAPS/opaque-free forms with P coefficient 1 and const >= -P.. : treat
        # any form whose only symbol is P with positive coefficient as positive
        d = dict(a.t)
        return d.get('P', 0) > 0 and all(k >= 0 for k in d.values())

    def union(self, a, b):
        if a == b:
            return a
        if a == NONE and b[0] == 'mpf':
            return MPF(b[1] | {('T', 'None')})
        if b == NONE and a[0] == 'mpf':
            return MPF(a[1] | {('T', 'None')})
        if a[0] == 'mpf' and b[0] == 'mpf':
            return MPF(_norm_classes(a[1] | b[1]))
        if a[0] == 'int' and b[0] == 'int':
            u = a[1] | b[1]
            return INT(u) if len(u) <= 6 else UNKNOWN
        return UNKNOWN

    def as_classes(self, v, why):
        if v[0] == 'mpf':
            return v[1]
        return frozenset([('T', why)])

    def ev_attribute(self, e, w):
        if self.mode == 'context':
            if e.attr == '_mpf_' and isinstance(e.value, ast.Name):
                v = w.env.get(e.value.id)
                if v is not None and v[0] == 'num':
                    return MPF(v[1])
            if e.attr in ('_mpf_',):
                return MPF([('A', norm(e), ())])
            if e.attr in ('_mpc_',):
                return MPF([pair([('A', norm(e), (0,))], [('A', norm(e), (1,))])])
            if e.attr in ('prec', '_prec') and isinstance(e.value, ast.Name):
                return INT([P])
        return UNKNOWN

    def ev_tuple(self, e, w):
        n = len(e.elts)
        if n == 2:
            a = self.ev(e.elts[0], w)
            b = self.ev(e.elts[1], w)
            if a[0] == 'mpf' or b[0] == 'mpf':
                return MPF([pair(self.as_classes(a, 'tuple element %s' % norm(e.elts[0], 30)),
                                 self.as_classes(b, 'tuple element %s' % norm(e.elts[1], 30)))])
            return UNKNOWN
        if n == 4:
            if getattr(self, 'record_calls', False):
                self.tuples.append((e, w))
            man = e.elts[1]
            bc = e.elts[3]
            # power of two / small literal
            if isinstance(man, ast.Name) and man.id in ('MPZ_ONE', 'MPZ_ZERO'):
                return MPF([S])
            if isinstance(man, ast.Constant) and isinstance(man.value, int) and abs(man.value) < 8:
                return MPF([S])
            # mantissa of a known value: sign / exponent rewrite keeps the bits
            if isinstance(man, ast.Name):
                v = w.env.get(man.id)
                if v is not None and v[0] == 'man':
                    src = w.env.get(v[1])
                    if ('f', man.id) in w.facts:
                        return MPF([S])
                    if src is not None and src[0] == 'mpf':
                        return src
            return MPF([('T', 'raw tuple %s' % norm(e, 40))])
        return UNKNOWN

    def ev_subscript(self, e, w):
        base = e.value
        # {1: finf, -1: fninf}[...]  /  [finf, fninf][n & 1]
        if isinstance(base, ast.Dict):
            vals = [self.ev(v, w) for v in base.values]
            out = vals[0]
            for v in vals[1:]:
                out = self.union(out, v)
            return out
        if isinstance(base, (ast.List, ast.Tuple)) and not isinstance(e.slice, ast.Slice):
            vals = [self.ev(v, w) for v in base.elts]
            if vals:
                out = vals[0]
                for v in vals[1:]:
                    out = self.union(out, v)
                return out
        if isinstance(base, ast.Name) and base.id not in w.env:
            d = self.eng.module_dict(base.id)
            if d is not None:
                vals = [self.ev(x, w) for x in d.values]
                if vals:
                    out = vals[0]
                    for x in vals[1:]:
                        out = self.union(out, x)
                    return out
        v = self.ev(base, w)
        if v[0] == 'mpf' and isinstance(e.slice, ast.Constant) and e.slice.value in (0, 1):
            out = set()
            for c in v[1]:
                if c[0] == 'P':
                    out |= c[1 + e.slice.value]
                elif c[0] == 'A':
                    out.add(('A', c[1], c[2] + (e.slice.value,)) + tuple(c[3:]))
                elif c[0] == 'T':
                    out.add(c)
                else:
                    out.add(('T', 'component of a non-pair'))
            return MPF(out)
        return UNKNOWN

    # ---- calls -------------------------------------------------------------------
    def callee_name(self, call):
        fn = call.func
        if isinstance(fn, ast.Name):
            return fn.id
        if isinstance(fn, ast.Attribute) and isinstance(fn.value, ast.Name) and \
                fn.value.id in ('libmp', 'libmpf', 'libmpc', 'libelefun'):
            return fn.attr
        return None

    def ev_call(self, call, w):
        name = self.callee_name(call)
        if name is None:
            return self.ev_other_call(call, w)
        args = list(call.args)
        kw = dict((k.arg, k.value) for k in call.keywords if k.arg)
        if name == 'dps_to_prec':
            # a dps keyword is the *requested* precision
            return INT([P]) if self.mode == 'context' else self.opaque(call)
        if name in ('prec_to_dps', 'bitcount', 'int', 'max', 'min', 'abs', 'len'):
            return self.ev_other_call(call, w)
        if name == 'mpf_min_max' and len(args) == 1:
            v = self.ev(args[0], w)
            if v[0] == 'list':
                return MPF([pair(v[1], v[1])])
            return MPF([pair([('T', 'elements of %s' % norm(args[0], 30))],
                             [('T', 'elements of %s' % norm(args[0], 30))])])
        if name in ('MIN', 'MAX') and len(args) == 2:
            a, b = self.ev(args[0], w), self.ev(args[1], w)
            return self.union(a, b)
        if name in EXACT_INTEGER_PART:
            # floor/ceil/nint of the operand as an exact integer (unbounded)
            return MPF([X])
        if name in PRIMITIVES:
            idx = PRIMITIVES[name]
            pe = args[idx] if len(args) > idx else kw.get('prec')
            if pe is None:
                return MPF([('T', 'rounding primitive without precision')])
            re_ = args[idx + 1] if len(args) > idx + 1 else kw.get('rnd')
            return MPF(self.rounded(self.ev(pe, w), self.ev_mode(re_, w)))
        if name == 'from_man_exp' or name == 'from_int' or name == 'from_float' or \
                name == 'from_rational' or name == 'from_str' or name == 'from_npfloat' or \
                name == 'from_Decimal':
            idx = {'from_man_exp': 2, 'from_int': 1, 'from_float': 1, 'from_rational': 2,
                   'from_str': 1, 'from_npfloat': 1, 'from_Decimal': 1}[name]
            pe = args[idx] if len(args) > idx else kw.get('prec')
            if pe is None:
                return MPF([X])
            pv = self.ev(pe, w)
            if pv[0] == 'int' and all(a.is_const() and a.c == 0 for a in pv[1]):
                return MPF([X])
            re_ = args[idx + 1] if len(args) > idx + 1 else kw.get('rnd')
            single = True
            if name == 'from_rational':
                single = True
            return MPF(self.rounded(pv, self.ev_mode(re_, w), single))
        if name in OUTWARD_HELPERS:
            # kernel value moved outward and then rounded with (prec, mode) given by position; the helper's body
            # is verified by the rule named in the table.  Zero / infinities / exact values pass through unchanged:
            # they are bounds in either direction
            pi_, mi_ = OUTWARD_HELPERS[name][:2]
            if len(args) > max(pi_, mi_):
                return MPF(self.rounded(self.ev(args[pi_], w), self.ev_mode(args[mi_], w)) | frozenset([S]))
        if name in GUARD_BOUNDED:
            # exact value whose bit length is bounded by a precision argument through a guard inside the
            # helper (verified structurally by the rule named in the table): as good as rounded to it, in any mode
            idx = GUARD_BOUNDED[name][0]
            if len(args) > idx:
                return MPF(self.rounded(self.ev(args[idx], w), 'v'))
        fs = self.eng.resolve(name)
        if not fs:
            # a function nested in the analysed function (or an enclosing one)
            g = self.func
            while g is not None and not fs:
                fs = [nf for nf in g.nested if nf.name == name]
                g = g.parent
        if not fs:
            return MPF([('T', 'call of %s' % name)]) if self.eng.looks_mpf(name) else UNKNOWN
        out = None
        for f in fs:
            v = self.apply_summary(f, call, args, kw, w)
            out = v if out is None else self.union(out, v)
        return out

    def ev_other_call(self, call, w):
        fn = call.func
        if self.mode == 'context':
            t = norm(fn)
            # keyword override of the precision is the *requested* precision
            if t.endswith('kwargs.get') and call.args and \
                    isinstance(call.args[0], ast.Constant) and call.args[0].value == 'prec':
                return INT([P])
            if t == 'dps_to_prec':
                return INT([P])
            if isinstance(fn, ast.Attribute) and fn.attr == 'mpf' and \
                    norm(fn.value).endswith(('context', 'ctx')):
                # constructor: rounded to the working precision by _mpf.__new__
                return ('num', frozenset([mkR(P)]))
        if self.mode == 'context' and isinstance(fn, ast.Attribute):
            # x.func(prec, rounding) of a constant object; cls.mpf_convert_arg(...)
            if fn.attr == 'func' and len(call.args) == 2:
                return MPF(self.rounded(self.ev(call.args[0], w)))
            if fn.attr == 'mpf_convert_arg':
                # documented: returns a raw value that still has to be rounded
                return MPF([X])
            if fn.attr == '_parse_prec':
                return ('precpair',)
        if isinstance(fn, ast.Name) and fn.id in ('int', 'max', 'min', 'abs') and call.args:
            vals = [self.ev(a, w) for a in call.args]
            if fn.id == 'int' and vals[0][0] == 'int':
                return vals[0]
            return self.opaque(call)
        return UNKNOWN

    def rounded(self, pv, mode='v', single=True):
        if pv[0] == 'int':
            return frozenset(mkR(a, mode, single) for a in pv[1])
        return frozenset([mkR('U', mode, single)])

    def ev_mode(self, e, w, default='d'):
        """rounding-mode term of an argument expression"""
        if e is None:
            return default
        if isinstance(e, ast.Name):
            if e.id == '__ctx_rnd__':
                return 'v'
            v = w.env.get(e.id)
            if v is not None and v[0] == 'rnd':
                m = v[1]
                return 'v' if m in ('param', 'ctx') else m
            if e.id in ROUND_CONSTS:
                return ROUND_CONSTS[e.id]
            return 'U'
        if isinstance(e, ast.Constant) and isinstance(e.value, str) and e.value in _NEG:
            return e.value
        if isinstance(e, ast.Subscript) and isinstance(e.value, ast.Name):
            if e.value.id == 'negative_rnd':
                return mode_neg(self.ev_mode(e.slice, w))
            if e.value.id == 'reciprocal_rnd':
                return mode_rec(self.ev_mode(e.slice, w))
        if isinstance(e, ast.BoolOp) and isinstance(e.op, ast.Or):
            # rnd or round_fast
            a = self.ev_mode(e.values[0], w)
            return a
        return 'U'

    def operands_exact(self, vals):
        for v in vals:
            if v[0] != 'mpf':
                continue
            for c in v[1]:
                if _has_rounded(c):
                    return False
        return True

    def apply_summary(self, f, call, args, kw, w):
        params = f.params
        defaults = f.defaults()
        # bind actuals
        actual = {}
        expanded = []
        for a in args:
            if isinstance(a, ast.Starred):
                if self.mode == 'context' and norm(a.value).endswith('._prec_rounding'):
                    expanded.append(ast.Name(id='__ctx_prec__', ctx=ast.Load()))
                    expanded.append(ast.Name(id='__ctx_rnd__', ctx=ast.Load()))
                    continue
                return MPF([('T', 'starred call of %s' % f.name)])
            expanded.append(a)
        args = expanded
        for i, a in enumerate(args):
            if i < len(params):
                actual[params[i]] = a
        for k, v in kw.items():
            actual[k] = v
        pname = None
        for cand in PREC_NAMES:
            if cand in params:
                pname = cand
                break
        if pname is None:
            # not a precision-taking kernel: result unknown unless it is a known exact helper
            s = self.eng.summary(f, None, self.const_args(f, actual, w))
            if getattr(self, 'record_calls', False):
                self.calls.append((call, f, 'U', [(p_, self.ev(a, w)) for p_, a in actual.items()], w))
            rname0 = 'rnd' if 'rnd' in params else ('rounding' if 'rounding' in params else None)
            amode0 = 'U'
            if rname0 is not None and actual.get(rname0) is not None:
                amode0 = self.ev_mode(actual[rname0], w)
            # closures inherit the precision of the enclosing kernel
            pv0 = None
            if f.parent is not None:
                for cand in PREC_NAMES:
                    v0 = w.env.get(cand)
                    if v0 is not None and v0[0] == 'int':
                        pv0 = v0
            self._amode = amode0
            self._aexact = True
            return self.subst(s, f, actual, pv0, w)
        pe = actual.get(pname)
        if pe is None:
            d = defaults.get(pname)
            if d is None:
                return MPF([('T', 'call of %s without its precision' % f.name)])
            # exact mode
            if f.name in EXACT_PRESERVING and args:
                return self.exact_preserving(f.name, self.ev(args[0], w))
            if f.name.startswith(('mpi_', 'mpci_')):
                return self.exact_interval_call(f, pname, actual, w)
            return MPF([X])
        pv = self.ev(pe, w)
        if pv[0] == 'int' and all(a.is_const() and a.c == 0 for a in pv[1]):
            if f.name in EXACT_PRESERVING and args:
                return self.exact_preserving(f.name, self.ev(args[0], w))
            if f.name.startswith(('mpi_', 'mpci_')):
                return self.exact_interval_call(f, pname, actual, w)
            return MPF([X])
        if f.name in SMALL_CLOSED:
            # operations on special/zero/small constants only: the result is again
            # special or small (inf, nan, zero, +-1, 2, ...)
            ops = [self.ev(a, w) for p_, a in actual.items() if p_ not in (pname, 'rnd', '_sub')]
            if ops and all(v[0] == 'mpf' and v[1] == frozenset([S]) for v in ops):
                return MPF([S])
        s = self.eng.summary(f, pname, self.const_args(f, actual, w))
        rname = 'rnd' if 'rnd' in params else ('rounding' if 'rounding' in params else None)
        amode = 'U'
        if rname is not None:
            re_ = actual.get(rname)
            if re_ is None:
                d = defaults.get(rname)
                amode = self.ev_mode(d, w) if d is not None else 'U'
                if isinstance(d, ast.Constant) and d.value is None:
                    amode = 'U'
            else:
                amode = self.ev_mode(re_, w)
        opvals = [(p_, self.ev(a, w)) for p_, a in actual.items() if p_ not in (pname, rname)]
        aexact = self.operands_exact([v for p_, v in opvals])
        if getattr(self, 'record_calls', False):
            self.calls.append((call, f, amode, opvals, w))
        # (nested calls evaluated above may have set these; set them last)
        self._amode = amode
        self._aexact = aexact
        return self.subst(s, f, actual, pv, w)

    def exact_interval_call(self, f, pname, actual, w):
        """interval function called without precision: analyse it with prec = 0"""
        consts = frozenset(set(self.const_args(f, actual, w)) | {('__exact__', True)})
        s = self.eng.summary(f, pname, consts)
        self._amode = 'U'
        self._aexact = True
        return self.subst(s, f, actual, INT([Aff(0)]), w)

    def exact_preserving(self, fname, v):
        """mpf_neg/abs/shift/pos without precision: same bits; a negation turns a
        value rounded in direction m into one rounded in direction negative_rnd[m]"""
        if v[0] != 'mpf':
            return v
        if fname in ('mpf_neg', 'mpc_neg'):
            return MPF(_map_modes(c, mode_neg) for c in v[1])
        if fname == 'mpf_abs':
            return MPF(_map_modes(c, lambda m: m if m in ('n',) else 'U') for c in v[1])
        return v

    def const_args(self, f, actual, w):
        """constant (int/bool/None) actuals and defaults of non-precision
        parameters: summaries are specialised on them (mode flags such as
        tanh=1, type=3, _sub=1, n=3)"""
        out = []
        defaults = f.defaults()
        for p in f.all_params():
            if p in ('rnd', 'rounding'):
                # an explicitly passed rounding mode is a non-empty string
                e = actual.get(p)
                if e is not None and not (isinstance(e, ast.Constant) and e.value is None):
                    if not (isinstance(e, ast.Name) and w.env.get(e.id) == NONE):
                        if isinstance(e, ast.Name) and w.env.get(e.id, UNKNOWN)[0] != 'rnd' and \
                                e.id not in ('__ctx_rnd__',) and not e.id.startswith('round_'):
                            continue
                        out.append((p, True))
                continue
            if p in PREC_NAMES:
                continue
            e = actual.get(p, defaults.get(p))
            if e is None:
                continue
            if isinstance(e, ast.Constant) and (isinstance(e.value, (int, bool)) or e.value is None):
                out.append((p, e.value))
            elif isinstance(e, ast.UnaryOp) and isinstance(e.op, ast.USub) and \
                    isinstance(e.operand, ast.Constant) and isinstance(e.operand.value, int):
                out.append((p, -e.operand.value))
            elif isinstance(e, ast.Name) and p in actual:
                v = w.env.get(e.id)
                if v is not None and v[0] == 'int' and len(v[1]) == 1:
                    a = next(iter(v[1]))
                    if a.is_const():
                        out.append((p, a.c))
                if ('t', e.id) in w.facts and v is not None and v[0] != 'int':
                    out.append((p, True))
                elif ('f', e.id) in w.facts and v is not None and v[0] != 'int':
                    out.append((p, False))
        return frozenset(out)

    def subst(self, classes, f, actual, pv, w):
        out = set()
        for c in classes:
            out |= self.subst1(c, f, actual, pv, w)
        return MPF(_norm_classes(out))

    def subst1(self, c, f, actual, pv, w):
        if c == S or c == X or c[0] == 'T':
            return {c}
        if c[0] == 'R':
            mode = mode_compose(c[2], getattr(self, '_amode', 'U'))
            single = c[3] and getattr(self, '_aexact', True)
            if c[1] == 'U' or pv is None or pv[0] != 'int':
                return {mkR('U', mode, single)}
            return set(mkR(c[1].subst('P', a), mode, single) for a in pv[1])
        if c[0] == 'A':
            saved = (getattr(self, '_amode', 'U'), getattr(self, '_aexact', True))
            try:
                out = self._subst_arg(c, f, actual, w)
                if len(c) > 3 and c[3]:
                    out = set(_map_modes(k, mode_neg) for k in out)
                return out
            finally:
                self._amode, self._aexact = saved
        if c[0] == 'P':
            a, b = set(), set()
            for k in c[1]:
                a |= self.subst1(k, f, actual, pv, w)
            for k in c[2]:
                b |= self.subst1(k, f, actual, pv, w)
            return {pair(a, b)}
        return {c}

    def _subst_arg(self, c, f, actual, w):
        if True:
            pname = c[1]
            e = actual.get(pname)
            if e is None:
                d = f.defaults().get(pname)
                if d is None:
                    return {('T', 'missing argument %s' % pname)}
                e = d
            v = self.ev(e, w)
            if v[0] != 'mpf':
                return {('T', 'argument %s of %s' % (pname, f.name))}
            cls = set(v[1])
            for idx in c[2]:
                nxt = set()
                for k in cls:
                    if k[0] == 'P':
                        nxt |= k[1 + idx]
                    elif k[0] == 'A':
                        nxt.add(('A', k[1], k[2] + (idx,)) + tuple(k[3:]))
                    else:
                        nxt.add(k if k[0] == 'T' else ('T', 'component of non-pair'))
                cls = nxt
            return cls

    # ---- conditions ------------------------------------------------------------------
    def split(self, test, w):
        """-> (list of worlds where test holds, list where it does not)"""
        if isinstance(test, ast.UnaryOp) and isinstance(test.op, ast.Not):
            t, f = self.split(test.operand, w)
            return f, t
        if isinstance(test, ast.BoolOp):
            if isinstance(test.op, ast.And):
                trues = [w]
                falses = []
                for v in test.values:
                    nt = []
                    for x in trues:
                        t, f = self.split(v, x)
                        nt.extend(t)
                        falses.extend(f)
                    trues = nt
                return trues, falses
            else:
                falses = [w]
                trues = []
                for v in test.values:
                    nf = []
                    for x in falses:
                        t, f = self.split(v, x)
                        trues.extend(t)
                        nf.extend(f)
                    falses = nf
                return trues, falses
        if isinstance(test, ast.Compare) and len(test.ops) == 1 and \
                isinstance(test.ops[0], (ast.Is, ast.IsNot)) and isinstance(test.left, ast.Name) \
                and isinstance(test.comparators[0], ast.Constant) and \
                test.comparators[0].value is None:
            v = w.env.get(test.left.id, UNKNOWN)
            isnone = [w.set(test.left.id, NONE)]
            notnone = [w]
            if v == NONE:
                notnone = []
            elif v[0] == 'mpf':
                notnone = [w.set(test.left.id, MPF(v[1] - {('T', 'None')}))]
                if ('T', 'None') not in v[1]:
                    isnone = []
            if isinstance(test.ops[0], ast.Is):
                return isnone, notnone
            return notnone, isnone
        if isinstance(test, ast.Name):
            v = w.env.get(test.id)
            if v == NONE:
                return [], [w]
            if v is not None and v[0] == 'mpf' and ('T', 'None') in v[1]:
                # a raw mpf tuple is always truthy; only None is falsy
                return [w.set(test.id, MPF(v[1] - {('T', 'None')}))], [w.set(test.id, NONE)]
            if v is not None and v[0] == 'int' and all(self.positive(a) for a in v[1]):
                return [w], []
            if v is not None and v[0] == 'int' and all(a.is_const() and a.c == 0 for a in v[1]):
                return [], [w]
            t = w.fact(('t', test.id))
            f = w.fact(('f', test.id))
            return ([t] if t else []), ([f] if f else [])
        if isinstance(test, ast.Subscript) and isinstance(test.value, ast.Name) and \
                isinstance(test.slice, ast.Constant) and test.slice.value == 1:
            # x[1]: the mantissa of x
            name = test.value.id
            t = w.fact(('nzm', name))
            f = w.fact(('zm', name))
            return ([t] if t else []), ([f] if f else [])
        if isinstance(test, ast.Compare) and len(test.ops) == 2 and \
                all(isinstance(o, ast.Eq) for o in test.ops):
            # a == b == c  <=>  a == b and b == c
            c1 = ast.Compare(left=test.left, ops=[ast.Eq()], comparators=[test.comparators[0]])
            c2 = ast.Compare(left=test.comparators[0], ops=[ast.Eq()], comparators=[test.comparators[1]])
            c3 = ast.Compare(left=test.left, ops=[ast.Eq()], comparators=[test.comparators[1]])
            return self.split(ast.BoolOp(op=ast.And(), values=[c3, c2, c1]), w)
        if isinstance(test, ast.Compare) and len(test.ops) == 1 and \
                isinstance(test.left, ast.Name) and isinstance(test.comparators[0], ast.Constant) \
                and test.comparators[0].value == 0 and w.env.get(test.left.id, UNKNOWN)[0] != 'int':
            sets = {ast.Lt: (-1,), ast.LtE: (-1, 0), ast.Gt: (1,), ast.GtE: (0, 1),
                    ast.Eq: (0,), ast.NotEq: (-1, 1)}.get(type(test.ops[0]))
            if sets is not None:
                t = w.restrict_sign(test.left.id, sets)
                f = w.restrict_sign(test.left.id, set((-1, 0, 1)) - set(sets))
                return ([t] if t else []), ([f] if f else [])
        if isinstance(test, ast.Compare) and len(test.ops) == 1:
            op = test.ops[0]
            left, right = test.left, test.comparators[0]
            a, b = self.ev(left, w), self.ev(right, w)
            if a[0] == 'int' and b[0] == 'int' and len(a[1]) == 1 and len(b[1]) == 1:
                x, y = next(iter(a[1])), next(iter(b[1]))
                d = x - y
                if d.is_const():
                    res = {ast.Lt: d.c < 0, ast.LtE: d.c <= 0, ast.Gt: d.c > 0, ast.GtE: d.c >= 0,
                           ast.Eq: d.c == 0, ast.NotEq: d.c != 0}.get(type(op))
                    if res is not None:
                        return ([w], []) if res else ([], [w])
            if isinstance(op, (ast.Eq, ast.In, ast.Is)) and isinstance(left, ast.Name):
                if self.is_special_expr(right) and w.env.get(left.id, UNKNOWN)[0] == 'mpf':
                    return [w.set(left.id, MPF([S]))], [w]
            if isinstance(op, (ast.NotEq, ast.NotIn, ast.IsNot)) and isinstance(left, ast.Name):
                if self.is_special_expr(right) and w.env.get(left.id, UNKNOWN)[0] == 'mpf':
                    return [w], [w.set(left.id, MPF([S]))]
            if isinstance(op, ast.Eq) and isinstance(left, ast.Name) and \
                    isinstance(right, ast.Name):
                # s == t : if either is special so is the other
                a, b = w.env.get(left.id, UNKNOWN), w.env.get(right.id, UNKNOWN)
                if a[0] == 'mpf' and b[0] == 'mpf':
                    ca = self.ev(left, w)
                    cb = self.ev(right, w)
                    if ca == MPF([S]) and cb != ca:
                        return [w.set(right.id, MPF([S]))], [w]
                    if cb == MPF([S]) and cb != ca:
                        return [w.set(left.id, MPF([S]))], [w]
        return [w], [w]

    def is_special_expr(self, e):
        if isinstance(e, ast.Name):
            return e.id in SPECIAL_NAMES
        if isinstance(e, (ast.Tuple, ast.List)):
            return all(self.is_special_expr(x) for x in e.elts)
        return False

    def cond(self, test, state):
        ts, fs = [], []
        for w in state:
            t, f = self.split(test, w)
            ts.extend(t)
            fs.extend(f)
        t = compact(frozenset(ts)) if ts else None
        f = compact(frozenset(fs)) if fs else None
        return t, f, None

    # ---- statements --------------------------------------------------------------------
    def simple(self, node, state):
        out = set()
        for w in state:
            out.add(self.exec_simple(node, w))
        return frozenset(out), None

    def exec_simple(self, node, w):
        if isinstance(node, ast.Assign):
            if self.mode == 'context':
                self.scan_make(node.value, w)
            for t in node.targets:
                w = self.assign(t, node.value, w)
            return w
        if isinstance(node, ast.AugAssign):
            if isinstance(node.target, ast.Name):
                fake = ast.BinOp(left=ast.Name(id=node.target.id, ctx=ast.Load()),
                                 op=node.op, right=node.value)
                v = self.ev(fake, w)
                if v[0] != 'int':
                    v = UNKNOWN
                return w.set(node.target.id, v)
            return w
        if isinstance(node, ast.Expr):
            if self.mode == 'context':
                self.scan_make(node.value, w)
            return w
        return w

    def assign(self, target, value, w):
        if isinstance(target, ast.Name):
            if target.id in ('rnd', 'rounding') or (
                    isinstance(value, ast.Subscript) and isinstance(value.value, ast.Name)
                    and value.value.id in ('negative_rnd', 'reciprocal_rnd')):
                m = self.ev_mode(value, w)
                return w.set(target.id, ('rnd', m))
            v = self.ev(value, w)
            if isinstance(value, ast.Constant) and isinstance(value.value, bool):
                w2 = w.set(target.id, UNKNOWN)
                return w2.fact(('t' if value.value else 'f', target.id)) or w2
            if v == ('precpair',):
                return w.set(target.id, v)
            return w.set(target.id, v)
        if isinstance(target, (ast.Tuple, ast.List)):
            n = len(target.elts)
            names = [t.id if isinstance(t, ast.Name) else None for t in target.elts]
            src = value
            # prec, rounding = ctx._prec_rounding / _parse_prec / cls, new, (prec, rounding) = s._ctxdata
            if self.mode == 'context':
                st = norm(src)
                if n == 2 and (st.endswith('._prec_rounding') or '_parse_prec(' in st):
                    w = w.set(names[0], INT([P])) if names[0] else w
                    if names[1]:
                        w = w.set(names[1], ('rnd', 'ctx'))
                    return w
                if n == 3 and st.endswith('._ctxdata') and isinstance(target.elts[2], ast.Tuple):
                    inner = target.elts[2].elts
                    for t in target.elts[:2]:
                        if isinstance(t, ast.Name):
                            w = w.set(t.id, UNKNOWN)
                    if isinstance(inner[0], ast.Name):
                        w = w.set(inner[0].id, INT([P]))
                    if isinstance(inner[1], ast.Name):
                        w = w.set(inner[1].id, ('rnd', 'ctx'))
                    return w
            v = self.ev(src, w)
            if n == 4 and isinstance(src, ast.Name) and v == UNKNOWN and \
                    len([t for t in names if t]) == 4:
                # unpacking (sign, man, exp, bc): the source is a raw mpf value
                v = MPF([('T', 'value of %s' % src.id)])
                w = w.set(src.id, v)
            if n == 4 and isinstance(src, ast.Name) and v[0] == 'mpf':
                # sign, man, exp, bc = s
                for i, nm in enumerate(names):
                    if nm is None:
                        continue
                    w = w.set(nm, ('man', src.id) if i == 1 else ('fld', src.id, i))
                if self.zero_man(w, src.id) and names[1]:
                    w = w.fact(('f', names[1])) or w
                return w
            if n == 4 and isinstance(src, ast.Assign):
                pass
            if n == 2 and v[0] == 'mpf' and any(isinstance(t, ast.Tuple) for t in target.elts):
                for i, t in enumerate(target.elts):
                    out = set()
                    for c in v[1]:
                        if c[0] == 'P':
                            out |= c[1 + i]
                        elif c[0] == 'A':
                            out.add(('A', c[1], c[2] + (i,)) + tuple(c[3:]))
                        else:
                            out.add(c if c[0] == 'T' else ('T', 'unpack of non-pair'))
                    sub = MPF(out)
                    if isinstance(t, ast.Name):
                        w = w.set(t.id, sub)
                    elif isinstance(t, ast.Tuple) and len(t.elts) == 2:
                        for j, t2 in enumerate(t.elts):
                            if not isinstance(t2, ast.Name):
                                continue
                            o2 = set()
                            for c in out:
                                if c[0] == 'P':
                                    o2 |= c[1 + j]
                                elif c[0] == 'A':
                                    o2.add(('A', c[1], c[2] + (j,)) + tuple(c[3:]))
                                else:
                                    o2.add(c if c[0] == 'T' else ('T', 'unpack of non-pair'))
                            w = w.set(t2.id, MPF(o2))
                return w
            if n == 2 and v[0] == 'mpf':
                for i, nm in enumerate(names):
                    if nm is None:
                        continue
                    out = set()
                    for c in v[1]:
                        if c[0] == 'P':
                            out |= c[1 + i]
                        elif c[0] == 'A':
                            out.add(('A', c[1], c[2] + (i,)) + tuple(c[3:]))
                        elif c[0] == 'T':
                            out.add(c)
                        else:
                            out.add(('T', 'unpack of non-pair'))
                    w = w.set(nm, MPF(out))
                return w
            if isinstance(src, ast.Tuple) and len(src.elts) == n:
                vals = [self.ev(x, w) for x in src.elts]
                for nm, x in zip(names, vals):
                    if nm:
                        w = w.set(nm, x)
                return w
            for t in target.elts:
                for x in ast.walk(t):
                    if isinstance(x, ast.Name):
                        w = w.set(x.id, UNKNOWN)
            return w
        if self.mode == 'context' and isinstance(target, ast.Attribute) and \
                target.attr in ('_mpf_', '_mpc_'):
            v = self.ev(value, w)
            self.sites.append((target, value, self.as_classes(v, 'stored expression'), w))
            return w
        return w

    def scan_sites(self, e, w):
        pass

    def ret(self, node, state):
        if node.value is None:
            return state, None
        for w in state:
            v = self.ev(node.value, w)
            if self.mode == 'context':
                self.scan_make(node.value, w)
            self.returns.append((node, self.as_classes(v, 'returned expression %s' % norm(node.value, 40))
                                 if v[0] == 'mpf' or self.mode == 'kernel' else frozenset(), w))
        return state, None

    def scan_make(self, e, w):
        todo = [e]
        while todo:
            x = todo.pop()
            if isinstance(x, (ast.Lambda, ast.FunctionDef)):
                continue
            todo.extend(ast.iter_child_nodes(x))
            if isinstance(x, ast.Call) and isinstance(x.func, ast.Attribute) and \
                    x.func.attr in ('make_mpf', 'make_mpc') and len(x.args) == 1:
                v = self.ev(x.args[0], w)
                self.sites.append((x, x.args[0], self.as_classes(v, 'argument of %s' % x.func.attr), w))

    def for_target(self, node, state):
        out = set()
        for w in state:
            for x in ast.walk(node.target):
                if isinstance(x, ast.Name):
                    w = w.set(x.id, UNKNOWN)
            out.add(w)
        return frozenset(out)

    def handler_entry(self, handler, state):
        return state

    def trust_catch_all(self, st):
        return False

    def st_Try(self, st, state):
        # no exceptional flow is modelled here: handlers start from the join of
        # the state before the try and after its body
        body = self.block(st.body, state)
        out = Outcome(brk=body.brk, cont=body.cont, ret=body.ret)
        normal = body.normal
        if st.orelse and normal is not None:
            oe = self.block(st.orelse, normal)
            normal = oe.normal
            out.brk = self.j(out.brk, oe.brk)
            out.cont = self.j(out.cont, oe.cont)
            out.ret = self.j(out.ret, oe.ret)
        hstate = self.j(state, body.normal)
        for h in st.handlers:
            oh = self.block(h.body, hstate)
            normal = self.j(normal, oh.normal)
            out.brk = self.j(out.brk, oh.brk)
            out.cont = self.j(out.cont, oh.cont)
            out.ret = self.j(out.ret, oh.ret)
        out.normal = normal
        if st.finalbody:
            res = Outcome()
            for kind, s in out.kinds():
                if s is None:
                    continue
                of = self.block(st.finalbody, s)
                setattr(res, kind, self.j(getattr(res, kind), of.normal))
                res.ret = self.j(res.ret, of.ret)
            return res
        return out

    def with_enter(self, node, state):
        return state, None, None

    def raise_(self, node, state):
        return None


class RoundEngine(object):
    def __init__(self, ix):
        self.ix = ix
        self.by_name = {}
        for rel in KERNEL_MODULES:
            m = ix.modules.get(rel)
            if m is None:
                raise AnalysisError('kernel module vanished: %s' % rel)
            for f in m.funcs.values():
                if f.parent is None and f.cls is None:
                    self.by_name.setdefault(f.name, []).append(f)
        # aliases: mpf_mul = python_mpf_mul  (all in-repo alternatives)
        self.alias = {}
        for rel in KERNEL_MODULES:
            m = ix.modules[rel]
            for name, value, st, guards in m.toplevel_assigns:
                if isinstance(value, ast.Name) and value.id in self.by_name:
                    self.alias.setdefault(name, set()).add(value.id)
        # higher-order definitions: mpf_pi = def_mpf_constant(pi_fixed)  ->  the
        # nested function that def_mpf_constant returns
        for rel in KERNEL_MODULES:
            m = ix.modules[rel]
            for name, value, st, guards in m.toplevel_assigns:
                if isinstance(value, ast.Call) and isinstance(value.func, ast.Name) and \
                        value.func.id in self.by_name and name not in self.by_name:
                    for maker in self.by_name[value.func.id]:
                        for x in _walk_own(maker.node):
                            if isinstance(x, ast.Return) and isinstance(x.value, ast.Name):
                                for nf in maker.nested:
                                    if nf.name == x.value.id:
                                        self.by_name.setdefault(name, []).append(nf)
        self._summaries = {}
        self._inprogress = set()
        self.analysed = 0

    def resolve(self, name):
        out = []
        seen = set()
        todo = [name]
        while todo:
            n = todo.pop()
            if n in seen:
                continue
            seen.add(n)
            if n in self.alias:
                todo.extend(self.alias[n])
                continue
            out.extend(self.by_name.get(n, []))
        return out

    def module_dict(self, name):
        """module-level dict display bound to `name` in a kernel module"""
        cache = self.__dict__.setdefault('_mdicts', {})
        if name not in cache:
            cache[name] = None
            for rel in KERNEL_MODULES:
                for n, value, st, guards in self.ix.modules[rel].toplevel_assigns:
                    if n == name and isinstance(value, ast.Dict):
                        cache[name] = value
        return cache[name]

    def looks_mpf(self, name):
        return name.startswith(('mpf_', 'mpc_', 'from_', 'mpi_', 'mpci_'))

    def summary(self, f, pname, consts=frozenset()):
        key = (f, pname, consts)
        if key in self._summaries:
            return self._summaries[key]
        if key in self._inprogress:
            self._hit_bottom = getattr(self, '_hit_bottom', set())
            self._hit_bottom.add(key)
            return frozenset()          # bottom: recursion
        self._inprogress.add(key)
        self._hit_bottom = getattr(self, '_hit_bottom', set())
        try:
            classes = self.analyse(f, pname, consts)
            self._summaries[key] = classes
            # one more round only if the function is (mutually) recursive, i.e.
            # its own bottom summary was consulted during the analysis
            if key in self._hit_bottom:
                self._hit_bottom.discard(key)
                classes2 = self.analyse(f, pname, consts)
                if classes2 != classes:
                    self._summaries[key] = classes2
        finally:
            self._inprogress.discard(key)
        return self._summaries[key]

    def initial_world(self, f, pname, consts=frozenset()):
        env = {}
        facts = set()
        cd = dict(consts)
        defaults = f.defaults()
        for p in f.all_params():
            if p == pname:
                env[p] = INT([Aff(0)]) if cd.get('__exact__') else INT([P])
            elif p in ('rnd', 'rounding'):
                env[p] = ('rnd', 'param')
                if cd.get(p) is True:
                    facts.add(('t', p))
            elif p in cd:
                v = cd[p]
                if isinstance(v, bool) or v is None:
                    env[p] = UNKNOWN
                    facts.add(('t' if v else 'f', p))
                elif isinstance(v, int):
                    env[p] = INT([Aff(v)])
                    facts.add(('t' if v else 'f', p))
                else:
                    env[p] = UNKNOWN
            else:
                env[p] = MPF([('A', p, ())])
        # free precision variable of an enclosing kernel (closures such as
        # mpi_cos_sin.finalize)
        g = f.parent
        while g is not None:
            for cand in PREC_NAMES:
                if cand in g.params and cand not in env:
                    env[cand] = INT([P])
            g = g.parent
        # integer-looking parameters are harmless as ('A', ...) because they are
        # only classified when returned
        return World(env, frozenset(facts))

    def analyse(self, f, pname, consts=frozenset()):
        self.analysed += 1
        ka = KernelAnalysis(self, f)
        w0 = self.initial_world(f, pname, consts)
        out = ka.run(f.body(), frozenset([w0]))
        classes = set()
        for node, cls, w in ka.returns:
            classes |= cls
        ka_classes = _norm_classes(classes)
        self.last = ka
        return frozenset(ka_classes)

    def analyse_detail(self, f, pname, consts=frozenset()):
        key = (f, pname, consts)
        cache = self.__dict__.setdefault('_detail', {})
        if key not in cache:
            ka = KernelAnalysis(self, f)
            ka.record_calls = True
            w0 = self.initial_world(f, pname, consts)
            ka.run(f.body(), frozenset([w0]))
            cache[key] = ka
        return cache[key]

    def analyse_context(self, f):
        """context-layer method: operands are unbounded, (prec, rounding) come
        from the context"""
        ka = KernelAnalysis(self, f, mode='context')
        ka.record_calls = True
        env = {}
        for p in f.all_params():
            if p in ('prec',):
                env[p] = INT([P])
            else:
                env[p] = UNKNOWN
        ka.run(f.body(), frozenset([World(env, frozenset())]))
        return ka
