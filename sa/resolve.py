"""Repo-specific resolution: context method table, registries, name lookup."""
import ast

from .index import AnalysisError, norm

CONTEXT_CLASSES = {
    'mp': ('mpmath/ctx_mp.py', 'MPContext'),
    'iv': ('mpmath/ctx_iv.py', 'MPIntervalContext'),
    'fp': ('mpmath/ctx_fp.py', 'FPContext'),
}


class MethodEntry(object):
    __slots__ = ('name', 'func', 'wrap', 'how', 'owner')

    def __init__(self, name, func, wrap, how, owner):
        self.name = name
        self.func = func
        self.wrap = wrap      # True: installed through _wrap_specfun(wrap=True)
        self.how = how        # 'method' | 'defun' | 'defun_wrapped' | 'defun_static' | 'calculus.defun' | 'setattr'
        self.owner = owner    # class the callable is installed on


class Resolver(object):
    def __init__(self, index):
        self.ix = index
        self.classes = {}             # class name -> ClassInfo (names are unique in the repo)
        for m in index.modules.values():
            for ci in m.classes.values():
                self.classes.setdefault(ci.name, ci)
        self.registry = {}            # method name -> [MethodEntry]
        self.context_class_names = set()
        self._build_hierarchy()
        self._build_registry()

    # ------------------------------------------------------------------
    def mro(self, clsname, seen=None):
        """Linearised list of class names (depth-first, good enough here)."""
        seen = seen if seen is not None else []
        if clsname in seen:
            return seen
        ci = self.classes.get(clsname)
        if ci is None:
            return seen
        seen.append(clsname)
        for b in ci.bases:
            b = b.split('.')[-1]
            if b == 'BaseMPContext':
                b = 'PythonMPContext'
            self.mro(b, seen)
        return seen

    def _build_hierarchy(self):
        for key, (rel, cname) in CONTEXT_CLASSES.items():
            if cname not in self.classes:
                raise AnalysisError('context class vanished: %s' % cname)
            for c in self.mro(cname):
                self.context_class_names.add(c)

    def _add(self, name, func, wrap, how, owner):
        self.registry.setdefault(name, []).append(MethodEntry(name, func, wrap, how, owner))

    def _build_registry(self):
        ix = self.ix
        # 1. ordinary methods of classes in the context hierarchy
        for cname in sorted(self.context_class_names):
            ci = self.classes[cname]
            for mname, f in ci.methods.items():
                self._add(mname, f, False, 'method', cname)
        # 2. decorator registries
        for m in ix.modules.values():
            for f in m.funcs.values():
                if f.parent is not None or f.cls is not None:
                    continue
                for d in f.decorators:
                    if d == 'defun_wrapped':
                        self._add(f.name, f, True, 'defun_wrapped', 'SpecialFunctions')
                    elif d == 'defun_static':
                        self._add(f.name, f, False, 'defun_static', 'SpecialFunctions')
                    elif d == 'defun':
                        imp = m.imports.get('defun')
                        if imp is not None and imp[0].endswith('calculus'):
                            self._add(f.name, f, False, 'calculus.defun', 'CalculusMethods')
                        else:
                            self._add(f.name, f, False, 'defun', 'SpecialFunctions')
            # 3. Cls.name = func at module level
            for st in m.tree.body:
                if isinstance(st, ast.Assign) and len(st.targets) == 1:
                    t = st.targets[0]
                    if isinstance(t, ast.Attribute) and isinstance(t.value, ast.Name) \
                            and t.value.id in self.context_class_names \
                            and isinstance(st.value, ast.Name):
                        f = m.funcs.get(st.value.id)
                        if f is not None:
                            self._add(t.attr, f, False, 'setattr', t.value.id)
        self.wrapped_names = set(n for n, es in self.registry.items()
                                 if any(e.wrap for e in es))

    # ------------------------------------------------------------------
    def entries(self, name):
        return self.registry.get(name, [])

    def lookup_name(self, func, name):
        """Resolve a bare-name callee seen inside `func` to Func objects.
        Returns (kind, [Func]); kind in 'local-def', 'module', 'import',
        'param', 'unknown'."""
        # parameters / nested defs in enclosing functions
        f = func
        while f is not None:
            for nf in f.nested:
                if nf.name == name:
                    return 'local-def', [nf]
            if name in f.all_params():
                return 'param', []
            f = f.parent
        m = func.module
        cands = [g for qn, g in m.funcs.items()
                 if g.name == name and g.parent is None and g.cls is None]
        if cands:
            return 'module', cands
        imp = m.imports.get(name)
        if imp is not None:
            modname, orig, level = imp
            orig = orig or name
            out = []
            for g in self.ix.by_name.get(orig, []):
                if g.parent is None and g.cls is None:
                    out.append(g)
            if out:
                return 'import', out
        return 'unknown', []

    def is_local_var(self, func, name):
        """name is assigned somewhere in func (or is a param)"""
        if name in func.all_params():
            return True
        stored = getattr(func, '_stored_names', None)
        if stored is None:
            stored = set(x.id for x in ast.walk(func.node)
                         if isinstance(x, ast.Name) and isinstance(x.ctx, ast.Store))
            func._stored_names = stored
        return name in stored


_RES = {}


def get_resolver(index):
    if id(index) not in _RES:
        _RES[id(index)] = Resolver(index)
    return _RES[id(index)]
