"""Abstract interpretation of the classification helpers over the finite partition of numbers
into representation classes (Engine N, property C39).

A canonical raw mpf (C01) is exactly one of
    Z      zero                    (0, 0, 0, 0)
    PINF   +inf                    (0, 0, -456, -2)
    NINF   -inf                    (1, 0, -789, -3)
    NAN    nan                     (0, 0, -123, -1)
    N(s,e) a normal number with sign s in {0,1}, an ODD mantissa >= 1 and exponent class
           e in {NEG, ZERO, POS}; the value is an integer iff e is not NEG (odd mantissa: no
           factor 2 to cancel a negative exponent)
The helpers isnan / isinf / isnormal / isint / isnpint / isfinite, mag, frexp and ldexp look at a
number only through: the identity of the special encodings (== / in against the named constants),
the truth value of the mantissa, the sign bit, the sign of the exponent, and affine arithmetic on
exponent and bit count.  On such programs the class of the input determines the result, so
interpreting the helper's syntax tree once per class decides it for EVERY number.  Anything else
(an operation whose result is not determined by the class) raises Unsupported and fails the run as
an analysis error -- it is never assumed to be right.

Values of the interpreter:
    Int(v)            a concrete Python int / bool / None
    Sym(coef, c)      an affine form over the symbols exp, bc, man, n with integer constant
                      (comparisons with 0 are decided from the class of a bare symbol only)
    Raw(kind, s, e)   a raw mpf of the given class;  Pair(a, b)  a pair of raws
    MpfObj / MpcObj   number objects;  PyInt(cls)  a Python int of class NEG / ZERO / POS
    Mpq(pcls, q1)     a reduced rational p/q with the class of p and whether q == 1
    Ext('inf'|'ninf'|'nan')   ctx.inf / ctx.ninf / ctx.nan
"""
import ast

from .index import AnalysisError, norm


class Unsupported(Exception):
    pass


class NeedsConvert(Exception):
    """the helper hands an int / a rational to ctx.convert: the result is an mpf whose class is not
    determined by the class of the input (the caller forks over the possible classes)"""

    def __init__(self, obj):
        Exception.__init__(self, 'ctx.convert')
        self.obj = obj


class Raised(Exception):
    def __init__(self, what):
        Exception.__init__(self, what)
        self.what = what


class Int(object):
    def __init__(self, v):
        self.v = v

    def __repr__(self):
        return 'Int(%r)' % (self.v,)


class Sym(object):
    """affine form: sum coef[name]*name + c"""

    def __init__(self, coef, c=0):
        self.coef = dict((k, v) for k, v in coef.items() if v)
        self.c = c

    def key(self):
        return (tuple(sorted(self.coef.items())), self.c)

    def __repr__(self):
        return 'Sym(%s%+d)' % ('+'.join('%d*%s' % (v, k) for k, v in sorted(self.coef.items())), self.c)


class Ext(object):
    def __init__(self, which):
        self.which = which

    def __repr__(self):
        return 'Ext(%s)' % self.which


class MaxSym(object):
    def __init__(self, items, c=0):
        self.items = items
        self.c = c


SPECIALS = {'Z': (0, 0, 0, 0), 'PINF': (0, 0, -456, -2), 'NINF': (1, 0, -789, -3), 'NAN': (0, 0, -123, -1)}
CONST_KIND = {'fzero': 'Z', 'finf': 'PINF', 'fninf': 'NINF', 'fnan': 'NAN'}


class Raw(object):
    def __init__(self, kind, sign=0, expc=None, tag='', const=None):
        self.kind = kind
        self.sign = sign
        self.expc = expc
        self.tag = tag          # distinguishes the symbols of two raws (real / imaginary part)
        self.const = const      # name of the module constant this value is (fone, fnone, ...)

    def fields(self):
        if self.kind == 'FIN':
            raise Arith('fields of a finite value of unknown sign')
        if self.kind != 'N':
            return [Int(v) for v in SPECIALS[self.kind]]
        t = self.tag
        return [Int(self.sign), Sym({'man' + t: 1}), Sym({'exp' + t: 1}), Sym({'bc' + t: 1})]

    def label(self):
        if self.kind == 'FIN':
            return 'FIN'
        if self.kind != 'N':
            return self.kind
        return 'N(%s,%s)' % ('-' if self.sign else '+', self.expc)

    def __repr__(self):
        return 'Raw(%s)' % self.label()


class Pair(object):
    def __init__(self, a, b):
        self.a, self.b = a, b


class MpfObj(object):
    def __init__(self, raw):
        self.raw = raw


class MpcObj(object):
    def __init__(self, re, im):
        self.re, self.im = re, im


class PyInt(object):
    def __init__(self, cls):
        self.cls = cls      # NEG ZERO POS


class Mpq(object):
    def __init__(self, pcls, q1):
        self.pcls, self.q1 = pcls, q1


class Tuple(object):
    def __init__(self, items):
        self.items = items


def all_raws(tag=''):
    out = [Raw('Z', tag=tag), Raw('PINF', tag=tag), Raw('NINF', 1, tag=tag), Raw('NAN', tag=tag)]
    for s in (0, 1):
        for e in ('NEG', 'ZERO', 'POS'):
            out.append(Raw('N', s, e, tag=tag))
    return out


class ClassInterp(object):
    """interprets one helper on one abstract input"""

    def __init__(self, lookup, symclass):
        self.lookup = lookup          # name -> ast.FunctionDef of the effective context method / kernel
        self.symclass = symclass      # symbol -> 'POS' | 'GE0' | 'LT0' | 'ANY'
        self.depth = 0

    # ---- truth ------------------------------------------------------------------------------
    def truth(self, v):
        if isinstance(v, Int):
            return bool(v.v)
        if isinstance(v, bool):
            return v
        if isinstance(v, Sym):
            s = self.sign_of(v)
            if s in ('POS', 'NEG'):
                return True
            if s == 'ZERO':
                return False
            raise Unsupported('truth value of %r is not determined by the class' % v)
        if isinstance(v, MpfObj):
            return v.raw.kind != 'Z'
        if isinstance(v, MpcObj):
            return not (v.re.kind == 'Z' and v.im.kind == 'Z')
        if isinstance(v, PyInt):
            return v.cls != 'ZERO'
        if isinstance(v, Mpq):
            return v.pcls != 'ZERO'
        if isinstance(v, Ext):
            return True
        raise Unsupported('truth value of %r' % (v,))

    def sign_of(self, v):
        """'POS' 'NEG' 'ZERO' 'GE0' 'LT0' or None, for Int and single-symbol Sym"""
        if isinstance(v, Int):
            if v.v is None or isinstance(v.v, str):
                return None
            return 'POS' if v.v > 0 else 'NEG' if v.v < 0 else 'ZERO'
        if isinstance(v, Sym):
            if not v.coef:
                return 'POS' if v.c > 0 else 'NEG' if v.c < 0 else 'ZERO'
            if len(v.coef) == 1 and v.c == 0:
                (name, k), = v.coef.items()
                cls = self.symclass.get(name)
                if cls is None and (name.startswith('man') or name.startswith('bc')):
                    cls = 'POS'         # mantissa and bit count of a normal number
                if k > 0:
                    return {'POS': 'POS', 'ZERO': 'ZERO', 'NEG': 'NEG'}.get(cls)
        if isinstance(v, PyInt):
            return {'NEG': 'NEG', 'ZERO': 'ZERO', 'POS': 'POS'}[v.cls]
        return None

    def compare(self, op, a, b):
        # raw equality against a named special
        if isinstance(a, Raw) and isinstance(b, Raw):
            if not isinstance(op, (ast.Eq, ast.NotEq)):
                raise Unsupported('ordering of raw tuples')
            if 'FIN' in (a.kind, b.kind):
                other = b if a.kind == 'FIN' else a
                if other.kind in ('PINF', 'NINF', 'NAN'):
                    return Int(isinstance(op, ast.NotEq))
                if hasattr(self, 'choose'):
                    c = self.choose('finite value == %s' % other.label())
                    return Int(c if isinstance(op, ast.Eq) else not c)
                raise Unsupported('equality with a finite value of unknown sign')
            if a.kind == 'N' and b.kind == 'N':
                if a.const and b.const:
                    eq = a.const == b.const
                    return Int(eq if isinstance(op, ast.Eq) else not eq)
                if a.sign != b.sign:
                    return Int(isinstance(op, ast.NotEq))
                if hasattr(self, 'choose'):
                    c = self.choose('%s == %s' % (a.label(), b.label()))
                    return Int(c if isinstance(op, ast.Eq) else not c)
                raise Unsupported('equality of two normal numbers is not determined by their classes')
            eq = a.kind == b.kind
            return Int(eq if isinstance(op, ast.Eq) else not eq)
        if isinstance(a, Pair) and isinstance(b, Pair):
            if isinstance(op, (ast.Eq, ast.NotEq)):
                e1 = self.compare(ast.Eq(), a.a, b.a).v and self.compare(ast.Eq(), a.b, b.b).v
                return Int(e1 if isinstance(op, ast.Eq) else not e1)
        # comparison of an integer-like value with a constant
        if isinstance(b, Int) and isinstance(b.v, int):
            s = self.sign_of(a)
            if b.v == 0 and s is not None:
                table = {
                    ast.GtE: {'POS': True, 'ZERO': True, 'GE0': True, 'NEG': False},
                    ast.Gt: {'POS': True, 'ZERO': False, 'NEG': False},
                    ast.LtE: {'POS': False, 'ZERO': True, 'NEG': True},
                    ast.Lt: {'POS': False, 'ZERO': False, 'GE0': False, 'NEG': True},
                    ast.Eq: {'POS': False, 'ZERO': True, 'NEG': False},
                    ast.NotEq: {'POS': True, 'ZERO': False, 'NEG': True},
                }.get(type(op), {})
                if s in table:
                    return Int(table[s])
                raise Unsupported('comparison %s 0 of a %s value' % (type(op).__name__, s))
            if isinstance(a, Int) and isinstance(a.v, int):
                return Int(self._cmp(op, a.v, b.v))
            if isinstance(a, Sym) and a.key() == (tuple(sorted({'q': 1}.items())), 0):
                # q of a reduced rational: q == 1 is part of the class
                cls = self.symclass.get('q')
                if b.v == 1 and isinstance(op, (ast.Eq, ast.NotEq)) and cls in ('ONE', 'GT1'):
                    return Int((cls == 'ONE') == isinstance(op, ast.Eq))
        if isinstance(a, Int) and isinstance(b, Int):
            return Int(self._cmp(op, a.v, b.v))
        raise Unsupported('comparison of %r and %r' % (a, b))

    @staticmethod
    def _cmp(op, x, y):
        return {ast.Eq: lambda: x == y, ast.NotEq: lambda: x != y, ast.Lt: lambda: x < y,
                ast.LtE: lambda: x <= y, ast.Gt: lambda: x > y, ast.GtE: lambda: x >= y}[type(op)]()

    # ---- expressions ------------------------------------------------------------------------
    def ev(self, e, env):
        if isinstance(e, ast.Constant):
            return Int(e.value)
        if isinstance(e, ast.Name):
            if e.id in env:
                return env[e.id]
            if e.id in CONST_KIND:
                return Raw(CONST_KIND[e.id])
            if e.id in ('int_types',):
                return 'int_types'
            if e.id in ('True', 'False', 'None'):
                return Int({'True': True, 'False': False, 'None': None}[e.id])
            raise Unsupported('name %s' % e.id)
        if isinstance(e, ast.Attribute):
            txt = norm(e)
            if txt in ('ctx.ninf', 'ctx.inf', 'ctx.nan'):
                return Ext(txt.split('.')[1])
            if txt in ('rational.mpq', 'ctx.mpq'):
                return 'mpq_type'
            base = self.ev(e.value, env)
            if e.attr == '_mpf_' and isinstance(base, MpfObj):
                return base.raw
            if e.attr == '_mpc_' and isinstance(base, MpcObj):
                return Pair(base.re, base.im)
            if e.attr == '_mpq_' and isinstance(base, Mpq):
                return Tuple([PyInt(base.pcls), Sym({'q': 1})])
            if e.attr in ('denominator', 'numerator') and isinstance(base, Mpq):
                raise Raised('AttributeError (mpq has no attribute %s)' % e.attr)
            if e.attr == 'denominator' and isinstance(base, PyInt):
                return Int(1)
            if e.attr == 'numerator' and isinstance(base, PyInt):
                return base
            if e.attr in ('real', 'imag'):
                if isinstance(base, MpcObj):
                    return MpfObj(base.re if e.attr == 'real' else base.im)
                if isinstance(base, MpfObj):
                    return base if e.attr == 'real' else MpfObj(Raw('Z'))
            raise Unsupported('attribute %s of %r' % (e.attr, base))
        if isinstance(e, ast.Tuple):
            items = [self.ev(x, env) for x in e.elts]
            if len(items) == 2 and all(isinstance(x, Raw) for x in items):
                return Tuple(items)
            return Tuple(items)
        if isinstance(e, ast.Subscript) and isinstance(e.slice, ast.Constant):
            base = self.ev(e.value, env)
            if isinstance(base, Raw):
                return base.fields()[e.slice.value]
            if isinstance(base, Pair):
                return (base.a, base.b)[e.slice.value]
            if isinstance(base, Tuple):
                return base.items[e.slice.value]
            raise Unsupported('subscript of %r' % (base,))
        if isinstance(e, ast.UnaryOp):
            v = self.ev(e.operand, env)
            if isinstance(e.op, ast.Not):
                return Int(not self.truth(v))
            if isinstance(e.op, ast.USub):
                if isinstance(v, Int):
                    return Int(-v.v)
                if isinstance(v, Sym):
                    return Sym(dict((k, -c) for k, c in v.coef.items()), -v.c)
            raise Unsupported('unary %s' % norm(e))
        if isinstance(e, ast.BoolOp):
            last = None
            for x in e.values:
                last = self.ev(x, env)
                t = self.truth(last)
                if isinstance(e.op, ast.And) and not t:
                    return last
                if isinstance(e.op, ast.Or) and t:
                    return last
            return last
        if isinstance(e, ast.Compare) and len(e.ops) > 1:
            # a == b == c  is  (a == b) and (b == c)
            left = e.left
            for op, right in zip(e.ops, e.comparators):
                r = self.ev(ast.copy_location(ast.Compare(left=left, ops=[op], comparators=[right]), e), env)
                if not self.truth(r):
                    return r
                left = right
            return r
        if isinstance(e, ast.Compare) and len(e.ops) == 1:
            a = self.ev(e.left, env)
            op = e.ops[0]
            if isinstance(op, (ast.In, ast.NotIn)):
                b = self.ev(e.comparators[0], env)
                if b == 'int_types':
                    # type(x) in int_types
                    r = a == 'type:int'
                else:
                    items = b.items if isinstance(b, Tuple) else [b.a, b.b] if isinstance(b, Pair) else None
                    if items is None:
                        raise Unsupported('membership in %r' % (b,))
                    r = any(self.compare(ast.Eq(), a, it).v for it in items)
                return Int(r if isinstance(op, ast.In) else not r)
            b = self.ev(e.comparators[0], env)
            if isinstance(a, str) and a.startswith('type:') and b == 'mpq_type' and \
                    isinstance(op, (ast.Is, ast.IsNot, ast.Eq, ast.NotEq)):
                r = a == 'type:mpq'
                return Int(r if isinstance(op, (ast.Is, ast.Eq)) else not r)
            return self.compare(op, a, b)
        if isinstance(e, ast.IfExp):
            return self.ev(e.body if self.truth(self.ev(e.test, env)) else e.orelse, env)
        if isinstance(e, ast.BinOp):
            a, b = self.ev(e.left, env), self.ev(e.right, env)
            return self.binop(e.op, a, b)
        if isinstance(e, ast.Call):
            return self.call(e, env)
        raise Unsupported('expression %s' % norm(e))

    def tosym(self, v):
        if isinstance(v, Sym):
            return v
        if isinstance(v, Int) and isinstance(v.v, int):
            return Sym({}, int(v.v))
        return None

    def binop(self, op, a, b):
        if isinstance(op, ast.Mod) and isinstance(a, PyInt) and isinstance(b, Sym):
            # p % q for a reduced fraction p/q: zero iff q == 1 or p == 0
            cls = self.symclass.get('q')
            if cls == 'ONE' or a.cls == 'ZERO':
                return Int(0)
            if cls == 'GT1':
                return Sym({'r': 1})        # a non-zero residue (class POS)
        if isinstance(a, Ext) or isinstance(b, Ext):
            if isinstance(op, ast.Add):
                return a if isinstance(a, Ext) else b
        if isinstance(a, MaxSym) or isinstance(b, MaxSym):
            m, o = (a, b) if isinstance(a, MaxSym) else (b, a)
            if isinstance(op, ast.Add) and isinstance(o, Int):
                return MaxSym(m.items, m.c + o.v)
        sa, sb = self.tosym(a), self.tosym(b)
        if sa is not None and sb is not None:
            if isinstance(op, (ast.Add, ast.Sub)):
                k = 1 if isinstance(op, ast.Add) else -1
                coef = dict(sa.coef)
                for n, c in sb.coef.items():
                    coef[n] = coef.get(n, 0) + k * c
                r = Sym(coef, sa.c + k * sb.c)
                return r if r.coef else Int(r.c)
        raise Unsupported('arithmetic %s on %r, %r' % (type(op).__name__, a, b))

    def call(self, e, env):
        fn = norm(e.func)
        if fn == 'isinstance' and len(e.args) == 2 and norm(e.args[1]) == 'numbers.Rational':
            # Python ints and (registered in rational.py) mpq are Rationals; mpf / mpc objects are not
            return Int(isinstance(self.ev(e.args[0], env), (PyInt, Mpq)))
        args = [self.ev(a, env) for a in e.args]
        if fn == 'hasattr':
            what = e.args[1].value
            x = args[0]
            return Int({'_mpf_': isinstance(x, MpfObj), '_mpc_': isinstance(x, MpcObj),
                        '_mpi_': False, '_mpci_': False}.get(what, False))
        if fn == 'isinstance':
            x, t = args
            if t == 'int_types':
                return Int(isinstance(x, PyInt))
            if t == 'mpq_type':
                return Int(isinstance(x, Mpq))
            raise Unsupported('isinstance against %s' % norm(e.args[1]))
        if fn == 'type':
            return 'type:int' if isinstance(args[0], PyInt) else 'type:mpq' if isinstance(args[0], Mpq) else 'type:other'
        if fn == 'bool':
            return Int(self.truth(args[0]))
        if fn == 'max' and len(args) == 2:
            if any(isinstance(a, Ext) for a in args):
                kinds = [a.which for a in args if isinstance(a, Ext)]
                if 'nan' in kinds:
                    # Python's max(a, b) is `b if b > a else a`: every comparison with nan is False,
                    # so the FIRST argument is returned whichever of the two is nan
                    return args[0]
                if 'inf' in kinds:
                    return Ext('inf')
                # max(-inf, x) = x
                rest = [a for a in args if not isinstance(a, Ext)]
                return rest[0] if rest else Ext('ninf')
            return MaxSym(args)
        if fn == 'ctx.convert':
            if isinstance(args[0], (MpfObj, MpcObj)):
                return args[0]
            if isinstance(args[0], (PyInt, Mpq)):
                raise NeedsConvert(args[0])
            raise Unsupported('ctx.convert of %r' % (args[0],))
        if fn in ('ctx.make_mpf',):
            return MpfObj(args[0]) if isinstance(args[0], Raw) else Tuple(['made', args[0]])
        name = fn.split('.')[-1]
        f = self.lookup(name)
        if f is not None:
            return self.run(f, args)
        raise Unsupported('call %s' % fn)

    # ---- statements -------------------------------------------------------------------------
    class _Ret(Exception):
        def __init__(self, v):
            self.v = v

    def run(self, fnode, args, kwargs=None):
        self.depth += 1
        if self.depth > 12:
            self.depth = 0
            raise Raised('RecursionError (the interpreted code calls itself more than 12 levels deep on these classes)')
        params = [a.arg for a in fnode.args.args]
        if params and params[0] in ('ctx', 'self'):
            params = params[1:]
        env = dict(zip(params, args))
        if kwargs:
            env.update(kwargs)
        # defaults
        defaults = fnode.args.defaults
        for p, d in zip(params[len(params) - len(defaults):], defaults):
            if p not in env:
                env[p] = self.ev(d, {})
        try:
            self.block(fnode.body, env)
        except ClassInterp._Ret as r:
            self.depth -= 1
            return r.v
        self.depth -= 1
        return Int(None)

    def assign(self, t, v, env):
        if isinstance(t, ast.Name):
            env[t.id] = v
        elif isinstance(t, (ast.Tuple, ast.List)):
            if isinstance(v, Raw):
                items = v.fields()
            elif isinstance(v, Pair):
                items = [v.a, v.b]
            elif isinstance(v, Tuple):
                items = v.items
            else:
                raise Unsupported('unpacking of %r' % (v,))
            if len(items) != len(t.elts):
                raise Raised('ValueError (unpacking %d values into %d names)' % (len(items), len(t.elts)))
            for x, it in zip(t.elts, items):
                self.assign(x, it, env)
        else:
            raise Unsupported('assignment target %s' % norm(t))

    def block(self, body, env):
        for st in body:
            if isinstance(st, ast.Expr) and isinstance(st.value, ast.Constant):
                continue
            if isinstance(st, ast.Return):
                raise ClassInterp._Ret(self.ev(st.value, env) if st.value is not None else Int(None))
            if isinstance(st, ast.Assign):
                v = self.ev(st.value, env)
                for t in st.targets:
                    self.assign(t, v, env)
                continue
            if isinstance(st, ast.If):
                c = self.truth(self.ev(st.test, env))
                self.block(st.body if c else st.orelse, env)
                continue
            if isinstance(st, ast.Pass):
                continue
            if isinstance(st, ast.Raise):
                raise Raised(norm(st.exc, 40) if st.exc is not None else 're-raise')
            raise Unsupported('statement %s' % norm(st, 60))


# ---------------------------------------------------------------------------------------------
# Kernel-level interpretation (special-value tables, property C02/C06): the raw kernels mpf_add,
# mpf_mul, mpf_div, ... treat zeros, infinities and nan in explicit code in front of (or behind) the
# arithmetic on two normal numbers.  That code reads its operands only through class-determined
# tests, so it can be interpreted on every combination of operand classes in which at least one
# operand is not a normal number, and compared with the special-value table.
class Arith(Exception):
    """the interpretation reached arithmetic on normal numbers whose result the classes do not determine"""


class NeedChoice(Exception):
    pass


class KernelInterp(ClassInterp):
    NORMALISERS = ('normalize', 'normalize1')

    summarise_normals = False      # interval analyses: arithmetic on two normals is summarised by signs

    def __init__(self, lookup, symclass, choices=()):
        ClassInterp.__init__(self, lookup, symclass)
        self.choices = list(choices)
        self.pos = 0

    def choose(self, what):
        """an undetermined truth value: follow the prescribed choice, or ask the driver to fork"""
        if self.pos < len(self.choices):
            c = self.choices[self.pos]
            self.pos += 1
            return c
        raise NeedChoice(what)

    def compare(self, op, a, b):
        try:
            return ClassInterp.compare(self, op, a, b)
        except Unsupported:
            if isinstance(a, (Sym, Int)) and isinstance(b, (Sym, Int)):
                return Int(self.choose('%r %s %r' % (a, type(op).__name__, b)))
            raise

    def raw_from_fields(self, items):
        """(sign, man, exp, bc) -> Raw"""
        sign, man = items[0], items[1]
        if isinstance(man, Int):
            if man.v == 0:
                exp = items[2]
                if isinstance(exp, Int):
                    for k, v in SPECIALS.items():
                        if v[2] == exp.v and v[0] == (sign.v if isinstance(sign, Int) else None):
                            return Raw(k, v[0])
                return Raw('Z')
            if isinstance(sign, Int):
                return Raw('N', sign.v, 'ANY', tag='_r')
        if isinstance(man, Sym) and isinstance(sign, Int):
            s = self.sign_of(man)
            if s == 'POS':
                return Raw('N', sign.v, 'ANY', tag='_r')
        raise Arith('mantissa %r' % (man,))

    def coerce_raw(self, v):
        if isinstance(v, Raw):
            return v
        if isinstance(v, Tuple) and len(v.items) == 4:
            return self.raw_from_fields(v.items)
        return v

    def binop(self, op, a, b):
        if isinstance(a, Int) and isinstance(b, Int) and isinstance(a.v, int) and isinstance(b.v, int):
            f = {ast.BitXor: lambda: a.v ^ b.v, ast.Mult: lambda: a.v * b.v, ast.Pow: lambda: a.v ** b.v,
                 ast.Add: lambda: a.v + b.v, ast.Sub: lambda: a.v - b.v, ast.BitAnd: lambda: a.v & b.v,
                 ast.FloorDiv: lambda: a.v // b.v if b.v else None}.get(type(op))
            if f is not None:
                return Int(f())
        if isinstance(a, Int) and a.v == 0 and isinstance(op, (ast.LShift, ast.RShift)) and isinstance(b, (Sym, Int)):
            return Int(0)
        if isinstance(op, ast.Mod):
            if isinstance(b, Int) and b.v == 0:
                raise Raised('ZeroDivisionError')
            if isinstance(a, Int) and a.v == 0 and isinstance(b, Sym):
                return Int(0)
        if isinstance(op, (ast.LShift,)) and isinstance(a, Sym) and isinstance(b, (Sym, Int)):
            return a          # a non-zero value shifted left stays non-zero of the same sign
        if isinstance(op, ast.Mult):
            for x, y in ((a, b), (b, a)):
                if isinstance(x, Int) and x.v == 0 and isinstance(y, (Sym, Int)):
                    return Int(0)
                if isinstance(x, Int) and x.v in (1, -1) and isinstance(y, Sym):
                    return y if x.v == 1 else Sym(dict((k, -c) for k, c in y.coef.items()), -y.c)
            if isinstance(a, Sym) and isinstance(b, Sym) and self.sign_of(a) == 'POS' and self.sign_of(b) == 'POS':
                return Sym({'prod': 1})
        try:
            return ClassInterp.binop(self, op, a, b)
        except Unsupported:
            raise Arith('arithmetic %s' % type(op).__name__)

    def ev(self, e, env):
        if isinstance(e, ast.Dict):
            return ('dict', [(self.ev(k, env), self.ev(v, env)) for k, v in zip(e.keys, e.values)])
        if isinstance(e, ast.Subscript) and isinstance(e.value, ast.Name) and e.value.id in (
                'negative_rnd', 'reciprocal_rnd') and e.value.id not in env:
            return Int('rnd')
        if isinstance(e, ast.Subscript) and not isinstance(e.slice, ast.Constant):
            base = self.ev(e.value, env)
            if isinstance(base, Tuple):
                k = self.ev(e.slice, env)
                if isinstance(k, Int) and isinstance(k.v, (int, bool)):
                    return base.items[int(k.v)]
                raise Arith('computed index')
            if isinstance(base, tuple) and base and base[0] == 'dict':
                k = self.ev(e.slice, env)
                for kk, vv in base[1]:
                    if isinstance(kk, Int) and isinstance(k, Int) and kk.v == k.v:
                        return vv
                raise Raised('KeyError')
        if isinstance(e, ast.Name) and e.id.startswith('round_') and e.id not in env:
            return Int(e.id)
        if isinstance(e, ast.Name) and e.id in ('fone', 'fnone', 'ftwo', 'fhalf', 'ften') and e.id not in env:
            return Raw('N', 1 if e.id == 'fnone' else 0, 'ANY', tag='_c', const=e.id)
        if isinstance(e, (ast.List,)):
            return Tuple([self.ev(x, env) for x in e.elts])
        if isinstance(e, ast.Subscript) and isinstance(e.value, ast.Name) and e.value.id in (
                'negative_rnd', 'reciprocal_rnd') and e.value.id not in env:
            return Int('rnd')
        if isinstance(e, ast.Name) and e.id not in env and e.id not in CONST_KIND and (
                e.id.isupper() or e.id.startswith('MPZ_')):
            raise Arith('module constant %s' % e.id)
        return ClassInterp.ev(self, e, env)

    def truth(self, v):
        if isinstance(v, Raw):
            raise Unsupported('truth of a raw tuple')
        try:
            return ClassInterp.truth(self, v)
        except Unsupported:
            if isinstance(v, Sym):
                return self.choose('truth of %r' % v)
            raise

    def call(self, e, env):
        fn = norm(e.func)
        if fn in self.NORMALISERS:
            args = [self.ev(a, env) for a in e.args[:4]]
            return self.raw_from_fields(args)
        if fn == 'bitcount':
            v = self.ev(e.args[0], env)
            if isinstance(v, Int):
                return Int(int(v.v).bit_length())
            return Sym({'bc_new': 1})
        if fn in ('min', 'max') and len(e.args) == 2:
            args = [self.ev(a, env) for a in e.args]
            if all(isinstance(a, Int) for a in args):
                return Int((min if fn == 'min' else max)(a.v for a in args))
            return Sym({'minmax': 1})
        if fn in ('mpf_pi', 'mpf_e', 'mpf_ln2', 'mpf_ln10', 'mpf_phi', 'mpf_euler'):
            return Raw('N', 0, 'ANY', tag='_k')
        if fn == 'mpf_shift':
            v = self.coerce_raw(self.ev(e.args[0], env))
            if isinstance(v, Raw):
                return v if v.kind != 'N' else Raw('N', v.sign, 'ANY', tag='_sh')
        if fn == 'abs':
            v = self.ev(e.args[0], env)
            if isinstance(v, Int):
                return Int(abs(v.v))
            if isinstance(v, Sym) and len(v.coef) == 1 and v.c == 0:
                (nm, k), = v.coef.items()
                if self.sign_of(Sym({nm: abs(k)})) == 'POS':
                    return Sym({nm: abs(k)})
            raise Arith('abs')
        if fn == 'int':
            v = self.ev(e.args[0], env)
            if isinstance(v, Int):
                return Int(int(v.v))
            raise Arith('int()')
        if fn == 'pow':
            args = [self.ev(a, env) for a in e.args]
            if all(isinstance(a, Int) for a in args):
                return Int(pow(*[a.v for a in args]))
            if len(args) == 3 and isinstance(args[2], Int) and args[2].v == 0:
                raise Raised('ValueError')
            if len(args) == 3 and isinstance(args[2], Sym):
                return Sym({'powmod': 1})        # 0 <= value < modulus: sign class unknown
            raise Arith('pow()')
        if fn in ('mpf_pos', 'mpf_neg', 'mpf_abs') and self.summarise_normals and e.args:
            v = self.coerce_raw(self.ev(e.args[0], env))
            if isinstance(v, Raw) and v.kind == 'FIN':
                return Raw('FIN')
        if fn == 'mpf_min_max' and self.summarise_normals:
            seq = self.ev(e.args[0], env)
            items = [self.coerce_raw(x) for x in seq.items]
            if all(isinstance(x, Raw) for x in items):
                def lab(r):
                    return r.kind if r.kind != 'N' else ('N-' if r.sign else 'N+')
                labs = [lab(x) for x in items]
                if labs[0] == 'NAN':
                    return Tuple([Raw('NAN'), Raw('NAN')])      # every comparison with nan is False
                labs = [x for x in labs if x != 'NAN']
                order_min = ['NINF', 'N-', 'FIN', 'Z', 'N+', 'PINF']
                order_max = ['PINF', 'N+', 'FIN', 'Z', 'N-', 'NINF']

                def pick(order):
                    for k in order:
                        if k in labs:
                            return {'N-': Raw('N', 1, 'ANY', tag='_m'), 'N+': Raw('N', 0, 'ANY', tag='_m'),
                                    'FIN': Raw('FIN')}.get(k) or Raw(k, 1 if k == 'NINF' else 0)
                return Tuple([pick(order_min), pick(order_max)])
        if fn in ('mpf_add', 'mpf_sub', 'mpf_mul', 'mpf_div') and len(e.args) >= 2 and self.summarise_normals:
            a0 = self.coerce_raw(self.ev(e.args[0], env))
            a1 = self.coerce_raw(self.ev(e.args[1], env))
            if isinstance(a0, Raw) and isinstance(a1, Raw) and a0.kind in ('N', 'FIN') and a1.kind in ('N', 'FIN'):
                # arithmetic on two finite non-special numbers, at the level of signs
                if 'FIN' in (a0.kind, a1.kind):
                    return Raw('FIN')
                if fn in ('mpf_mul', 'mpf_div'):
                    return Raw('N', a0.sign ^ a1.sign, 'ANY', tag='_q')
                s1 = a1.sign ^ (1 if fn == 'mpf_sub' else 0)
                if a0.sign == s1:
                    return Raw('N', a0.sign, 'ANY', tag='_q')
                return Raw('FIN')           # cancellation: any finite value, zero included
        f = self.lookup(fn)
        if f is not None:
            args = [self.coerce_raw(self.ev(a, env)) for a in e.args]
            kw = dict((k.arg, self.ev(k.value, env)) for k in e.keywords if k.arg)
            r = self.run(f, args, kw)
            return self.coerce_raw(r)
        return ClassInterp.call(self, e, env)

    def assign(self, t, v, env):
        if isinstance(t, (ast.Tuple, ast.List)) and isinstance(v, Tuple) and len(v.items) == len(t.elts):
            for x, it in zip(t.elts, v.items):
                self.assign(x, it, env)
            return
        ClassInterp.assign(self, t, v, env)

    def block(self, body, env):
        for st in body:
            if isinstance(st, ast.AugAssign) and isinstance(st.target, ast.Name):
                cur = env.get(st.target.id)
                env[st.target.id] = self.binop(st.op, cur, self.ev(st.value, env))
                continue
            if isinstance(st, ast.Return) and st.value is not None:
                raise ClassInterp._Ret(self.coerce_raw(self.ev(st.value, env)))
            ClassInterp.block(self, [st], env)
