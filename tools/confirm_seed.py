#!/usr/bin/env python3
"""Confirm a seeded change produced by a sub-agent and file it under /verif/seeded/.

usage: confirm_seed.py <PROP> <seed-dir> <worktree> <name> [--needs "text"]

In <worktree> (a scratch git worktree of /repo, outside /repo and /verif):
  1. demo.py on the clean tree must print PASS / exit 0
  2. apply patch.diff; demo.py must exit non-zero
  3. the full pinned test suite must pass with the patch
  4. revert
Then run ./check <PROP> against a scratch copy with the patch (VERIF_REPO) and
record which rule (if any) reports it.
"""
import json
import re
import os
import shutil
import subprocess
import sys
import tempfile

VERIF = os.path.dirname(os.path.dirname(os.path.abspath(__file__)))


def sh(cmd, cwd=None, timeout=1800, env=None):
    p = subprocess.run(cmd, cwd=cwd, shell=True, capture_output=True, text=True,
                       timeout=timeout, env=env)
    return p.returncode, (p.stdout + p.stderr)


def main():
    prop, seed, wt, name = sys.argv[1:5]
    needs = ''
    if '--needs' in sys.argv:
        needs = sys.argv[sys.argv.index('--needs') + 1]
    patch = os.path.join(seed, 'patch.diff')
    demo = os.path.join(seed, 'demo.py')
    res = {'property': prop, 'name': name, 'ran': []}
    rc, out = sh('git checkout -q -- . && git status --short', cwd=wt)
    if out.strip():
        print('worktree not clean:', out)
        return 2
    rc, out = sh('PYTHONPATH=%s timeout 600 /venv/bin/python %s' % (wt, demo), cwd=wt)
    res['demo_clean_exit'] = rc
    res['ran'].append('clean tree: python demo.py -> exit %d: %s' % (rc, out.strip().splitlines()[-1:] ))
    rc, out = sh('git apply %s' % patch, cwd=wt)
    if rc != 0:
        print('patch does not apply:', out)
        return 2
    rc, out = sh('PYTHONPATH=%s timeout 600 /venv/bin/python %s' % (wt, demo), cwd=wt)
    res['demo_patched_exit'] = rc
    res['ran'].append('patched tree: python demo.py -> exit %d: %s' % (rc, out.strip().splitlines()[-1:]))
    rc, out = sh('timeout 1500 /venv/bin/python -m pytest -q -p no:cacheprovider --timeout=900 mpmath/tests 2>&1 | tail -3', cwd=wt)
    last = out.strip().splitlines()[-1] if out.strip() else ''
    res['suite_with_patch'] = last
    res['ran'].append('patched tree: pytest mpmath/tests -> %s' % last)
    # static check against a scratch copy
    tmp = tempfile.mkdtemp(prefix='verif-seed-')
    try:
        shutil.copytree(os.path.join(wt, 'mpmath'), os.path.join(tmp, 'mpmath'),
                        ignore=shutil.ignore_patterns('__pycache__'))
        env = dict(os.environ)
        env['VERIF_REPO'] = tmp
        rc2, out2 = sh('./check %s --no-write' % prop, cwd=VERIF, env=env)
        rules = sorted(set(l.strip().split(']')[0][1:] for l in out2.splitlines()
                           if l.strip().startswith('[')))
        res['check_exit'] = rc2
        res['caught_by'] = rules
        res['check_first_line'] = [l.strip()[:300] for l in out2.splitlines() if l.strip().startswith('[')][:2]
    finally:
        shutil.rmtree(tmp, ignore_errors=True)
    sh('git checkout -q -- .', cwd=wt)
    ok = res['demo_clean_exit'] == 0 and res['demo_patched_exit'] != 0 and \
        ' passed' in last and not re.search(r'[0-9]+ (failed|error)', last)
    res['confirmed'] = ok
    notes = ''
    if os.path.exists(os.path.join(seed, 'notes.md')):
        notes = open(os.path.join(seed, 'notes.md')).read()
    res['needs_to_manifest'] = needs or notes[:1500]
    if ok:
        dst = os.path.join(VERIF, 'seeded', name)
        os.makedirs(dst, exist_ok=True)
        shutil.copy(patch, os.path.join(dst, 'patch.diff'))
        shutil.copy(demo, os.path.join(dst, 'demo.py'))
        if notes:
            with open(os.path.join(dst, 'notes.md'), 'w') as fh:
                fh.write(notes)
        with open(os.path.join(dst, 'meta.json'), 'w') as fh:
            json.dump(res, fh, indent=1)
    print(json.dumps({k: res[k] for k in ('name', 'confirmed', 'demo_clean_exit', 'demo_patched_exit',
                                           'suite_with_patch', 'check_exit', 'caught_by')}))
    return 0 if ok else 1


if __name__ == '__main__':
    sys.exit(main())
