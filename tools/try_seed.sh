#!/bin/sh
# usage: tools/try_seed.sh <PROP> <patch.diff> [demo.py]
# applies the patch to /repo (working tree only), runs the check (no evidence written), reverts.
PROP="$1"; PATCH="$2"; DEMO="$3"
cd /repo || exit 2
if ! git diff --quiet || ! git diff --cached --quiet; then echo "/repo has local changes; refusing"; exit 2; fi
if ! git apply "$PATCH" 2>/dev/null; then
  echo "(git apply failed; trying patch -F3)"
  if ! patch -p1 -F3 -s --no-backup-if-mismatch < "$PATCH"; then
     echo "PATCH DOES NOT APPLY: $PATCH"; git checkout -- . ; find . -name '*.rej' -delete; find . -name '*.orig' -delete; exit 2
  fi
fi
cd /verif && ./check "$PROP" --no-write | cut -c1-400
if [ -n "$DEMO" ]; then (cd /repo && timeout 300 /venv/bin/python "$DEMO" 2>&1 | tail -2); fi
git -C /repo checkout -- .
find /repo -name '*.rej' -delete; find /repo -name '*.orig' -delete
git -C /repo status --short | head -3
