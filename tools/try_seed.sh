#!/bin/sh
# usage: tools/try_seed.sh <PROP> <patch.diff> [demo.py]
# applies the patch to /repo, runs the check (no evidence written), reverts.
PROP="$1"; PATCH="$2"; DEMO="$3"
cd /repo || exit 2
if ! git diff --quiet; then echo "/repo has local changes; refusing"; exit 2; fi
if ! git apply --check "$PATCH" 2>/dev/null; then echo "PATCH DOES NOT APPLY: $PATCH"; git apply --3way "$PATCH" 2>&1 | tail -2; fi
git apply "$PATCH" 2>/dev/null || { echo "apply failed"; git checkout -- . ; exit 2; }
cd /verif && ./check "$PROP" --no-write | cut -c1-400
RC=$?
if [ -n "$DEMO" ]; then (cd /repo && timeout 300 /venv/bin/python "$DEMO" 2>&1 | tail -2); fi
git -C /repo checkout -- .
git -C /repo status --short | head -3
