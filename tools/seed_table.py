#!/usr/bin/env python3
"""Regenerates the seeded-change table of DESIGN.md (between the markers
<!-- SEED-TABLE-BEGIN --> and <!-- SEED-TABLE-END -->) from seeded/*/meta.json.
Run tools/seed_matrix.py --update first so that the metadata is current."""
import json
import os
import re

HERE = os.path.dirname(os.path.dirname(os.path.abspath(__file__)))


def first_line(meta):
    t = meta.get('summary') or meta.get('needs_to_manifest') or ''
    for l in t.splitlines():
        l = l.strip().lstrip('#').strip()
        if l:
            l = re.sub(r'^(C[0-9]+\s*[/,-]?\s*)?((seed|change)\s*[0-9]+\s*[:-]?\s*)?', '', l, flags=re.I)
            return l.strip(' -:')[:110]
    return ''


def key(name):
    m = re.match(r'C([0-9]+)-([0-9]+)', name)
    return (int(m.group(1)), int(m.group(2)))


def main():
    rows = []
    caught = missed = 0
    late = [0]
    for d in sorted(os.listdir(os.path.join(HERE, 'seeded')), key=key):
        mp = os.path.join(HERE, 'seeded', d, 'meta.json')
        if not os.path.exists(mp):
            continue
        meta = json.load(open(mp))
        rules = meta.get('caught_by') or []
        ex = meta.get('check_exit')
        if meta.get('retired'):
            rows.append('| %s | %s | retired: the pinned tree was repaired so that this change is harmless '
                        '(was caught by %s); see meta.json |' % (d, first_line(meta).replace('|', '/'), ', '.join(rules) or '-'))
            continue
        if ex == 1:
            verdict = 'caught: ' + ', '.join(rules)
            if 'missed' in (meta.get('history') or '') or 'ANALYSIS-ERROR' in (meta.get('history') or ''):
                verdict += ' -- NOT on first confirmation; rule written or extended afterwards'
                late[0] += 1
            caught += 1
        else:
            verdict = '**not detected** (%s)' % (meta.get('why_missed') or 'value-level change, see section 10.3')
            missed += 1
        also = meta.get('also_caught_by_checks')
        if also:
            verdict += ' (also fires in %s)' % ', '.join(also)
        rows.append('| %s | %s | %s |' % (d, first_line(meta).replace('|', '/'), verdict))
    table = ['| seed | change | verdict of `./check %s` |' % '<property>', '|---|---|---|'] + rows
    table.append('')
    table.append('%d seeded changes filed, %d caught by the check of their own property (at least %d of them -- the history field was introduced late -- only after a rule was '
                 'written or extended in response to the miss), %d not detected.' % (caught + missed, caught, late[0], missed))
    p = os.path.join(HERE, 'DESIGN.md')
    s = open(p).read()
    b, e = '<!-- SEED-TABLE-BEGIN -->', '<!-- SEED-TABLE-END -->'
    if b in s and e in s:
        s = s[:s.index(b) + len(b)] + '\n' + '\n'.join(table) + '\n' + s[s.index(e):]
        open(p, 'w').write(s)
        print('DESIGN.md updated: %d caught, %d missed' % (caught, missed))
    else:
        print('\n'.join(table))


if __name__ == '__main__':
    main()
