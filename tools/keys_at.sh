#!/bin/sh
# usage: tools/keys_at.sh <PROP> <repo-commit-ish> <file>...   -- finding keys of PROP with the given files at that commit
cd "$(dirname "$0")/.."
prop=$1; c=$2; shift 2
git -C /repo diff --quiet -- "$@" || { echo "keys_at: uncommitted changes in $* -- commit them first (the files are restored to HEAD afterwards)" >&2; exit 2; }
git -C /repo checkout -q $c -- "$@"
VERIF_PRINT_KEYS=1 ./check $prop --no-write 2>&1 | grep '^  key=' | sed 's/^  key=//'
git -C /repo checkout -q HEAD -- "$@"
git -C /repo status --short
