#!/usr/bin/env python3
"""Run the checks against every seeded change under /verif/seeded/.

For each seed: scratch copy of <repo>/mpmath (tempfile, removed afterwards),
apply patch.diff there, run ./check <PROP> --no-write with VERIF_REPO pointing
at the copy.  Prints one line per seed: exit code and the rules that fired.
With --all, every claimed check is run against every seed (cross-detection).
With --update, records the result in the seed's meta.json (check_exit,
caught_by, check_first_line).

usage: tools/seed_matrix.py [--all] [--update] [SEED-PREFIX ...]
"""
import json
import os
import re
import shutil
import subprocess
import sys
import tempfile
from concurrent.futures import ThreadPoolExecutor

VERIF = os.path.dirname(os.path.dirname(os.path.abspath(__file__)))
REPO = os.environ.get('VERIF_REPO', '/repo')
PY = '/venv/bin/python' if os.path.exists('/venv/bin/python') else sys.executable


def claimed():
    with open(os.path.join(VERIF, 'MANIFEST.json')) as fh:
        m = json.load(fh)
    return [c['property_id'] for c in m['checks']]


def one(seed, props):
    sdir = os.path.join(VERIF, 'seeded', seed)
    tmp = tempfile.mkdtemp(prefix='verif-seed-')
    out = {}
    try:
        shutil.copytree(os.path.join(REPO, 'mpmath'), os.path.join(tmp, 'mpmath'),
                        ignore=shutil.ignore_patterns('__pycache__'))
        p = subprocess.run(['patch', '-p1', '-F3', '-s', '--no-backup-if-mismatch', '-i',
                            os.path.join(sdir, 'patch.diff')], cwd=tmp, capture_output=True, text=True)
        if p.returncode != 0:
            return seed, {'_patch': 'DOES NOT APPLY: ' + (p.stdout + p.stderr)[-200:]}
        for prop in props:
            env = dict(os.environ)
            env['VERIF_REPO'] = tmp
            q = subprocess.run([PY, '-B', '-m', 'sa.driver', prop, '--no-write'], cwd=VERIF, env=env,
                               capture_output=True, text=True, timeout=900)
            txt = q.stdout + q.stderr
            rules = sorted(set(re.findall(r'^\s*\[([A-Za-z0-9-]+)\]', txt, re.M)) -
                           set(re.findall(r'^KNOWN-FINDING: property=\S+ \[([A-Za-z0-9-]+)\]', txt, re.M)))
            viol = [l.strip() for l in txt.splitlines() if l.strip().startswith('[') ]
            first = viol[:2]
            if q.returncode == 2:
                first = [l for l in txt.splitlines() if 'ANALYSIS-ERROR' in l][:1]
            out[prop] = {'exit': q.returncode, 'rules': rules if q.returncode == 1 else [], 'first': first}
    finally:
        shutil.rmtree(tmp, ignore_errors=True)
    return seed, out


def main():
    args = sys.argv[1:]
    allp = '--all' in args
    update = '--update' in args
    prefixes = [a for a in args if not a.startswith('--')]
    seeds = sorted(d for d in os.listdir(os.path.join(VERIF, 'seeded'))
                   if os.path.exists(os.path.join(VERIF, 'seeded', d, 'patch.diff')))
    if prefixes:
        seeds = [s for s in seeds if any(s.startswith(p) for p in prefixes)]
    cl = claimed()

    def retired(s):
        try:
            with open(os.path.join(VERIF, 'seeded', s, 'meta.json')) as fh:
                return bool(json.load(fh).get('retired'))
        except (OSError, ValueError):
            return False
    for s in [s for s in seeds if retired(s)]:
        print('%-8s retired (see meta.json)' % s)
    seeds = [s for s in seeds if not retired(s)]

    def job(s):
        own = s.split('-')[0]
        has = os.path.exists(os.path.join(VERIF, 'sa', 'checks', own.lower() + '.py'))
        props = (cl + ([own] if own not in cl and has else [])) if allp else ([own] if has else [])
        return one(s, props)
    missed = []
    with ThreadPoolExecutor(max_workers=16) as ex:
        for seed, res in ex.map(job, seeds):
            own = seed.split('-')[0]
            if '_patch' in res:
                print('%-8s %s' % (seed, res['_patch']))
                continue
            if not res:
                print('%-8s (property not claimed)' % seed)
                continue
            o = res.get(own)
            others = [p for p, r in res.items() if p != own and r['exit'] == 1]
            line = '%-8s own exit=%s rules=%s' % (seed, o and o['exit'], o and ','.join(o['rules']))
            if others:
                line += '  also: ' + ','.join(others)
            if o and o['exit'] == 2:
                line += '  ' + ' '.join(o['first'])[:200]
            print(line)
            if not o or o['exit'] != 1:
                missed.append(seed)
            if update and o:
                mp = os.path.join(VERIF, 'seeded', seed, 'meta.json')
                with open(mp) as fh:
                    meta = json.load(fh)
                meta['check_exit'] = o['exit']
                meta['caught_by'] = o['rules']
                meta['check_first_line'] = [x[:300] for x in o['first']]
                if others:
                    meta['also_caught_by_checks'] = others
                with open(mp, 'w') as fh:
                    json.dump(meta, fh, indent=1)
                    fh.write('\n')
    print('missed or undecided: %s' % ' '.join(missed))


if __name__ == '__main__':
    main()
