import json,sys
pid=sys.argv[1]
for l in open('/verif/properties.jsonl'):
    d=json.loads(l)
    if d['id']==pid: break
wt='/tmp/wt/%s-r2'%pid
out='/tmp/seeds2/%s'%pid
print(f"""You are helping to evaluate a verification tool for the Python library mpmath (arbitrary-precision arithmetic). Your job: write TWO independent, realistic source changes ("seeded defects") to mpmath, each of which breaks the semantic property below while the package still imports and the existing test suite still passes.

PROPERTY {d['id']}: {d['title']}
Statement: {d['statement']}
Quantifier: {d['quantifier']['text']}
Why the test suite cannot settle it: {d['why_tests_cant']}
Code it is anchored in: {json.dumps(d['anchors'].get('files'))}; mechanisms: {json.dumps([m.get('name') for m in d['anchors'].get('mechanism',[])])}

YOUR WORKSPACE: a scratch git worktree of the repository at {wt} (create nothing elsewhere except under {out}). Work ONLY there. Do NOT read, list or use anything under /verif or /repo (you must not know what the tool can detect). Python interpreter: /venv/bin/python (run things with cwd={wt} so that `import mpmath` picks up the worktree: e.g. `cd {wt} && /venv/bin/python demo.py`). There is no network. Do not use `git stash` (the stash is shared between all worktrees of the repository).

REQUIREMENTS for each of the two changes (k = 1, 2):
1. It is a plausible edit a maintainer could make by mistake or as a "cleanup/optimisation" (a typo-sized slip, a reordered statement, a dropped guard, a tightened constant, a refactor that loses a case, two cooperating sites that each look fine alone, ...). NOT a blatant sabotage, and NOT something ordinary use would expose at once: it should need something specific to manifest (an unusual input, a particular precision or rounding mode, a multi-step sequence of operations, a particular history of earlier calls, an exception at a particular point, ...).
2. It must genuinely violate the property statement above (not merely degrade performance or style), observable through mpmath's public API.
3. The package must still import and the FULL existing test suite must still pass with the change applied: run `cd {wt} && /venv/bin/python -m pytest -q -p no:cacheprovider --timeout=900 mpmath/tests 2>&1 | tail -3` (takes 1-2 minutes) and confirm there are no failures. If a test fails, pick a different change.
4. Write a small demonstration program demo.py that exits 0 and prints PASS on the UNCHANGED tree and exits non-zero (prints FAIL) with the change applied. It must be deterministic and finish in under a minute. Verify both directions yourself.
5. The two changes should be different in kind and touch different functions (ideally different files); prefer places a reviewer would not immediately suspect. Keep each patch small (a few lines).

DELIVERABLES: for k in 1, 2 create the directory {out}/k/ containing
  - patch.diff  : output of `git -C {wt} diff` with ONLY change k applied (paths relative to the repo root, applies with `git apply` / `patch -p1`)
  - demo.py     : the demonstration
  - notes.md    : 5-10 lines: what was changed, why it breaks the property, exactly what is needed for it to manifest, and the tail line of the full test-suite run with the change
After producing each patch, restore the worktree with `git -C {wt} checkout -- .` so that the two patches are independent, and leave the worktree clean at the end. Finally reply with a short summary (one paragraph per change).""")
