#!/bin/sh
# Runs every claimed check (quick tier, no evidence written unless -w) and prints the non-OK ones.
cd "$(dirname "$0")/.."
W="--no-write"; [ "$1" = "-w" ] && W=""
ids=$(/venv/bin/python -c "import json;print(' '.join(sorted(c['property_id'] for c in json.load(open('MANIFEST.json'))['checks'])))")
bad=0
for id in $ids; do
  out=$(./check $id $W 2>&1); rc=$?
  last=$(echo "$out" | tail -1 | cut -c1-140)
  if [ $rc -ne 0 ]; then bad=1; echo "$id rc=$rc $last"; echo "$out" | grep -A1 '^VIOLATION' | head -6; fi
  echo "$out" | grep '^KNOWN-FINDING' | cut -c1-110
done
echo "all-checks-done bad=$bad"
