#!/usr/bin/env python3
"""Regenerates /verif/MANIFEST.json from the tables below (keeps it valid and
keeps not_applicable current).  Run after adding a check:  python3 tools/gen_manifest.py"""
import json
import os

HERE = os.path.dirname(os.path.dirname(os.path.abspath(__file__)))

# property -> (engine, technique, level text, level note, design ref)
CLAIMED = {
    'C11': ('A-prec-effect',
            'static analysis: abstract interpretation (typestate of the precision cell) over all '
            'statement paths incl. exceptional edges, with inter-procedural summaries',
            'Static path analysis (no execution): for every public entry point and every exit kind '
            '(return, fall-through, propagating exception at any statement) the working-precision '
            'cell is proved equal to its entry value, by abstract interpretation over all paths with '
            'callee summaries; plus structural rules on the _wrap_specfun wrappers, the context '
            'managers / two-phase rule protocols (the saved precisions of a manager form a per-object stack, so nested or '
            'recursive use cannot overwrite them), generators (no precision saved before a yield is written back after '
            'it) and the prec/dps setters.  Quantifies over all '
            'inputs and crash points at statement granularity, which tests cannot.',
            'Assumes user callbacks leave the precision as found; restoring stores are atomic; calls '
            'are resolved by name through the context registries and class methods (unresolved calls '
            'are counted in the evidence and assumed not to touch the precision).  Relative precision changes use integer '
            'amounts (A-R9); the precision of a borrowed context is saved from and restored to that context (A-R10).',
            'DESIGN.md section 2, Engine A'),
    'C05': ('G-hash-range',
            'static analysis: integer interval analysis (with excluded points) of the hash kernels '
            'for both CPython word sizes, plus structural dispatch/conversion rules',
            'Proves from the source that every value the emulated hash kernels return lies in '
            'CPython\'s signed hash range with -1 mapped to -2 (necessary for hash(x)==hash(y) '
            'whenever x==y across mpf/mpc/int/float/complex, since CPython re-hashes out-of-range '
            'results), that the complex hash is composed as the built-in one, that eq/hash are '
            'paired, that every comparison path converts ints/floats exactly and dispatches each '
            'operator to the like-named exact kernel with a nan guard.  Clause of the property: the '
            'bit-level arithmetic of mpf_cmp is not decided.',
            'CPython hash constants are the documented ones (both 64- and 32-bit configurations are '
            'analysed); only the Python-3 branch of the kernels is analysed.',
            'DESIGN.md section 2, Engine G'),
    'C01': ('E-canonical-form',
            'static analysis: literal evaluation of the named constants, shape classification of every raw '
            '4-tuple with path facts, parity / bit-count abstract interpretation at every normaliser '
            'call, typestate check of the normaliser kernels, entry rules for foreign tuples',
            'Inductive clause: given canonical inputs, every raw tuple a kernel can hand out is canonical, '
            'because (1) the named constants are canonical and the three special encodings are distinct, '
            '(2) hand-built 4-tuples occur only in audited shapes under the guards they need, (3) '
            'normalize1 - which assumes an odd-or-zero mantissa - only ever receives a provably odd or '
            'zero mantissa (parity domain with the frozen lemmas), (4) the bit-count argument of every '
            'normaliser call is exact for its mantissa argument (bitcount of the same expression, an '
            'unmodified unpacked pair, or the product idiom), (5) the normaliser kernels do zero-test -> '
            'round -> strip -> power-of-two fix-up with every mantissa shift mirrored on exponent and '
            'bit count, (6) user tuples and pickles enter through the general normaliser / a one-to-one '
            'field restore, with inf/nan diverted before normalize (which answers zero for every zero mantissa).  The arithmetic lemmas and the C back ends are not decided.',
            'Trusts the parity/bit-count lemmas listed in sa/canon.py and the induction hypothesis.',
            'DESIGN.md section 2, Engine E'),
    'C02': ('B-rounding-flow',
            'static analysis: rounding-flow abstract interpretation (precision + rounding-mode terms) of '
            'the real kernels, value checks of the mode tables, argument-threading and idiom '
            'well-formedness rules',
            'Clause of the property: on every path each basic real operation ends in a rounding primitive '
            'that receives the caller\'s precision and the caller\'s rounding mode (mode terms tracked '
            'through negative_rnd/reciprocal_rnd and exact negation); the three mode tables have the '
            'directed-rounding semantics as values; every operator method (including the generated '
            'ones), mpf() construction and fadd..fdiv thread the context\'s (prec, rounding); the '
            'sticky-bit idioms of division, square root and far-exponent addition are present and '
            'internally consistent; the two tie-mask implementations agree; every converter of an inexact source '
            '(string, rational, Decimal) in the mp context layer is handed the rounding mode (their default is '
            'round-down: Fraction operands were truncated, repaired) and mpf() has a branch for each source type the '
            'property names; the special-value clause (inf/nan operands, zero divisors) is decided by interpreting the explicit '
            'special-case code of add/sub/mul/div/neg/abs/pos/sqrt on every combination of operand classes against an '
            'IEEE-style table (S-R1, exhaustive over the classes).  Does NOT prove that the '
            'rounded value is the nearest one (bit-level algebra).',
            'Trusts _normalize/_normalize1 (structure checked under C01) and the idiom lemmas.',
            'DESIGN.md section 2, Engine B (B-R3, B-R4)'),
    'C03': ('B-rounding-flow',
            'static analysis: data-flow / structural rules on mpf_pow_int (directed intermediates), '
            'mode-term analysis of its summary, value checks of the mode tables',
            'Clause: in mpf_pow_int every intermediate truncation is directed by (mode, sign of result), '
            'negative exponents swap the mode for the inner power and add precision, the exact path is '
            'independent of the precision and rounded once, and the final rounding uses the caller\'s '
            'mode - the conditions under which a directed result cannot cross x**n.  In the power kernels a divisor '
            'produced under a rounding mode gets reciprocal_rnd[rnd], never the caller\'s mode (B-R13).  Ulp bounds are not '
            'decided.',
            'Trusts mpf_div/normalize (C02) and the monotonicity argument of binary exponentiation.',
            'DESIGN.md section 2, Engine B (B-R5)'),
    'C04': ('B-rounding-flow',
            'static analysis: rounding-flow abstract interpretation with single-rounding tracking of the '
            'complex kernels, threading/dispatch rules over the mpc operator methods',
            'Clause: each component of complex +,-,* (and mixed real/int forms) is on every path special '
            'or ONE rounding, in the caller\'s mode at the requested precision, of exactly formed real '
            'products/sums; operators and fadd/fsub/fmul pass (prec, rounding) and dispatch to the '
            'like-named kernel with operands in order; mpc equality is exact componentwise equality; every argument of '
            'an mpc_*/mpf_* kernel call whose shape can be inferred (raw mpf vs pair) has the shape the kernel takes '
            '(H-R15, sa/shape.py); z**n takes the exact integer path for every power of up to 10^4 bits, on and '
            'off the axes, with a gate that allows for the 2x slack of its size estimate, and a negated power is '
            'rounded in the opposite direction (P-R1; three genuine defects repaired).  '
            'Two known findings (component passed through by mpc_add_mpf / mpc_sub_mpf).  Error bounds of '
            'division/powers are not decided.',
            'Trusts the real kernels (C02).',
            'DESIGN.md section 2, Engine B'),
    'C06': ('B-rounding-flow',
            'static analysis: rounding-flow abstract interpretation (bounded / caller\'s mode / single '
            'rounding) of floor, ceil, nint, frac, mod and their complex forms, plus wiring rules',
            'Clause: every path of the integer-part kernels yields a special value or a single rounding in '
            'the caller\'s mode at the requested precision of an exactly computed value (exact integer '
            'part, exact difference); public names are wired to the like-named kernels with the right '
            'direction constants; int() truncates; zeros, infinities and nan follow the special-value table on '
            'every operand-class combination (S-R1, class interpretation); the modulo reduction never writes out '
            'an integer as large as the exponent gap of its operands (M-R1; genuine defect repaired).  The value '
            'of mpf_round_int / of the modulo reduction is not decided.',
            'Trusts mpf_round_int as an exact integer-part operation.',
            'DESIGN.md section 2, Engine B'),
    'C07': ('B-rounding-flow',
            'static analysis: data-flow rules over from_str and its callers, rounding-mode analysis of '
            'interval-literal endpoints, cache-key rule on the conversion path',
            'Clause: from_str computes from the exact (mantissa, exponent) integers, never through a '
            'machine float; moderate exponents are rounded once with the caller\'s mode; for huge '
            'exponents the mantissa stays exact and the power of ten is rounded in a direction derived '
            'from the mode and the sign; every caller passes (prec, rounding); interval literal forms '
            'round lower endpoints with floor and upper endpoints with ceiling directly from the text; no '
            'memo table on the path omits the rounding mode; the two literals of the shared-prefix interval form '
            'are ordered by value before the directed conversions and the documented forms agree between sibling '
            'branches (C-R7); a literal\'s digit string reaches int() only in pieces bounded below the '
            'interpreter\'s 4300-digit limit (L-R1, text-kind inference).  Genuine defects (|exp|>400 branch, long '
            'literals, inverted interval strings) were repaired.  Correct rounding of from_rational/from_int is C02\'s clause.',
            'Trusts from_int/from_rational/mpf_pow_int (C02/C03).',
            'DESIGN.md section 2, Engine B (B-R5)'),
    'C13': ('B-rounding-flow',
            'static analysis: call-site rule over every use of the finite-only normaliser; flow-sensitive '
            'affine precision tracking of kernel intermediates (guard-bit contradiction rule); sibling '
            'rule over the complex exp/trig family (real-axis delegation)',
            'Clauses: (B-R6) no computed value is re-rounded by passing its fields to normalize()/'
            'normalize1(), which turn inf/nan into 0 (two genuine defects repaired: acos/asin of complex '
            'nan/inf, nthroot); (B-R9) inside the libmp kernels no inexact intermediate rounded at the '
            'target precision itself feeds a computation that runs with guard bits - the contradiction '
            'that makes exact cases (root(a**n, n), ...) miss their exact value; every comparable '
            '(intermediate, consumer) pair is examined; (B-R8) each of the ten complex exp/trig kernels '
            'hands an argument with exactly zero imaginary part to the real kernel at the caller\'s '
            '(prec, rnd) before the imaginary part reaches any computation - what keeps tan/cot/sec/csc '
            'finite next to the real poles for complex-typed real arguments; (R-C1) a value-range scan of the '
            'complex trigonometric kernels: no sum of a [-1,1] value and a >= 1 value at fixed precision (the '
            'cancelling denominator of complex tan: genuine defect repaired); (E-X1) both result bindings of '
            'mpf_nthroot pass a sound perfect-power test first (genuine defect repaired); (E-X2) every '
            'half-integer exponent is routed through the exact square root; (S-R2) documented limits at 0, +-inf, '
            'nan by class interpretation.  Exactness of perfect powers as values is decided only through these '
            'necessary conditions.',
            'Assumes exact_nthroot\'s arithmetic (c**n == man) is Python integer arithmetic.',
            'DESIGN.md section 2, Engine B (B-R6, B-R8, B-R9)'),
    'C10': ('B-rounding-flow',
            'static analysis: flow-sensitive abstract interpretation of the kernels (bounded '
            'disjunctive worlds, affine precision expressions, inter-procedural summaries), '
            'obligations at every public store site',
            'Every value that a public operator, constructor, elementary function installed by '
            '_wrap_libmp_function, or context method stores into a number object is proved, on every '
            'path through the kernels, to be a special value or to have passed a rounding primitive '
            'at a precision <= the requested one (affine reasoning: prec+5 ... prec-5 cancels, '
            'prec+10 does not).  Operands passed through unrounded, exact-mode results, guard bits '
            'left on, and rounding at an unrelated precision are reported with the responsible '
            'return statement.  Wrapped special functions are covered by the +retval rule on the '
            'wrapper.  Documented exact operations are a frozen, reasoned exemption table.  No plain @defun '
            'function of the elementary layer and no class-body lambda hands its argument back unrounded (B-R8; '
            'two genuine defects repaired).  Three '
            'genuine defects that the pinned tests depend on are recorded as known findings.',
            'Trusts the rounding primitives (checked under C01), the exemption tables in '
            'sa/tables.py and that private helpers are reached only through rounding callers.  The '
            'run-time generated hypergeometric summators are outside the analysed source.  '
            'High-level calculus routines (findroot, invertlaplace, ...) are outside the property.  Values served from a '
            '(precision, value) cache by functions that no wrapper re-rounds are re-rounded on a hit (B-R11); polyval rounds the '
            'value of a constant polynomial (B-R8p); exact_nthroot bounds the root by ceil(bc/n) (E-X1); rs_zeta / rs_z and the Borel fallback of hyper round what they computed under a raised precision (B-R12, two genuine defects repaired).',
            'DESIGN.md section 2, Engine B'),
    'C33': ('D-cache-discipline',
            'static analysis: discovery of all mutated containers + class-specific data-flow rules '
            '(control dependence of cache hits on a precision gate, key contents, store order, '
            'typestate of the matrix LU cache, taint of context values into shared storage)',
            'Every memo table in the package is found on each run and must be classified; for each '
            'class the rule that makes stale reuse impossible is checked on the source: hits are '
            'control-dependent on stored-precision >= requested (and shifted by exactly the '
            'difference), or the precision is in the key, or the table is exact / a pure function '
            'of its key; what is stored under a precision key was computed at that precision and not in the '
            'caller\'s rounding mode; the odefun segment cache is append-only with an in-range lookup; '
            'constant_memo stores value before tag; every mutator of a matrix drops its '
            'cached LU and the LU cache carries a precision tag; nothing computed through a context '
            'is stored in containers shared between contexts; memoize keys include keyword values and the TYPES of all '
            'argument values, as does the quadrature node key (D-R1h); sizes derived from a key variable are current with '
            'the key at the store (D-R1g); a memoize hit cannot fail where the miss succeeded (D-R6h); cached LU '
            'factors are neither handed to a caller nor returned with overwrite (D-LU2, D-LU3); the working data of '
            'an invertlaplace call lives on a call-local object (D-R9); the stieltjes guard parameter is '
            'canonicalised (D-R1i); the matrix LU cache is a typestate held / dropped in which every change of the '
            'entries happens after the drop, so that an exception cannot separate them (D-R4 rewritten), a memoized '
            'matrix is stored or returned as a copy (D-R6m), and factors whose computation rejects by a '
            'precision-dependent test are reused at the same precision only (D-LU4).  '
            'This decides the "never reused at lower accuracy / after inputs changed / across '
            'contexts / after an aborted computation" clauses for all histories; rounding-level '
            'differences are not decided.',
            'Trusts the per-container classification in sa/tables.py (reasoned rows; unclassified '
            'containers fail the run).  Crash model: exceptions raised by computations; an interrupt '
            'between two adjacent simple stores is outside it.',
            'DESIGN.md section 2, Engine D'),
    'C14': ('C-interval-direction',
            'static analysis: rounding-direction typing of interval values on top of the rounding-flow '
            'abstract interpretation (mode terms, monotonicity table, enclosure typing at returns and at '
            'hand-overs), mode-threading analysis of the real kernels used with directed modes',
            'Clause: every endpoint produced by a real interval function is rounded outward (lower: floor, '
            'upper: ceiling, or exact / input endpoint / constant) on every path; rounded intermediates '
            'are used only in positions whose monotonicity preserves their bound; intervals passed between '
            'interval functions are enclosures; every real kernel called with an explicit directed mode '
            'honours it at its final rounding on every path (found: loggamma negated after rounding, so '
            'iv.loggamma was inverted for x < 1.46 - repaired); the cos/sin outward perturbation has the '
            'right shape; every x + eps shortcut of the real kernels perturbs towards the sign of the neglected term (found: mpf_log near 1 - repaired); no directed kernel rounds a weakly guarded undirected intermediate (found: mpf_atan2 - repaired); interval functions outside the audited endpoint-level set remain compositions of interval operations; conversions round each endpoint outward; a packed interval is never used after one of its unpacked endpoints was recomputed (C-R9); + - * / on every combination of zero / infinite / signed endpoint classes return endpoint classes that enclose the exact range, never nan (C-R16, class interpretation); no endpoint is taken straight from a directed transcendental kernel: the kernel value goes through the outward helper, whose body is verified (C-R14, C-R19; seven genuine defects of this kind repaired; its only unwidened non-special return is the kernel\'s own directed rounding of a factorial-table entry, and a nan of the kernel is answered with -inf / +inf, C-R23); the corner choice of mpi_atan2 is decided over all 36 sign configurations of the box against infimum / supremum derived from the monotonicity of atan2 (C-R20, sa/atan2_corners.py); convert_mpf_ has a directed conversion for every listed kind of input incl. rationals (C-R6).  NOT decided: choice of corner / '
            'monotonicity region beyond the turning-point brackets (C-R17), and the accuracy of the '
            'transcendental kernels inside the 2**10-unit allowance of the outward helper.',
            'Trusts the monotonicity table (sa/iv_dir.py), the reasoned operand exemptions '
            '(tables.C_OPERAND_EXEMPT) and kernel accuracy before the final directed rounding.',
            'DESIGN.md section 2, Engine C'),
    'C15': ('C-interval-direction',
            'static analysis: the same rounding-direction typing applied to the complex-rectangle '
            'functions, plus operand-order rules on the interval operator machinery',
            'Clause: all four endpoints of every rectangle produced by an mpci_* function are rounded '
            'outward on every path and every interval handed between interval functions is an enclosure '
            '(this pins the rounding direction of the corner values of mpci_gamma - a genuine defect in '
            'the real-axis-crossing case was repaired); the binary-operator machinery of iv.mpf/iv.mpc '
            'passes operands in the right (reflected) order to the paired kernels; a packed rectangle is never '
            'used after one of its unpacked endpoints was recomputed and before it is rebuilt (C-R9, '
            'sa/stale_pack.py); mpi_overlap (excluded strip of gamma) is the intersection predicate on all 26 '
            'endpoint orderings; rectangle functions outside the audited endpoint-level set stay compositions '
            '(C-R13, catches the two seeded cosh rewrites); every kernel argument has the shape (raw mpf / interval / '
            'rectangle) its kernel takes (C-R15, sa/shape.py: found mpci_gamma handing the rectangle to mpi_gamma and '
            'conjugate using mpf_neg on an interval, both repaired); every rectangle function that reaches a real interval '
            'function with unwidened transcendental endpoints (rule C-R14 of C14) inherits that finding (C-R14t: ten '
            'genuine defects with failing inputs, repaired together with the seven of C14 by the outward helper); '
            'kernels called with a directed mode by rectangle functions honour it (C-R5); no rectangle endpoint comes straight from a '
            'complex transcendental kernel called with a directed mode: the corner values of gamma go through mpc_outward, whose '
            'body (extra bits, allowance relative to the modulus, outward direction, pass-through) is verified (C-R14c, C-R19c) and which claims no bound from an infinite or undefined part of the kernel value (C-R22: -inf / +inf in the requested direction; genuine defect repaired -- unbounded rectangles gave confident wrong gamma rectangles).  NOT decided: corner selection inside the '
            'audited endpoint-level functions, the excluded region of gamma, value-level tightenings.',
            'Trusts the monotonicity table; the real interval functions are trusted only where C14 has no finding.',
            'DESIGN.md section 2, Engine C'),
    'C16': ('F-order-abs',
            'static analysis: abstract interpretation of the predicates\' AST over the finite domain '
            'of endpoint orderings (exhaustive), plus dispatch-table rules',
            'The comparison predicates use their operands only through exact order kernels, so they '
            'are functions of the weak ordering of four endpoints; the analyser interprets their AST '
            'on all 26 orderings and compares with the three-valued specification computed from the '
            'definition.  Exhaustive over the abstraction, i.e. decides the property for all '
            'intervals, given exact order kernels.  `in` is also evaluated for a complex operand (imaginary part '
            'zero / non-zero on all orderings of the real part: never True off the real line), and every comparison '
            'method answers NotImplemented - never a truthy exception class - for operands it cannot handle (both '
            'found as defects and repaired); an exact rational operand (Fraction / mpq) is not widened to its enclosure: '
            'the interval is scaled by the denominator with exact products and compared with the numerator (F-R13); mp\'s eps as an operand keeps its value instead of being re-evaluated at iv.prec (F-R15 = X-R14 of C38).',
            'Trusts the small evaluator in sa/order_abs.py and that mpf_lt/le/gt/ge are exact (C05 '
            'clause); nan endpoints excluded.',
            'DESIGN.md section 2, Engine F'),
    'C17': ('K-constants',
            'static analysis: cache-discipline rules on constant_memo (gate, shift, store order), '
            'rounding-flow classification of def_mpf_constant (Engine B) plus agreement of its +1 bump '
            'with the shifts_down table, and wiring rules (like-named fixed functions, memoisation, '
            'context and interval constants)',
            'History independence: the memo serves a stored value only for requested <= stored '
            'precision, shifts by exactly the difference and replaces the (tag, value) pair in a way that is safe at '
            'every interruption point (tag invalidated, value stored, tag validated - or one atomic store; the '
            'earlier clause "value before tag" was wrong and a real defect: DESIGN 10.4).  Direction safety: the '
            'floor value of a positive constant is bumped by one unit exactly for the modes for which '
            'truncation goes the wrong way, then rounded once with the caller\'s (prec, rnd); the '
            'interval constants evaluate (floor, ceiling) at one precision.  The evaluation sits in a retry loop that '
            'is left only when the discarded bits are beyond a margin from every rounding boundary (K-R6), and no '
            'floor-divided series quantity is multiplied by a coefficient growing with the loop counter under constant '
            'guard bits (K-R5; apery_fixed repaired).  Decides these clauses, not the digits.',
            'That each *_fixed function returns a true floor is numerical; decided for the three closed-form '
            'series lengths (e, pi, acot[h]: formula evaluated against the convergence rate, K-R4), not for the '
            'loop-controlled series of the other constants.',
            'DESIGN.md section 4 (C17)'),
    'C24': ('H-termination',
            'static analysis: loop-shape rules over every while loop (own live exit, condition '
            'variables changed), reference table of cap-guarded loops with an infeasible-guard '
            '(clamp) contradiction rule, escalation-loop rule, and a sibling rule for asymptotic '
            'Bernoulli series (divergence exit or start coefficient >= ln2/2pi)',
            'Necessary conditions for termination that are visible in the loop shape: every unbounded '
            'loop owns an exit that the loop body can make true; loops that rely on an iteration or '
            'precision cap keep the cap inside the loop and the cap test is not made infeasible by a '
            'preceding clamp; precision-escalation loops grow and compare with their bound before '
            'raising; the four asymptotic Euler-Maclaurin tails have a divergence exit or start beyond '
            'ln2/(2 pi) * working precision; the switch-over / argument-reduction thresholds in front of '
            'the four asymptotic-series helpers are computed from the precision variable the series runs '
            'at, after its last change (T-R8).  Found and repaired: mpc_psi0 never returned above ~4400 '
            'bits.  Unbounded term generators handed to sum_accurately have a counter cap, factorial decay or a bound on the '
            'number of terms established before (T-R14).  The Riemann-Siegel entry points make their float estimates '
            '(math.pow with an argument-dependent exponent) under a handler that turns OverflowError into a documented '
            'exception (T-R15), and a search loop whose condition calls gamma / factorial on its own counter owns a '
            'second exit (T-R16); both found as genuine defects and repaired.',
            'Convergence of each series / Newton iteration for each argument is not decided.',
            'DESIGN.md section 4 (C24)'),
    'C34': ('H-ode-closure',
            'static analysis: closure-state and region rules on odefun (frozen working-precision '
            'region around all computation, discovery of every mutated closure container, '
            'append-only lock-step segment lists, index-range argument for the bisection lookup, '
            'min-fold of the step radius over all components)',
            'Order and precision independence of the interpolant: everything it computes runs inside a '
            'region whose precision is a creation-time constant; the only state surviving a call is the '
            'pair of append-only segment lists; the lookup index is inside the list (x >= x0 enforced, '
            'right bisection, n-1 under n < len); results are re-rounded after the restore.  For the '
            'error bound: the step radius is a minimum over every component, and it is either estimated from a '
            'wide window of trailing coefficients or checked a posteriori against the differential equation at the '
            'end of the step (O-R10; genuine defect repaired: lacunary and polynomial solutions were integrated with '
            'the maximal step); the step test scales with the solution (O-R11: one known finding, the purely '
            'absolute test); the first segment is built at the frozen working precision like every extension (O-R12), '
            'that precision covers the tolerance (O-R13), and the step-halving loop has an exit that does not depend on '
            'the absolute tolerance (O-R14; the last three genuine defects repaired, one a regression of an earlier '
            'repair).  Decides these clauses, not the size of the truncation error.',
            'Accuracy of the Taylor steps (degree, Euler step h, the /2 safety factor) is numerical and '
            'not decided.',
            'DESIGN.md section 4 (C34)'),
    'C40': ('H-pickle-pairing',
            'static analysis: writer/reader pairing rules (field-by-field agreement of to_pickable and '
            'from_pickable, slot agreement of __getstate__/__setstate__), hook classification on the '
            'number classes, by-name registration of dynamically created value classes, and an '
            'aliasing rule with detach-dominance for matrix.copy',
            'A round trip is exact iff writer and reader agree field by field and nothing on the way '
            'rounds or recomputes: all four tuple fields keep their position, only the mantissa is '
            'transcoded with the same base on both sides, __setstate__ stores straight into the slot the '
            'state was read from, no hook rebuilds a number through the rounding constructor, the '
            'classes pickle must find by name are registered, and matrix.copy yields storage no in-place '
            'mutation of the original can reach; matrices of the global fp and iv contexts and the interval '
            'numbers reduce to a module-level function that rebuilds them through their context (P-R7).  Found and '
            'repaired: matrices could not be pickled at all; fp / iv matrices and interval numbers raised '
            'PicklingError, interval constants could not be copied.',
            'Trusts hex()/MPZ(.,16) to be mutually inverse and the pickle protocol machinery of CPython; '
            'classes of clone contexts are refused with an explicit PicklingError and not checked further.',
            'DESIGN.md section 4 (C40)'),
    'C43': ('H-fp-wrappers',
            'static analysis: shape rules on the three math2 wrappers, sibling-agreement rule over every '
            'real/complex implementation pair (same math/cmath name, alpha-equivalence modulo '
            'math->cmath, quadrant tables against the reduction identity), domain-discipline table for '
            'the math functions, slot-table agreement of FPContext, raw-value escape rule',
            'Clauses that are visible in the source: fp elementary functions always return the result of '
            'a real or complex Python implementation applied to float()/complex() of the argument; a real '
            'implementation that can raise outside its real domain is always behind the (TypeError, '
            'ValueError) -> complex fallback, never on the fallback-free float fast path, and none '
            'silently returns a non-principal value (math.cbrt); each real/complex pair is the same '
            'function; every FPContext slot is bound to the like-named function; mpf/mpc/convert are '
            'float/complex; no raw mp value escapes; acos/asin do not use bare cmath on the branch cut '
            '(found and repaired: fp.acos(2) was the conjugate of mp.acos(2)), and sqrt/log/acosh/cbrt/power '
            'normalise a negative-zero imaginary part on their cuts (F-R6, repaired); amplification without guard '
            'digits is listed (F-R8, eight known findings); on the mp side every inverse function that takes '
            'log(1 + t) raises its precision with the magnitude of t (F-R12, repaired: mp was wrong by up to 100 %% '
            'for small complex arguments); an infinity does not take the even-integer shortcut of the *pi functions and '
            'Newton corrections of roots are skipped at infinity (F-R16, F-R17: regressions of two earlier repairs, '
            'repaired).  Numerical agreement with mp to 2^-48 in general is not decided.',
            'Trusts the behaviour classes of the math module functions (tables in sa/checks/c43.py).  '
            'Value facts are checked only where a formula can be evaluated from the source (F-R9).',
            'DESIGN.md section 4 (C43)'),
    'C38': ('X-context-isolation',
            'static analysis: sharing/escape rules over the context constructors (fresh precision cell and '
            'number classes wired to the instance), discovery of every in-place-mutated context attribute '
            'with a per-instance-creation rule, statement whitelist on clone, scope analysis for the '
            'pickling globals and global instances, allocation-site rule in the number classes, and a '
            'snapshot/try/finally pairing rule for code run on another context (using Engine A summaries)',
            'Isolation fails exactly when two contexts can reach one mutable object or when code bound to '
            'one context reads or writes another.  Decided from the source for all histories: precision '
            'cell and number classes are per instance and wired to that instance; every container '
            'attribute mutated anywhere is created fresh per instance (none class-level, none borrowed); '
            'clone constructs a new instance and copies scalar settings only; library code never reads '
            'the pickling globals (always mp\'s classes) or the global instances; number-class methods '
            'allocate from the receiver\'s context; code running on ctx._mp restores that context\'s '
            'precision in a finally clause; fp precision setters store nothing; clone copies every constant-initialised public '
            'setting (X-R3c); data computed in a borrowed context holds no lazy constant and the borrowed context\'s '
            'trap_complex is neutralised (X-R10, X-R11); matrix entries taken over without conversion come from a matrix of '
            'the same context (X-R12); constants of another context are evaluated at the receiving context (X-R13), except eps, which is defined by the precision of its own context and keeps its value (X-R14; a regression of the repair behind X-R13, repaired); the operator layer (binary-operator template, _cmp, mpf_convert_rhs, fsum) does not read the _mpf_ of a constant of another context (X-R15; found independently by two hunts, repaired).  '
            'That a clone computes the same values as mp is numerical and not decided.',
            'Module-level / default-argument caches are decided under C33 (D-R3).  Trusts Engine A '
            'summaries for "leaves the precision changed".',
            'DESIGN.md section 4 (C38)'),
    'C29': ('R-rootfinding',
            'static analysis: dominance/shape rule for the verification gate of findroot; abstract '
            'interpretation of one loop iteration of every bracketing solver over the finite sign domain '
            '(path enumeration with forks on each new function value, helpers inlined, refinement on '
            'guards) checking the bracket invariant; structural rules on polyroots (size of the root '
            'list, convergence gate)',
            'Clauses: (1) every computed root findroot returns was compared, in the raising direction and '
            'without additional conditions, with the caller\'s tolerance itself as |f(x)|^2 at exactly the '
            'returned value (verify on by default); (2) for Bisection, Illinois (each of the three scaling '
            'rules), Ridder: from every state with sign f(a) = -sign f(b), every path through one iteration '
            'that returns to the loop head re-establishes the sign change and keeps each stored function '
            'value of the same sign as f at its point - the sign abstraction is exact for these decisions '
            'because the solvers use the values only through signs there; (3) polyroots returns exactly '
            'deg values and only past its convergence gate.  Convergence, multiplicities, accuracy and the '
            'ordering of polyroots\' output are numerical and not decided.',
            'Trusts the sign-arithmetic lemmas of sa/sign_abs.py; assumes f deterministic and tol > 0.  '
            'A nan residual is seen by the infinity norm and a nan Newton step ends the multidimensional iteration (R-R6).',
            'DESIGN.md section 4 (C29)'),
    'C37': ('Y-backend-siblings',
            'static analysis: discovery and classification of every BACKEND-dependent binding, signature '
            'comparison of in-repository alternatives, equality of Engine-B rounding summaries and of '
            'special-value/guard features for the kernels written once per backend, dispatch-completeness '
            'and like-named-binding rules, table-length / threshold agreement rules for the python-only '
            'lookup tables',
            'Clause (the only view of the gmpy branch available: gmpy2 is not installed and its C routines '
            'are not source): every name bound differently per backend is enumerated and must be classified; '
            'alternatives in source agree on signature; python_mpf_mul/gmpy_mpf_mul and the _int pair have '
            'the same rounding contract (one rounding at the requested precision in the caller\'s mode of the '
            'exact product, same special constants, early-return cases tried in the same order, normaliser '
            'reached only with a non-zero mantissa); '
            'dispatched names are bound on every branch to the alternative written for that backend and '
            'derived tables are built through the dispatching names; the tie masks and bit-count tables '
            'the C normaliser never consults agree with each other and with the thresholds guarding them; the '
            'integer square-root correction code (isqrt_python, sqrtrem_python) is executed over a finite abstract '
            'domain (error of the approximate root in {-1,0,+1} x position of x between two squares, exact '
            'polynomial values): every reachable exit returns floor(sqrt(x)) and x - root^2 (Y-R6, Y-R7, '
            'sa/rootoff.py); backend alternatives of the digit conversion share their recursive tail (Y-R5) and use the same '
            'parameters (Y-R9); every argument of bitcount (66 sites) is non-negative, decided by a flow-sensitive '
            'integer sign analysis (sa/intsign.py) with reasoned parameter / site contracts (Y-R8: the back ends '
            'disagree on negative integers); every call of from_man_exp that passes a precision passes a rounding mode '
            '(Y-R10: gmpy\'s replacement has another default; genuine defect repaired).  Bit-identical results in '
            'general are NOT decided.',
            'Assumes the C routines implement the contract named in the table row.  The exact integer '
            'approximate root isqrt_fast_python is assumed to be within one unit of the floor root (documented, '
            'and observed on 200 000 probes).',
            'DESIGN.md section 4 (C37)'),
    'C35': ('Q-result-gates',
            'static analysis: dominance rules over the return statements of pslq / findpoly / identify '
            '(which tests on which objects guard each returned value), agreement of column index, '
            'tolerance, bound and fixed-point scale between the test and the returned object',
            'Clause: what these functions hand out has passed the documented tests - every vector pslq '
            'returns is the integer column i of B whose residual |y[i]| was compared with the caller\'s '
            'tolerance (both scaled at one precision) and whose coefficients were compared, strictly, with '
            'maxcoeff; findpoly returns only a reversed, non-None pslq relation on [1, x, .., x**i], i <= n, '
            'with the caller\'s tol/maxcoeff forwarded; identify adds a formula only for a relation that is '
            'not None, within the bound, and has a non-zero leading coefficient.  Since the repairs of the second hunt: '
            'the vector pslq returns has passed the INTEGER test abs(sum(v*xk)) <= (tol*xnorm) >> prec on the '
            'fixed-point input itself (Q-R9), the input is scaled by one common power of two before the conversion '
            '(Q-R10), identify stores a formula only after evaluating it against x (Q-R11), findpoly hands pslq '
            'powers with guard bits (Q-R12), the string builders return a string on every path (Q-R13), names of base constants are parenthesised before they are spliced into a formula (Q-R14) and the quadratic attempt cannot raise out of identify (Q-R15).  That PSLQ '
            'FINDS existing relations is numerical and NOT decided.',
            'Assumes sqrt_fixed / to_fixed accurate to one unit of the guard-bit format.',
            'DESIGN.md section 10 (C35)'),
    'C09': ('V-float-conversion',
            'static analysis: constant-agreement rules inside from_float / from_npfloat / to_float, call-site '
            'rule over every float conversion in the context layer, wiring rules for float() and complex()',
            'Clause: the constants and wiring that make the conversions exact - from_float rebuilds m*2**e with '
            'the same power K >= 53 in mantissa and exponent and defaults to a precision that keeps all 53 bits; '
            'nan/inf are mapped before the decomposition with the right signs; every conversion of a Python float '
            'in mpmathify, operand conversion and comparisons calls it without a precision (exact); to_float '
            'rounds to exactly 53 bits in the requested mode before ldexp, maps the specials, and resolves '
            'overflow by the sign of the number and the size of the exponent; float()/complex() use the context '
            'mode (half-even by default) and convert both parts alike.  That normalize1 rounds to nearest-even is '
            'C02\'s clause; frexp/ldexp are CPython\'s.  Every __float__ / __complex__ of the package (the interval numbers too) passes a rounding mode to to_float (V-R6), and a Python complex operand of an mpf is converted exactly (V-R7); both found as genuine defects and repaired.  to_float drops no bits of the stored fields outside its one 53-bit rounding call (V-R8).',
            'Gradual underflow (denormals) is outside what to_float documents and is not decided.',
            'DESIGN.md section 10 (C09)'),
    'C39': ('N-class-domain',
            'static analysis: abstract interpretation of the helpers\' syntax trees over the finite partition of '
            'numbers into representation classes (zero, +inf, -inf, nan, normal by sign and sign of the exponent), '
            'symbolic (affine) evaluation of mag / ldexp / frexp, closed-form grid evaluation for ints and rationals',
            'isnan, isinf, isnormal, isint (incl. gaussian), isnpint and isfinite are interpreted once per class of '
            'mpf (10), per pair of classes of mpc (100), per class of Python int (3) and of reduced rational (5) and '
            'compared with their specification - exhaustive over the abstraction, because the helpers look at a number '
            'only through class-determined tests (anything else stops the run as an analysis error; a type without its '
            'own branch is followed through ctx.convert into every mpf class the conversion can produce).  mag is '
            'evaluated symbolically: exp+bc+c with c in {0,1} for a normal mpf, max(..)+1 exactly for a complex number '
            'with two non-zero parts, -inf / +inf for zero / infinities, nan whenever a component is nan (genuine '
            'defect repaired: the answer depended on which component was nan).  nint_distance is interpreted on '
            'every class with a zero or non-finite component (N-R7: ValueError for inf/nan; genuine defect '
            'repaired); rationals stored without create_reduced keep a positive denominator (N-R8, sign analysis; '
            'genuine defect repaired).  ldexp and frexp are exact field rewrites '
            '(exponent + n; exponent -bc with e = exp+bc).  The rational and mpf branches of nint_distance are closed-form '
            'integer arithmetic and are evaluated from the source on a grid (N-R6: grid evaluation, not a proof); the iv context and Python floats (C09) are outside the clause; FPContext.mag / isnpint are checked structurally for their special cases (N-R10: nan, infinities, large complex numbers and ints handled before math.frexp / abs / round; genuine defect repaired); isint / isnpint / nint_distance decide a Fraction from numerator and denominator before the rounding conversion (N-R9).',
            'Assumes canonical raw values (C01) and reduced rationals; trusts the interpreter in sa/classdom.py.',
            'DESIGN.md section 10 (C39)'),
    'C08': ('W-printing',
            'static analysis: evaluation of the digit-count formulas from their syntax tree over all precisions '
            '1..20000 against the uniqueness bound, freshness/wiring rules for the digit counts used by repr/str, '
            'writer/reader agreement of the special-value literals, shape rule for the decimal rounding and carry '
            'step of to_str',
            'Clause (necessary conditions of the round trip): repr prints at least ceil(p*log10 2)+1 digits at '
            'every precision p (found and repaired: 17 digits at 54 bits, where repr did not round-trip); the '
            'digit counts are recomputed from the current precision on every use and passed to to_str; complex '
            'repr is composed of the part reprs in order; to_str writes +inf/-inf/nan and from_str\'s table reads '
            'exactly these back; to_str requests guard digits, rounds on the first dropped digit (5..9 up), '
            'propagates the carry through 9s and bumps the exponent in the all-nines case; digits that depend on an '
            'inexact operation (a rounding kernel at finite precision, to_fixed cutting mantissa bits) reach to_str '
            'only when certified by a floor/ceiling enclosure left under equality, a neighbour probe or an exactness '
            'guard (W-R5; found nstr(mpf(\'0.45\'), 1) == \'0.4\' and a wrong last digit for huge exponents, repaired); '
            'both parts of an mpc are printed with the same arguments; the read-back half runs C07\'s from_str exactness rule (W-R6) and the decimal exponent is printed through numeral (W-R7, repaired: exponents of more than 4300 digits).  That bin_to_radix/numeral give the right '
            'digits of a fixed-point integer is NOT decided.',
            'Trusts the small formula evaluator (int/float arithmetic as in CPython).',
            'DESIGN.md section 10 (C08)'),
}

NA_REASONS = {
    'C08': 'digit generation / nearest-decimal printing is a statement about numerical values; no structural clause that is a genuine necessary condition was found (DESIGN section 7)',
    'C09': '53-bit rounding and overflow behaviour of float conversion is a value question; the only shape fact (from_float called without precision) is covered under C05/C10',
    'C12': 'accuracy bound 2^(4-p) of elementary functions: truncation/cancellation error cannot be bounded by a syntactic or data-flow argument',
    'C18': 'accuracy of gamma-family functions over input ranges: numerical, no static bound in reach',
    'C19': 'accuracy of zeta-family functions: numerical, no static bound in reach',
    'C20': 'accuracy of error/exponential integrals: numerical, no static bound in reach',
    'C21': 'accuracy of Bessel/Airy functions and zero finders: numerical, no static bound in reach',
    'C22': 'accuracy of hypergeometric functions: numerical, no static bound in reach',
    'C23': 'accuracy of elliptic/theta/Lambert W functions: numerical, no static bound in reach',
    'C25': 'exact integer values of number-theoretic functions are value facts; the one flow fact (mpf_bernoulli rounding/history) is reported under C10/C33',
    'C26': 'quadrature accuracy is numerical',
    'C27': 'convergence of series/extrapolation is numerical',
    'C28': 'differentiation / Taylor / Pade accuracy is numerical',
    'C30': 'linear-algebra accuracy and factorization identities are numerical',
    'C31': 'eigen/SVD residuals are numerical',
    'C32': 'matrix-function identities are numerical',
    'C35': 'PSLQ relation validity is a property of computed values',
    'C36': 'approximation quality is numerical',
    'C39': 'mag/nint_distance exactness is integer arithmetic on values; no path/shape clause',
    'C41': 'zero counting correctness is numerical (the precision handling of nzeros is checked under C11)',
    'C42': 'inverse Laplace accuracy is numerical (precision handling of invertlaplace is checked under C11)',
}
NOT_BUILT = 'analyser for the structural clause described in DESIGN.md section 4 is not built yet; not claimed until it exists and is silent on the unchanged tree'


def main():
    props = [json.loads(l)['id'] for l in open(os.path.join(HERE, 'properties.jsonl'))]
    checks = []
    engines = {}
    for pid in props:
        if pid not in CLAIMED:
            continue
        if not os.path.exists(os.path.join(HERE, 'sa', 'checks', pid.lower() + '.py')):
            continue
        engine, technique, text, note, ref = CLAIMED[pid]
        engines.setdefault(engine, []).append(pid)
        checks.append({
            'property_id': pid,
            'quick_cmd': './check %s' % pid,
            'thorough_cmd': './check %s --tier thorough' % pid,
            'evidence_file': 'evidence/%s.json' % pid,
            'replay_cmd_template': './check %s --replay {path}' % pid,
            'engine': engine,
            'level_claimed': {'category': 'other', 'text': text, 'design_ref': ref},
            'level_note': note,
            'technique': technique,
        })
    claimed = set(c['property_id'] for c in checks)
    na = []
    for pid in props:
        if pid in claimed:
            continue
        na.append({'property_id': pid, 'reason': NA_REASONS.get(pid, NOT_BUILT)})
    m = {
        'version': 1,
        'setup_cmd': 'cd /verif && /venv/bin/python -B -c "import sa.driver, sa.prec_effect, sa.selftest"',
        'hooks': {
            'guard': 'MPMATH_VERIF',
            'enable': 'none needed: the checks parse /repo\'s sources with the stdlib ast module and never import or run them',
            'baseline_off_cmd': 'cd /repo && /venv/bin/python -m pytest -ra -q -p no:cacheprovider --timeout=900 --continue-on-collection-errors',
            'source_commits': [],
            'add_only': True,
        },
        'engines': [{'name': k, 'path': 'sa/', 'serves_properties': v,
                     'kind_free_text': 'static analysis over the parsed source (stdlib ast), no execution'}
                    for k, v in sorted(engines.items())],
        'checks': checks,
        'not_applicable': na,
        'notes': 'Static-analysis family only; every verdict is computed from /repo\'s current source text. '
                 'Thorough tier additionally runs the checker self-validation corpus (sa/selftest.py). See DESIGN.md.',
    }
    with open(os.path.join(HERE, 'MANIFEST.json'), 'w') as fh:
        json.dump(m, fh, indent=1)
    print('claimed:', sorted(claimed))
    print('not applicable:', len(na))


if __name__ == '__main__':
    main()
