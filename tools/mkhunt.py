import json,sys
pid=sys.argv[1]
for l in open('/verif/properties.jsonl'):
    d=json.loads(l)
    if d['id']==pid: break
wt='/tmp/wt/%s-hunt'%pid
out='/tmp/hunt/%s'%pid
print(f"""You are a tester of the Python library mpmath (arbitrary-precision arithmetic). Your job: find concrete inputs for which the CURRENT code violates the semantic property below (a genuine bug hunt; the code must not be modified).

PROPERTY {d['id']}: {d['title']}
Statement: {d['statement']}
Quantifier: {d['quantifier']['text']}
Why the existing test suite cannot settle it: {d['why_tests_cant']}
Code it is anchored in: {json.dumps(d['anchors'].get('files'))}; mechanisms: {json.dumps([m.get('name') for m in d['anchors'].get('mechanism',[])])}

WORKSPACE: a git worktree of the repository at {wt}. Do NOT modify any file under it. Do NOT read or use anything under /verif or /repo. Interpreter: /venv/bin/python; run your scripts with cwd={wt} and put `import sys, os; sys.path.insert(0, os.getcwd())` at the top so that `import mpmath` uses the worktree (another copy is installed elsewhere). No network. Write your scripts and results only under {out}/ (create it). Do not use `git stash`.

METHOD: read the anchored code to find suspicious spots (special cases, fast paths, thresholds, guard-bit counts, sign handling, caches, unusual precisions such as 1..10 bits or several thousand bits, operands with far more bits than the working precision, huge/tiny exponents, special values, all five rounding modes 'n','f','c','d','u', unusual call sequences), then test them with an independent exact oracle (Python ints / fractions.Fraction, or mpmath itself at much higher precision) in randomized and targeted campaigns. Budget: about 30-40 minutes of work. Prefer a few solid findings over many weak ones.

DELIVERABLES under {out}/:
  - for each distinct violation k = 1, 2, ...: repro_k.py, a minimal deterministic script (< 30 lines, < 30 s) that prints the inputs, the observed and the expected result, and exits 1 when the violation is present (0 otherwise);
  - REPORT.md: for each violation: the exact input, observed vs expected, which clause of the property statement it contradicts, the responsible function/line (your diagnosis), how often it occurs (e.g. N of M random cases), and whether you consider it DEFINITE (contradicts the statement as written) or DEBATABLE (depends on interpretation). Also list what you tested without finding anything (ranges, counts).
Reply at the end with a short summary of REPORT.md.""")
