# Same root cause as repro_2, other manifestation: x0 is a Python float (53 bits)
# and mp.prec = 24; x0+radius is rounded to 24 bits and the accepted step becomes
# 6 times longer than the radius that ode_taylor estimated and checked.
import sys, os; sys.path.insert(0, os.getcwd())
import signal; signal.alarm(25)
from mpmath import mp, mpf, exp
mp.prec = 24
x0 = 1000000.032
f = mp.odefun(lambda x, y: -100*y, x0, 1)       # y = exp(-100 (x-x0))
tolr = mpf(2)**(10-24)
bad = 0
for x in [1000000.05, 1000000.0625, 1000000.1, 1000000.2]:
    v = f(x)
    mp.prec = 200
    e = exp(-100*(mpf(x)-mpf(x0))); err = abs(v-e)
    print("x = %r observed %s expected %s abs err %s rel err %s (tolerance 2^(10-p) = %s)"
          % (x, mp.nstr(v, 9), mp.nstr(e, 9), mp.nstr(err, 3), mp.nstr(err/e, 3), mp.nstr(tolr, 3)))
    if err > tolr: bad = 1
    mp.prec = 24
sys.exit(bad)
