# C34 (debatable) 4: requested tol below eps at creation is silently not honoured after the precision is raised
import sys, os; sys.path.insert(0, os.getcwd())
from mpmath import mp, mpf, odefun, exp
mp.prec = 53
tol = mpf('1e-40')
f = odefun(lambda x, y: y, 0, 1, tol=tol)     # solver is built for 1e-40 (tol_prec=142 bits)
mp.prec = 200                                  # precision change between creation and evaluation
got = f(1); want = exp(1); err = abs(got-want)
print("y'=y, y(0)=1, tol=1e-40 created at prec 53, evaluated at prec 200, x=1")
print("   observed", got); print("   expected", want)
print("   |err| = %s, requested tol = 1e-40 (interpolant is pinned to 53+40 bits)" % mp.nstr(err, 4))
sys.exit(1 if err > tol else 0)
