# odefun with an initial point that has more bits than the working precision:
# the first segment's right end x0+radius is rounded at the caller's precision
# and lands BELOW x0; every later value is continued from a Taylor polynomial
# evaluated 100 units outside its radius.
import sys, os; sys.path.insert(0, os.getcwd())
import signal; signal.alarm(25)
from mpmath import mp, mpf, exp
mp.prec = 53
x0 = 2**60 + 100                      # exact Python int, 61 bits
f = mp.odefun(lambda x, y: -y, x0, 1)   # y(x) = exp(-(x-x0))
bad = 0
for x, e in [(x0, mpf(1)), (x0+1, exp(-1)), (x0+3, exp(-3))]:
    v = f(x)
    err = abs(v-e)
    print("x = x0+%d  observed %s  expected %s  abs err %s (allowed 2^-43 = 1.1e-13)"
          % (x-x0, mp.nstr(v, 15), mp.nstr(e, 15), mp.nstr(err, 3)))
    if err > mpf(2)**-43: bad = 1
# control: same problem shifted to a representable x0
g = mp.odefun(lambda x, y: -y, mpf(2)**60, 1)
print("control x0 = 2^60: g(x0) =", g(mpf(2)**60))
sys.exit(bad)
