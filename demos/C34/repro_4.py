import sys, os; sys.path.insert(0, os.getcwd())
from mpmath import mp, mpf, exp, odefun
# y' = 10*y, y(0) = 1e-30, all defaults, 53 bits
mp.prec = 53
y0 = mpf('1e-30')
f = odefun(lambda x, y: 10*y, 0, y0)
bad = False
for x in (0.4, 8):
    got = f(x); mp.prec = 200; want = y0*exp(10*mpf(x)); mp.prec = 53
    ae = abs(got-want); re = ae/want
    print("y'=10y, y(0)=1e-30: x =", x, "observed", got, "expected", mp.nstr(want, 17), "abs err", mp.nstr(ae, 3), "rel err", mp.nstr(re, 3))
    if min(ae, re) > mpf(2)**-43: bad = True
# decaying companion (absolute error small, relative error / sign wrong): y' = -33y, y(0)=1
g = odefun(lambda x, y: -33*y, 0, 1)
got = g(3); mp.prec = 200; want = exp(-99); mp.prec = 53
print("y'=-33y, y(0)=1: x = 3 observed", got, "expected", mp.nstr(want, 17), "(abs err", mp.nstr(abs(got-want), 3), ", wrong by 14 orders of magnitude)")
print("tolerance 2^(10-53) =", mp.nstr(mpf(2)**-43, 3))
print("VIOLATION" if bad else "ok")
sys.exit(1 if bad else 0)
