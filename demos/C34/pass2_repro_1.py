# C34 violation 1: step size accepted although Taylor coefficients n, n-1 vanish (lacunary series at x0)
import sys, os; sys.path.insert(0, os.getcwd())
from mpmath import mp, mpf, odefun, exp
mp.prec = 53
tol = mpf(2)**(10-mp.prec)
cases = [
 ("y'=-9x^8 y^2, y(0)=1  (y=1/(1+x^9))", lambda x, y: -9*x**8*y*y, 1, lambda x: 1/(1+x**9), {}),
 ("y'=9x^8 y,    y(0)=1  (y=exp(x^9))",  lambda x, y: 9*x**8*y,    1, lambda x: exp(x**9),   {}),
 ("y'=30x^29,    y(0)=0  (y=x^30)",      lambda x, y: 30*x**29,    0, lambda x: x**30,       {}),
 ("y'=3x^2 y,    y(0)=1  (y=exp(x^3)), degree=5, tol=1e-6", lambda x, y: 3*x*x*y, 1, lambda x: exp(x**3), dict(degree=5, tol=mpf('1e-6'))),
]
bad = 0
for name, F, y0, sol, kw in cases:
    f = odefun(F, 0, y0, **kw)
    t = max(tol, kw.get('tol', 0))
    for x in [mpf('0.5'), mpf(1)]:
        got, want = f(x), sol(x)
        err = abs(got-want)
        flag = err > t
        bad += flag
        print("%s x=%s\n   observed %s\n   expected %s  |err|=%s = %s*tolerance %s" % (
            name, x, got, want, mp.nstr(err, 4), mp.nstr(err/t, 4), "VIOLATION" if flag else "ok"))
sys.exit(1 if bad else 0)
