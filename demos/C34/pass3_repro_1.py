# odefun: y' = 2*x*y, y(0) = 1 (exact exp(x^2)); f(5) does not come back.
import sys, os; sys.path.insert(0, os.getcwd())
import mpmath
from mpmath import mp, mpf, exp
mp.prec = 53
BUDGET = 40000          # the code before commit 2f2fe9f needed 1975 evaluations of F
calls = [0]; last = [None]
class Budget(Exception): pass
def F(x, y):
    calls[0] += 1; last[0] = x
    if calls[0] > BUDGET: raise Budget
    return 2*x*y
print("mp.prec = 53; f = odefun(lambda x, y: 2*x*y, 0, 1); f(5)")
print("expected: exp(25) =", exp(25), "(1975 evaluations of F before commit 2f2fe9f, 0 ulp error)")
try:
    f = mp.odefun(F, 0, mpf(1))
    v = f(5)
    print("observed:", v, "after", calls[0], "evaluations of F")
    sys.exit(0 if abs(v-exp(25)) <= exp(25)*mpf(2)**-43 else 1)
except Budget:
    x = last[0]
    print("observed: no value; gave up after %d evaluations of F, solver only at x = %s" % (BUDGET, mp.nstr(x, 12)))
    print("(y there = %s; every step is cut hundreds of times below the truncation estimate; in a longer run f(5) was still not finished after 325000 evaluations / 40 s)" % mp.nstr(exp(x*x), 5))
    sys.exit(1)
