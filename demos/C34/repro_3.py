import sys, os; sys.path.insert(0, os.getcwd())
from mpmath import mp, mpf, tan, exp, odefun
bad = False
# (a) y' = 1 + y^2, y(0) = 0 (y = tan x), degree=10, default tol, 53 bits
mp.prec = 53
f = odefun(lambda x, y: 1 + y*y, 0, 0, degree=10)
for x in (0.45, 1):
    got = f(x); mp.prec = 200; want = tan(mpf(x)); mp.prec = 53
    err = abs(got - want)
    print("(a) tan, degree=10: x =", x, "observed", got, "expected", mp.nstr(want, 17), "abs err", mp.nstr(err, 3), "tol", mp.nstr(mpf(2)**-43, 3))
    bad |= err > mpf(2)**-43
# (b) y' = -100 x y, y(0) = 1 (y = exp(-50 x^2)), ALL defaults at mp.dps = 8 (30 bits)
mp.dps = 8
g = odefun(lambda x, y: -100*x*y, 0, 1)
got = g(0.45); p = mp.prec; mp.prec = 200; want = exp(-50*mpf(0.45)**2); mp.prec = p
err = abs(got - want)
print("(b) exp(-50x^2), mp.dps=8, defaults: x = 0.45 observed", got, "expected", mp.nstr(want, 10), "abs err", mp.nstr(err, 3), "tol", mp.nstr(mpf(2)**(10-p), 3))
bad |= err > mpf(2)**(10-p)
print("VIOLATION" if bad else "ok")
sys.exit(1 if bad else 0)
