# C34 (debatable) 3: interpolant never returns for x=inf / x=nan (x=inf satisfies x >= x0; nan passes the x<x0 guard)
import sys, os; sys.path.insert(0, os.getcwd())
import signal
from mpmath import mp, mpf, odefun, inf, nan
class TO(Exception): pass
def onalarm(*a): raise TO()
signal.signal(signal.SIGALRM, onalarm)
mp.prec = 53
bad = 0
for name, x in [("inf", inf), ("nan", nan)]:
    f = odefun(lambda x, y: -y, 0, 1)
    signal.alarm(5)
    try:
        r = f(x); print("f(%s) returned" % name, r)
    except TO:
        bad += 1; print("f(%s): no result after 5 s (expected: a ValueError or the limit/NaN); get_series extends forever" % name)
    except Exception as e:
        print("f(%s) raised %s (ok)" % (name, type(e).__name__))
    finally:
        signal.alarm(0); mp.prec = 53
sys.exit(1 if bad else 0)
