import sys, os; sys.path.insert(0, os.getcwd())
import signal
from mpmath import mp, mpf, exp, odefun
# y' = y/3, y(x0) = 1 with x0 = 2^92: get_series never terminates (x0 + radius rounds back to x0)
class TO(Exception): pass
def h(*a): raise TO()
signal.signal(signal.SIGALRM, h)
mp.prec = 53
x0 = mpf(2)**92
f = odefun(lambda x, y: y/3, x0, 1)
mp.prec = 200; x = x0 + 3; mp.prec = 53
print("x0 = 2^92, query x = x0+3 (exactly representable mpf), expected exp(1) = 2.718281828459045")
try:
    signal.alarm(10)
    v = f(x)
    signal.alarm(0)
    print("observed", v); bad = abs(v - exp(1)) > mpf(2)**-43
except TO:
    gs = dict(zip(f.__code__.co_freevars, [c.cell_contents for c in f.__closure__]))['get_series']
    d = dict(zip(gs.__code__.co_freevars, [c.cell_contents for c in gs.__closure__]))
    b = d['series_boundaries']
    print("observed: no result after 10 s;", len(b), "segments built, all boundaries == x0:", all(t == x0 for t in b))
    bad = True
print("VIOLATION" if bad else "ok")
sys.exit(1 if bad else 0)
