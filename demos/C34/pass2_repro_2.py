# C34 violation 2: purely absolute step control; a solution that starts below tol and grows is wrong by up to percents
import sys, os; sys.path.insert(0, os.getcwd())
from mpmath import mp, mpf, odefun, exp
mp.prec = 53
tol = mpf(2)**(10-mp.prec)
y0 = mpf('1e-30')
cases = [
 ("y'=20y, y(0)=1e-30", lambda x, y: 20*y, lambda x: y0*exp(20*x), [mpf('0.5'), mpf(4)]),
 ("y'=20y(1-y), y(0)=1e-30 (logistic)", lambda x, y: 20*y*(1-y), lambda x: 1/(1+(1/y0-1)*exp(-20*x)), [mpf('3.45')]),
]
bad = 0
for name, F, sol, xs in cases:
    f = odefun(F, 0, y0)
    for x in xs:
        got = f(x)
        mp.prec = 120; want = sol(x); mp.prec = 53
        rel = abs(got-want)/max(1, abs(want))
        flag = rel > tol
        bad += flag
        print("%s x=%s\n   observed %s\n   expected %s\n   |err|/max(1,|y|)=%s = %s*tolerance; err/|y|=%s %s" % (
            name, x, got, +want, mp.nstr(rel, 4), mp.nstr(rel/tol, 4), mp.nstr(abs(got-want)/abs(want), 4), "VIOLATION" if flag else "ok"))
sys.exit(1 if bad else 0)
