import sys, os; sys.path.insert(0, os.getcwd())
from mpmath import mp, mpf, exp, odefun
# y' = -32*y, y(0) = 1, default tol/degree at the default precision (53 bits)
mp.prec = 53
f = odefun(lambda x, y: -32*y, 0, 1)
got = f(0.5)
mp.prec = 200
want = exp(-16)
mp.prec = 53
ser = dict(zip(f.__code__.co_freevars, [c.cell_contents for c in f.__closure__]))
gs = ser['get_series']
d = dict(zip(gs.__code__.co_freevars, [c.cell_contents for c in gs.__closure__]))
print("ODE y'=-32y, y(0)=1, mp.prec=53, default tol and degree")
print("observed f(0.5) =", got)
print("expected exp(-16) =", mp.nstr(want, 17))
print("abs err", mp.nstr(abs(got-want), 3), " rel err", mp.nstr(abs(got-want)/want, 3), " tolerance 2^(10-53) =", mp.nstr(mpf(2)**-43, 3))
print("first segment: last two Taylor coefficients", d['series_data'][0][0][0][-2:], "(true: 2.14e12, -2.74e12); boundary", d['series_boundaries'][1])
bad = min(abs(got-want), abs(got-want)/want) > mpf(2)**-43
print("VIOLATION" if bad else "ok")
sys.exit(1 if bad else 0)
