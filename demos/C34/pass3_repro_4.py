# DEBATABLE: a requested tolerance below 2^-(prec+40) is silently not honoured,
# because the interpolant always evaluates at the creation precision + 40 bits.
import sys, os; sys.path.insert(0, os.getcwd())
import signal; signal.alarm(25)
from mpmath import mp, mpf, exp
mp.prec = 53
tol = mpf(10)**-40
f = mp.odefun(lambda x, y: -y, 0, 1, tol=tol)      # y = exp(-x)
mp.prec = 200                                       # precision change between creation and evaluation
bad = 0
for x in [0.25, 1, 3]:
    v = f(x); e = exp(-mpf(x)); err = abs(v-e)
    print("x = %s observed %s expected %s abs err %s (requested tol 1e-40)" % (x, mp.nstr(v, 45), mp.nstr(e, 45), mp.nstr(err, 3)))
    if err > tol: bad = 1
sys.exit(bad)
