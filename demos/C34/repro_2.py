import sys, os; sys.path.insert(0, os.getcwd())
from mpmath import mp, mpf, cos, sin, odefun
# harmonic oscillator y'' + w^2 y = 0 with w = 16 (and w = 10), default settings, 53 bits
mp.prec = 53
bad = False
for w in (16, 10):
    f = odefun(lambda x, y: [-w*y[1], w*y[0]], 0, [1, 0])
    got = f(3)
    mp.prec = 200
    want = [cos(3*w), sin(3*w)]
    mp.prec = 53
    err = max(abs(got[0]-want[0]), abs(got[1]-want[1]))
    print("w =", w, " observed f(3) =", got)
    print("        expected      =", [mp.nstr(t, 17) for t in want], " abs err", mp.nstr(err, 3))
    if err > mpf(2)**-43:
        bad = True
print("tolerance 2^(10-53) =", mp.nstr(mpf(2)**-43, 3))
print("VIOLATION" if bad else "ok")
sys.exit(1 if bad else 0)
