# C40 violation 2: mpf / mpc / matrix values of any context other than the global mp
# (mp.clone(), fp.matrix, iv.matrix) cannot be pickled, in any protocol.
import sys, os; sys.path.insert(0, os.getcwd())
import pickle
from mpmath import mp, fp, iv
mp2 = mp.clone(); mp2.prec = 100
vals = [("mp.clone().mpf(1)/3", mp2.mpf(1) / 3), ("mp.clone().mpc(1,2)", mp2.mpc(1, 2)),
        ("mp.clone().matrix([[1,2]])", mp2.matrix([[1, 2]])),
        ("fp.matrix([[1,2.5]])", fp.matrix([[1, 2.5]])), ("iv.matrix([[1,2]])", iv.matrix([[1, 2]]))]
bad = 0
for name, x in vals:
    for p in range(pickle.HIGHEST_PROTOCOL + 1):
        try:
            y = pickle.loads(pickle.dumps(x, p))
            ok = type(y) is type(x) and repr(y) == repr(x)
            msg = "ok" if ok else "type/repr changed: %s %r" % (type(y), y)
        except Exception as ex:
            ok = False; msg = "%s: %s" % (type(ex).__name__, ex)
        bad += not ok
        if p in (0, pickle.HIGHEST_PROTOCOL): print("%-28s protocol %d: observed %s" % (name, p, msg))
print("expected: a round trip that returns an equal object of the same type")
print("violations:", bad)
sys.exit(1 if bad else 0)
