import sys, os; sys.path.insert(0, os.getcwd())
import pickle, copy
from mpmath import fp, iv
# C40: "pickle round trips ... of matrix values ... all pickle protocols"
cases = [("fp.matrix([[1.5, 2j], [3, 4]])", fp.matrix([[1.5, 2j], [3, 4]])),
         ("fp.lu_solve(...) result", fp.lu_solve(fp.matrix([[2, 1], [1, 3]]), fp.matrix([1, 2]))),
         ("iv.matrix([[1, 2], [3, 4]])", iv.matrix([[1, 2], [3, 4]]))]
bad = 0
for label, A in cases:
    for proto in range(pickle.HIGHEST_PROTOCOL + 1):
        try:
            B = pickle.loads(pickle.dumps(A, proto))
            ok = type(B) is type(A) and repr(B) == repr(A) and B.rows == A.rows
            obs = repr(B)
        except Exception as e:
            ok = False; obs = "%s: %s" % (type(e).__name__, e)
        if not ok:
            bad += 1
            print("input   :", label, "protocol", proto)
            print("observed:", obs)
            print("expected: an equal matrix of type", type(A))
sys.exit(1 if bad else 0)
