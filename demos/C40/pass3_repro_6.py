import sys, os; sys.path.insert(0, os.getcwd())
import pickle, copy
import signal; signal.alarm(25)
from mpmath import mpf
# an exponent of more than 4300 decimal digits: protocols 0 and 1 write ints as decimal text
x = mpf(2) ** (10 ** 4400)
print("input   : mpf(2)**(10**4400), _mpf_ = (0, 1, 10**4400, 1)")
bad = 0
for proto in range(pickle.HIGHEST_PROTOCOL + 1):
    try:
        y = pickle.loads(pickle.dumps(x, proto))
        ok = y._mpf_ == x._mpf_; obs = "round trip exact: %s" % ok
    except Exception as e:
        ok = False; obs = "%s: %s" % (type(e).__name__, str(e)[:70])
    print("observed: protocol %d: %s   (expected: round trip exact)" % (proto, obs))
    bad += not ok
sys.exit(1 if bad else 0)
