import sys, os; sys.path.insert(0, os.getcwd())
import pickle, copy
from mpmath import iv
# C40 applied to the interval context's mpf/mpc (iv.mpf, iv.mpc) and its constants
cases = [("iv.mpf([1,2])", iv.mpf([1, 2])), ("iv.mpc(1,2)", iv.mpc(1, 2)),
         ("iv.inf", iv.inf), ("iv.pi", iv.pi)]
ops = [("pickle proto %d" % p, (lambda p: lambda v: pickle.loads(pickle.dumps(v, p)))(p))
       for p in range(pickle.HIGHEST_PROTOCOL + 1)] + [("copy.copy", copy.copy), ("copy.deepcopy", copy.deepcopy)]
bad = 0
for label, x in cases:
    for name, op in ops:
        try:
            y = op(x)
            raw = lambda v: getattr(v, "_mpi_", None) or v._mpci_
            ok = type(y) is type(x) and raw(y) == raw(x)
            obs = repr(y)
        except Exception as e:
            ok = False; obs = "%s: %s" % (type(e).__name__, e)
        if not ok:
            bad += 1
            print("input   : %s, %s" % (label, name))
            print("observed:", obs)
            print("expected:", repr(x), "of", type(x))
sys.exit(1 if bad else 0)
