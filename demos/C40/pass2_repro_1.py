# C40 violation 1: a matrix holding a "constant" entry (pi, e, eps, ...) cannot be pickled
# or deep-copied; the constants themselves cannot be pickled, copied or deep-copied.
import sys, os; sys.path.insert(0, os.getcwd())
import pickle, copy
from mpmath import matrix, pi
A = matrix([[pi, 1], [0, 2]])      # entry (0,0) is stored as the 'constant' object itself
print("inputs: x = pi,  A = matrix([[pi, 1], [0, 2]]), entry types",
      [type(v).__name__ for v in A])
cases = [("copy.copy(A)", A, lambda: copy.copy(A)), ("copy.deepcopy(A)", A, lambda: copy.deepcopy(A)),
         ("copy.copy(pi)", pi, lambda: copy.copy(pi)), ("copy.deepcopy(pi)", pi, lambda: copy.deepcopy(pi))]
for p in range(pickle.HIGHEST_PROTOCOL + 1):
    cases.append(("pickle A, protocol %d" % p, A, lambda p=p: pickle.loads(pickle.dumps(A, p))))
    cases.append(("pickle pi, protocol %d" % p, pi, lambda p=p: pickle.loads(pickle.dumps(pi, p))))
bad = 0
for name, x, f in cases:
    try:
        y = f()
        ok = type(y) is type(x) and repr(y) == repr(x) and y == x
        print("%-22s observed: %s" % (name, "equal object of the same type" if ok else repr(y)))
    except Exception as ex:
        ok = False
        print("%-22s observed: %s: %s" % (name, type(ex).__name__, ex))
    bad += not ok
print("expected: each operation returns an equal object of the same type with the same repr")
print("violations: %d of %d" % (bad, len(cases)))
sys.exit(1 if bad else 0)
