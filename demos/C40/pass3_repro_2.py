import sys, os; sys.path.insert(0, os.getcwd())
import pickle, copy
from mpmath import mp, MPContext
# C40: "All mpf/mpc values ... all pickle protocols" -- values of a second mp context
ctx = mp.clone()          # same with MPContext()
cases = [("mp.clone().mpf(1)/3", ctx.mpf(1)/3, lambda v: v._mpf_),
         ("mp.clone().mpc(1,2)", ctx.mpc(1, 2), lambda v: v._mpc_),
         ("mp.clone().matrix([[1,2]])", ctx.matrix([[1, 2]]), lambda v: v.tolist()),
         ("MPContext().inf", MPContext().inf, lambda v: v._mpf_)]
bad = 0
for label, x, raw in cases:
    for proto in range(pickle.HIGHEST_PROTOCOL + 1):
        try:
            y = pickle.loads(pickle.dumps(x, proto))
            ok = type(y) is type(x) and raw(y) == raw(x)
            obs = "%r of %r" % (y, type(y))
        except Exception as e:
            ok = False; obs = "%s: %s" % (type(e).__name__, e)
        if not ok:
            bad += 1
            print("input   :", label, "protocol", proto)
            print("observed:", obs)
            print("expected:", repr(x), "of", type(x))
sys.exit(1 if bad else 0)
