import sys, os; sys.path.insert(0, os.getcwd())
import pickle, copy
from mpmath import matrix, mpc, nan
# A matrix with a nan entry: copy.copy compares equal to the original, the pickle copy does not
bad = 0
for label, A in [("matrix([[nan, 1]])", matrix([[nan, 1]])), ("matrix([[mpc(1,nan)]])", matrix([[mpc(1, nan)]]))]:
    print("input   :", label, " A == A:", A == A, " copy.copy(A) == A:", copy.copy(A) == A)
    for proto in range(pickle.HIGHEST_PROTOCOL + 1):
        B = pickle.loads(pickle.dumps(A, proto))
        same_repr = repr(B) == repr(A)
        eq = (B == A)
        if not (eq and same_repr):
            bad += 1
            print("observed: protocol %d: loads(dumps(A)) == A is %s (same repr: %s)" % (proto, eq, same_repr))
            print("expected: True (the statement: 'compare equal to ... the original')")
    D = copy.deepcopy(A)
    if not (D == A):
        bad += 1; print("observed: copy.deepcopy(A) == A is False; expected True")
sys.exit(1 if bad else 0)
