import sys, os; sys.path.insert(0, os.getcwd())
import pickle, copy
from mpmath import matrix
# copy.copy / .copy() of an instance of a matrix subclass returns the base class
class LabelledMatrix(matrix):
    pass
A = LabelledMatrix([[1, 2], [3, 4]])
bad = 0
for name, op in [("copy.copy", copy.copy), ("A.copy()", lambda v: v.copy()),
                 ("copy.deepcopy", copy.deepcopy), ("pickle", lambda v: pickle.loads(pickle.dumps(v)))]:
    B = op(A)
    print("input   : %s of a %s" % (name, type(A).__name__))
    print("observed: type %s, equal: %s" % (type(B).__name__, B == A))
    print("expected: type %s" % type(A).__name__)
    if type(B) is not type(A):
        bad += 1
sys.exit(1 if bad else 0)
