# C40 violation 3: copy.copy / .copy() of an instance of a matrix subclass returns the
# base class (pickle and deepcopy keep the subclass; mpf subclasses are kept by copy.copy).
import sys, os; sys.path.insert(0, os.getcwd())
import copy, pickle
from mpmath import matrix
class MyMatrix(matrix):
    pass
A = MyMatrix([[1, 2], [3, 4]])
print("input:", type(A).__name__, A.tolist())
res = {"copy.copy": type(copy.copy(A)), ".copy()": type(A.copy()),
       "copy.deepcopy": type(copy.deepcopy(A)), "pickle": type(pickle.loads(pickle.dumps(A)))}
bad = 0
for k, t in res.items():
    print("%-14s observed type %-10s expected MyMatrix" % (k, t.__name__))
    bad += t is not MyMatrix
print("violations:", bad)
sys.exit(1 if bad else 0)
