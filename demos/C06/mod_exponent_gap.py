# C06 violation 1: x % y fails (MemoryError) for finite operands with a huge exponent gap
import sys, os; sys.path.insert(0, os.getcwd())
import resource
resource.setrlimit(resource.RLIMIT_AS, (2 * 2**30, 2 * 2**30))  # keep the failure harmless
from mpmath import mp, mpf, ldexp, frac, fmod
mp.prec = 53
cases = [
    ("2**(10**12) % 3",      lambda: ldexp(1, 10**12) % 3,       mpf(1)),   # 2**even = 1 (mod 3)
    ("fmod(2**(10**12), 3)", lambda: fmod(ldexp(1, 10**12), 3),  mpf(1)),
    ("-2**(-10**12) % 1",    lambda: ldexp(-1, -10**12) % 1,     frac(ldexp(-1, -10**12))),  # = RN(1 - 2**-1e12) = 1.0
    ("2**(-10**12) % -3",    lambda: ldexp(1, -10**12) % -3,     mpf(-3)),  # RN(-3 + 2**-1e12)
]
fail = 0
for name, f, expected in cases:
    try:
        got = f()
    except BaseException as e:
        got = "raised " + repr(e)
    ok = (not isinstance(got, str)) and got == expected
    fail += not ok
    print("%-22s observed: %-22s expected: %s  %s" % (name, got, expected, "ok" if ok else "VIOLATION"))
sys.exit(1 if fail else 0)
