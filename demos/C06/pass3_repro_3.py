# exact rational / decimal-string operands are rounded to the working precision before the
# integer-part function or the modulo is applied (DEBATABLE: input conversion)
import sys, os; sys.path.insert(0, os.getcwd())
from fractions import Fraction
from mpmath import mp, mpf, rational
mp.prec = 53
bad = 0
q = Fraction(2**60 - 1, 2**60)          # 0 < q < 1
print("floor(q) =", mp.floor(q), "expected 0"); bad += mp.floor(q) != 0
print("frac(q)  =", mp.frac(q), "expected 1.0 rounded from below, floor must be 0")
q2 = Fraction(2**60 + 1, 2**60)         # 1 < q2 < 2
print("ceil(q2) =", mp.ceil(q2), "expected 2"); bad += mp.ceil(q2) != 2
print("floor('0.99999999999999999999') =", mp.floor('0.99999999999999999999'), "expected 0")
bad += mp.floor('0.99999999999999999999') != 0
r = mpf(7) % Fraction(1, 3)             # 7 = 21 * (1/3) exactly
print("mpf(7) % Fraction(1,3) =", r, "expected 0"); bad += r != 0
r2 = rational.mpq(22, 3) % mpf(2)       # exact value 4/3
print("mpq(22,3) % mpf(2) =", repr(r2), "expected", repr(mpf(4)/3)); bad += r2 != mpf(4)/3
sys.exit(1 if bad else 0)
