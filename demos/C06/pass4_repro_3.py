import sys, os; sys.path.insert(0, os.getcwd())
# "magnitude below |y|" / "frac(x) lies in [0,1)" fail when the exact result y-tiny is rounded up to y.
from mpmath import mp, mpf, frac, fmod
mp.prec = 53
bad = 0
x = -mpf(2)**-60
tests = [("(-2**-60) % 3", x % 3, lambda r: 0 <= r < 3),
         ("(2**-60) % -3", (-x) % -3, lambda r: -3 < r <= 0),
         ("fmod(-2**-60, 1)", fmod(x, 1), lambda r: 0 <= r < 1),
         ("frac(-2**-60)", frac(x), lambda r: 0 <= r < 1),
         ("frac(mpc(-2**-60, -2**-60)).imag", frac(mp.mpc(x, x)).imag, lambda r: 0 <= r < 1)]
for label, got, ok in tests:
    good = ok(got)
    if not good: bad += 1
    print("%-36s = %s   expected a value strictly inside the range%s" % (label, got, "" if good else "  <-- VIOLATION"))
mp.prec = 53
print("violations:", bad)
sys.exit(1 if bad else 0)
