# round(), math.floor(), math.ceil() of an mpf go through a Python float (DEBATABLE: not in the list of C06)
import sys, os; sys.path.insert(0, os.getcwd())
import math
from mpmath import mp, mpf
mp.prec = 100
bad = 0
x = mpf(2)**70 + 1                 # exact integer at 100 bits
print("round(2**70+1)      ->", round(x), "expected", 2**70 + 1); bad += round(x) != 2**70 + 1
y = mpf(3.5) - mpf(2)**-60         # 3.4999999999999999991...
print("round(3.5-2**-60)   ->", round(y), "expected 3 ; nint gives", mp.nint(y)); bad += round(y) != 3
z = mpf(3) - mpf(2)**-60
print("math.floor(3-2**-60) ->", math.floor(z), "expected 2 ; floor gives", mp.floor(z)); bad += math.floor(z) != 2
w = mpf(2) + mpf(2)**-60
print("math.ceil(2+2**-60)  ->", math.ceil(w), "expected 3 ; ceil gives", mp.ceil(w)); bad += math.ceil(w) != 3
try:
    print("round(mpf('1e400'))", round(mpf('1e400')))
except OverflowError as e:
    print("round(mpf('1e400')) raises OverflowError:", e); bad += 1
sys.exit(1 if bad else 0)
