import sys, os; sys.path.insert(0, os.getcwd())
# floor/ceil/nint of an exact rational input (mpq, Fraction) are not the exact integer:
# the operand is rounded to the working precision BEFORE the integer part is taken.
import math
from fractions import Fraction
from mpmath import mp, floor, ceil, nint, frac
from mpmath.rational import mpq
mp.prec = 53
bad = 0
x = Fraction(3*10**20 - 1, 10**20)            # 2.99999999999999999999
t = Fraction(5, 2) + Fraction(1, 10**20)      # just above the tie 2.5
cases = [("floor", floor, x, 2), ("floor", floor, mpq(x.numerator, x.denominator), 2),
         ("ceil", ceil, -x, -2), ("ceil", ceil, mpq(-x.numerator, x.denominator), -2),
         ("nint", nint, t, 3), ("nint", nint, mpq(t.numerator, t.denominator), 3),
         ("nint", nint, -t, -3)]
for name, f, arg, want in cases:
    got = f(arg)
    flag = "" if got == want else "   <-- VIOLATION"
    if got != want: bad += 1
    print("%s(%r) = %s, expected %s%s" % (name, arg, got, want, flag))
# same mechanism through the decimal-string entry point
got = floor('2.99999999999999999999'); print("floor('2.99999999999999999999') =", got, "expected 2")
print("violations:", bad)
sys.exit(1 if bad else 0)
