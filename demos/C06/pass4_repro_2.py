import sys, os; sys.path.insert(0, os.getcwd())
# x % y and fmod(x, y) with an exact rational divisor (mpq / Fraction): y is rounded to the
# working precision first, so the result is x mod round(y), not the rounded value of x mod y.
import math
from fractions import Fraction
from mpmath import mp, mpf, fmod
from mpmath.rational import mpq
mp.prec = 53
bad = 0
def exact_mod(x, y): return x - y*math.floor(x/y)
for X, Y in [(10, Fraction(1, 3)), (1000, Fraction(1, 7)), (-10, Fraction(1, 3)), (2**40, Fraction(1, 3))]:
    want = exact_mod(Fraction(X), Y)                 # exact rational result
    g1 = mpf(X) % mpq(Y.numerator, Y.denominator)
    g2 = mpf(X) % Y
    g3 = fmod(X, Y)
    for label, g in (("mpf(%d) %% mpq(%s)" % (X, Y), g1), ("mpf(%d) %% Fraction(%s)" % (X, Y), g2), ("fmod(%d, Fraction(%s))" % (X, Y), g3)):
        w = mpf(want.numerator) / want.denominator   # correctly rounded expected value
        ok = (g == w)
        if not ok: bad += 1
        print("%-36s = %-24s expected %s (= %s)%s" % (label, g, w, want, "" if ok else "  <-- VIOLATION"))
print("violations:", bad)
sys.exit(1 if bad else 0)
