# C06 violation 2: frac(x) and x % y leave their half-open range (result == 1 resp. == y)
import sys, os; sys.path.insert(0, os.getcwd())
from mpmath import mp, mpf, mpc, frac, fmod
mp.prec = 53
x = mpf(-1e-30)
fail = 0
r = frac(x)
print("frac(%s) = %s   expected a value in [0, 1)" % (x, r)); fail += not (0 <= r < 1)
r = frac(mpc(x, x))
print("frac(mpc(x, x)) = %s   expected both parts in [0, 1)" % r); fail += not (0 <= r.real < 1 and 0 <= r.imag < 1)
for y in (mpf(1), mpf(3), mpf(0.1)):
    r = x % y
    print("%s %% %s = %s   expected |r| < |y|   (r == y: %s)" % (x, y, r, r == y)); fail += not (abs(r) < abs(y))
    r = (-x) % (-y)
    print("%s %% %s = %s   expected |r| < |y|   (r == y: %s)" % (-x, -y, r, r == -y)); fail += not (abs(r) < abs(y))
r = fmod(x, 1)
print("fmod(%s, 1) = %s" % (x, r)); fail += not (abs(r) < 1)
# smallest trigger: any negative x with |x| <= 2**-(prec+1) under round-to-nearest
r = frac(-mpf(2)**-54)
print("frac(-2**-54) = %s" % r); fail += not (r < 1)
print("violations:", fail)
sys.exit(1 if fail else 0)
