# frac(x) == 1 and x % y == y for tiny negative x (range clause vs correct-rounding clause; DEBATABLE)
import sys, os; sys.path.insert(0, os.getcwd())
from mpmath import mp, mpf
mp.prec = 53
bad = 0
x = -mpf(2)**-80
f = mp.frac(x)
print("x =", x, " frac(x) =", f, " expected a value in [0, 1)"); bad += not (0 <= f < 1)
m = x % 3
print("x % 3 =", m, " expected magnitude below 3"); bad += not (abs(m) < 3)
m2 = (-x) % -3
print("-x % -3 =", m2, " expected magnitude below 3"); bad += not (abs(m2) < 3)
m3 = mp.fmod(x, 1)
print("fmod(x, 1) =", m3, " expected magnitude below 1"); bad += not (abs(m3) < 1)
sys.exit(1 if bad else 0)
