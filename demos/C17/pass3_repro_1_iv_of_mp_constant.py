import sys, os; sys.path.insert(0, os.getcwd())
# DEBATABLE: the interval context evaluates a constant of the mp context with mp's
# round-to-nearest for BOTH bounds: the enclosure of pi is a point that excludes pi.
from mpmath import mp, iv
mp.prec = 53; iv.prec = 53
x = iv.mpf(mp.pi)            # also iv.sin(mp.pi), iv.mpf(2)*mp.pi, iv.matrix([mp.pi])
ref = iv.pi                  # [floor(pi), ceil(pi)] at 53 bits, which is correct
s = iv.sin(mp.pi)
mp.prec = 200
lo, hi, true = mp.mpf(x._mpi_[0]), mp.mpf(x._mpi_[1]), +mp.pi
print("input    : iv.mpf(mp.pi) with mp.prec = iv.prec = 53")
print("observed : [%s, %s]" % (mp.nstr(lo, 25), mp.nstr(hi, 25)))
print("expected : %s (lower <= pi = %s <= upper)" % (ref, mp.nstr(true, 25)))
print("iv.sin(mp.pi) =", s, " (expected to contain 0; iv.sin(iv.pi) =", iv.sin(iv.pi), ")")
mp.prec = 53
violated = not (lo <= true <= hi)
print("VIOLATION" if violated else "ok")
sys.exit(1 if violated else 0)
