import sys, os; sys.path.insert(0, os.getcwd())
# C17 violation 3 (fixed-point level): ln2_fixed / ln10_fixed / pi_fixed are not true floors and their value
# depends on the request history: when the memo is hit with zero spare bits the raw value (floor-1) is returned.
import math
from mpmath.libmp import ln2_fixed, ln10_fixed, pi_fixed
def floor_ln(k, P):     # independent: floor(ln(k)*2^P) via atanh series with 64 guard bits
    def ath(q, R):
        x = (1 << R)//q; s = x; j = 1
        while x: x //= q*q; j += 2; s += x//j
        return s
    R = P + 64
    v = 2*ath(3, R) if k == 2 else 6*ath(3, R) + 2*ath(9, R)
    assert 1000 < (v & ((1 << 64)-1)) < (1 << 64) - 1000   # not near an integer boundary
    return v >> 64
bad = 0
for name, f, k, p1, p2 in [("ln2_fixed", ln2_fixed, 2, 80, 94), ("ln10_fixed", ln10_fixed, 10, 40, 52)]:
    assert int(p1*1.05+10) == p2
    f(p1)                     # earlier request: memo now holds the raw value at exactly p2 bits
    a = f(p2)                 # served from the memo without any spare bits
    f(4*p2)                   # a higher request replaces the memo
    b = f(p2)                 # the same call again
    t = floor_ln(k, p2)
    print("%s(%d): after %s(%d) -> floor%+d ; after %s(%d) -> floor%+d" % (name, p2, name, p1, a-t, name, 4*p2, b-t))
    bad += (a != b) or (a != t)
print("VIOLATION: value depends on history / is not the floor" if bad else "ok")
sys.exit(1 if bad else 0)
