import sys, os; sys.path.insert(0, os.getcwd())
# A lazy constant of ANOTHER mp context, used as an operand of mpf arithmetic,
# fsum, fprod or a matrix product, is evaluated at the OTHER context's precision.
from mpmath import mp, MPContext
other = MPContext(); other.prec = 53          # e.g. "from mpmath import pi" next to a local context
mp.prec = 200
ref = mp.mpf(other.pi)                        # conversion path: evaluated in mp, 200 bits
assert ref == +mp.pi
cases = {
  "mp.mpf(1)*other.pi":      lambda: mp.mpf(1)*other.pi,
  "mp.mpf(0)+other.pi":      lambda: mp.mpf(0)+other.pi,
  "mp.fsum([other.pi])":     lambda: mp.fsum([other.pi]),
  "mp.fprod([other.pi])":    lambda: mp.fprod([other.pi]),
  "(matrix([[1]])*other.pi)[0]": lambda: (mp.matrix([[1]])*other.pi)[0],
  "mp.mpc(1,0)*other.pi (control)": lambda: (mp.mpc(1,0)*other.pi).real,
  "mp.fmul(other.pi,1) (control)":  lambda: mp.fmul(other.pi, 1),
}
bad = 0
print("mp.prec = 200, other.prec = 53; expected every result == pi rounded to 200 bits")
print("expected:", mp.nstr(ref, 40))
for k, f in cases.items():
    v = f(); err = abs(v - ref)
    print("%-34s observed %s  |err| = %s" % (k, mp.nstr(v, 40), mp.nstr(err, 3)))
    if err > mp.ldexp(1, -197): bad += 1
other.prec = 30                                # the result follows a precision request made elsewhere
print("after other.prec = 30: mp.mpf(1)*other.pi =", mp.nstr(mp.mpf(1)*other.pi, 40))
print("violations:", bad)
sys.exit(1 if bad else 0)
