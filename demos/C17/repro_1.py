import sys, os; sys.path.insert(0, os.getcwd())
# C17 violation 1: apery with floor rounding lies ABOVE zeta(3) (and ceiling is > 1 ulp off) after an
# earlier request at a lower precision; the same call gives a different value after a higher-precision request.
from mpmath import mp, mpf
from mpmath.libmp import mpf_apery, mpf_cmp, mpf_sub, to_str
P1, P = 16598, 17438            # int((P1+20)*1.05+10) == P+20 : memo is hit with zero spare bits
mpf_apery(P1, 'n')              # earlier request (first apery evaluation in this process)
lo1 = mpf_apery(P, 'f'); hi1 = mpf_apery(P, 'c')   # floor / ceiling at P bits, served from the memo
ref = mpf_apery(3*P, 'n')       # reference at 52314 bits (also replaces the memo)
lo2 = mpf_apery(P, 'f'); hi2 = mpf_apery(P, 'c')   # identical calls, later in the history
ulp = (0, 1, lo2[2] + lo2[3] - P, 1)   # 2**(1-P): one unit in the last place of a P-bit number in [1,2)
def ulps(a, b): 
    mp.prec = 60; return mpf(mpf_sub(a, b, 60, 'n')) / mpf(ulp)
print("apery, prec=%d, after a first request at prec=%d" % (P, P1))
print(" floor   - zeta(3) = %s ulp  (expected in (-1, 0])" % ulps(lo1, ref))
print(" ceiling - zeta(3) = %s ulp  (expected in [0, 1))" % ulps(hi1, ref))
print(" same calls after a 52314-bit request: floor %s ulp, ceiling %s ulp" % (ulps(lo2, ref), ulps(hi2, ref)))
print(" floor value history-independent:", lo1 == lo2, "; ceiling value history-independent:", hi1 == hi2)
bad = mpf_cmp(lo1, ref) > 0 or ulps(hi1, ref) >= 1 or lo1 != lo2 or hi1 != hi2
print("VIOLATION" if bad else "ok")
sys.exit(1 if bad else 0)
