import sys, os; sys.path.insert(0, os.getcwd())
# C17 violation 2: degree = pi/180 is NOT correctly rounded (round-to-nearest) at prec = 144489.
# degree ~ 2^-5.84, so of the 20 spare bits in def_mpf_constant only 15 survive; the bits after
# position 144489 of pi/180 are 1 000000000000000 0101..., the truncated value is an exact tie,
# ties-to-even rounds DOWN although the true value is above the midpoint.
from mpmath.libmp import mpf_degree, mpf_pi, mpf_div, from_int, mpf_sub, mpf_abs, mpf_cmp, to_str
P = 144489
obs = mpf_degree(P, 'n')
lo = mpf_degree(P, 'f'); hi = mpf_degree(P, 'c')          # neighbouring P-bit numbers
ref = mpf_div(mpf_pi(2*P), from_int(180), 2*P)            # pi/180 to 288978 bits
dlo = mpf_abs(mpf_sub(ref, lo, 200)); dhi = mpf_abs(mpf_sub(hi, ref, 200))
nearest = lo if mpf_cmp(dlo, dhi) < 0 else hi
ulp = mpf_sub(hi, lo)
print("degree, prec =", P, "rounding = 'n'")
print(" |true - floor| / ulp   =", to_str(mpf_div(dlo, ulp, 60), 25))
print(" |ceiling - true| / ulp =", to_str(mpf_div(dhi, ulp, 60), 25))
print(" observed == floor:", obs == lo, "; observed == ceiling:", obs == hi, "; expected:", "floor" if nearest == lo else "ceiling")
bad = obs != nearest
print("VIOLATION: not correctly rounded" if bad else "ok")
sys.exit(1 if bad else 0)
