import sys, os; sys.path.insert(0, os.getcwd())
import mpmath
from mpmath.libmp import libelefun as le, gammazeta as gz
from mpmath.libmp.backend import MPZ
from fractions import Fraction
import math

FIXED = {
 'pi': le.pi_fixed, 'e': le.e_fixed, 'ln2': le.ln2_fixed, 'ln10': le.ln10_fixed, 'phi': le.phi_fixed,
 'euler': gz.euler_fixed, 'catalan': gz.catalan_fixed, 'apery': gz.apery_fixed,
 'khinchin': gz.khinchin_fixed, 'glaisher': gz.glaisher_fixed, 'twinprime': gz.twinprime_fixed,
 'mertens': gz.mertens_fixed,
}
MPF = {
 'pi': le.mpf_pi, 'e': le.mpf_e, 'ln2': le.mpf_ln2, 'ln10': le.mpf_ln10, 'phi': le.mpf_phi, 'degree': le.mpf_degree,
 'euler': gz.mpf_euler, 'catalan': gz.mpf_catalan, 'apery': gz.mpf_apery,
 'khinchin': gz.mpf_khinchin, 'glaisher': gz.mpf_glaisher, 'twinprime': gz.mpf_twinprime,
 'mertens': gz.mpf_mertens,
}
def raw(g):
    """inner un-memoized function of a constant_memo wrapper"""
    for c in g.__closure__:
        if callable(c.cell_contents):
            return c.cell_contents
def reset(name=None):
    for n, g in FIXED.items():
        if name is None or n == name:
            f = raw(g); f.memo_prec = -1; f.memo_val = None
def setmemo(name, M):
    """simulate: fresh process where first request lands newprec == M"""
    f = raw(FIXED[name]); f.memo_val = f(M); f.memo_prec = M

# ---------- independent oracles (pure python ints) ----------
def isqrt(n): return math.isqrt(n)
def atan_inv(q, P, hyp=False):
    # floor-ish of atan(1/q)*2^P or atanh(1/q), error few units
    x = (1 << P)//q; s = x; q2 = q*q; k = 1; sign = 1
    while x:
        x //= q2; k += 2
        if hyp: s += x//k
        else:
            sign = -sign; s += sign*(x//k)
    return s
def oracle(name, Q):
    """integer V with |V - c*2^Q| < 2^-20 (V computed with 64 guard bits, then kept as (V,Q+64))"""
    G = 64; R = Q+G
    if name == 'pi':
        v = 4*(44*atan_inv(57,R) + 7*atan_inv(239,R) - 12*atan_inv(682,R) + 24*atan_inv(12943,R))
    elif name == 'e':
        s = 0; t = 1 << R; k = 1
        while t:
            s += t; t //= k; k += 1
        v = s
    elif name == 'ln2':
        v = 2*atan_inv(3, R, True)
    elif name == 'ln10':
        v = 6*atan_inv(3, R, True) + 2*atan_inv(9, R, True)
    elif name == 'phi':
        v = (isqrt(5 << (2*R)) + (1 << R)) >> 1
    elif name == 'degree':
        v = oracle('pi', Q)[0]//180
    else:
        # mpmath at much higher precision, fresh memo, restored afterwards
        g = FIXED[name]; f = raw(g)
        v = f(R + 100) >> 100
    return v, R   # |v - c*2^R| < 2^40 comfortably

def rnd_int(x, R, p, mode):
    """round positive x/2^R to p bits; return Fraction"""
    bc = x.bit_length(); sh = bc - p
    if sh <= 0: return Fraction(x, 1 << R)
    q, r = divmod(x, 1 << sh)
    if mode in 'fd': pass
    elif mode in 'cu': q += (r > 0)
    else:
        h = 1 << (sh-1)
        if r > h or (r == h and q & 1): q += 1
    return Fraction(q << sh, 1 << R)

def expected(V, R, p, mode, E=1<<44):
    a = rnd_int(V-E, R, p, mode); b = rnd_int(V+E, R, p, mode)
    return a if a == b else None   # None = ambiguous at this oracle precision

def tofrac(t):
    sign, man, exp, bc = t
    v = Fraction(int(man)) * (Fraction(2)**exp)
    return -v if sign else v
def ulp(V, R, p):
    # ulp of p-bit numbers in binade of V/2^R
    bc = V.bit_length()
    return Fraction(2)**(bc - p - R)
