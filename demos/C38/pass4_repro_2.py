import sys, os; sys.path.insert(0, os.getcwd())
# C38: the lazy constant mp.pi in an operator / fsum / fprod of a clone is
# evaluated at mp's precision, so changing mp.prec changes results of the clone
# (A.convert, A.mpf(), A.fadd, A.mpc.__add__ evaluate it at the clone's precision).
from mpmath import mp
A = mp.clone(); A.prec = 200
expected = A.mpf(1) + A.pi                 # 1 + pi to 200 bits
bad = 0
for mp_prec in (53, 20):
    mp.prec = mp_prec
    for name, f in [("A.mpf(1) + mp.pi", lambda: A.mpf(1) + mp.pi),
                    ("A.fsum([1, mp.pi])", lambda: A.fsum([1, mp.pi])),
                    ("A.fprod([mp.pi]) + 1", lambda: A.fprod([mp.pi]) + 1),
                    ("A.fadd(1, mp.pi)   (reference path)", lambda: A.fadd(1, mp.pi)),
                    ("A.mpc(1) + mp.pi   (reference path)", lambda: (A.mpc(1) + mp.pi).real)]:
        v = f()
        ok = (v == expected)
        if not ok and 'reference' not in name: bad += 1
        print("mp.prec=%-3d A.prec=200  %-38s = %s  %s" % (mp_prec, name, A.nstr(v, 40),
              "ok" if ok else "WRONG (error 2^%d)" % A.mag(v - expected)))
mp.prec = 53
print("expected in every line:", A.nstr(expected, 40))
sys.exit(1 if bad else 0)
