import sys, os; sys.path.insert(0, os.getcwd())
# C38 (debatable): copy.copy(ctx) silently yields a context that shares the
# precision cell (_prec_rounding / _prec list) and the number classes with the
# original; setting the precision of the copy changes results of the original.
import copy
from mpmath import mp, iv
d = copy.copy(mp)
before = mp.mpf(1) / 3
d.prec = 100
after = mp.mpf(1) / 3
print("mp.prec reported: %d;  d = copy.copy(mp); d.prec = 100" % mp.prec)
print("mp.mpf(1)/3 before: %d-bit mantissa, after: %d-bit mantissa (expected 53)" % (before.man.bit_length(), after.man.bit_length()))
e = copy.copy(iv)
e.prec = 100
print("e = copy.copy(iv); e.prec = 100  ->  iv.prec = %d (expected 53)" % iv.prec)
bad = (after != before) or iv.prec != 53
d.prec = 53; iv.prec = 53
sys.exit(1 if bad else 0)
