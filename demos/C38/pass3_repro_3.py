# C38 violation 3: functions of a clone that do not convert their arguments compute with mp's precision
import sys, os; sys.path.insert(0, os.getcwd())
from mpmath import mp
c = mp.clone(); c.prec = 200
mp.prec = 400
x, t, one, M = mp.mpf(0.75), mp.mpf(1)/3, mp.mpf(1), mp.matrix([[1, 3], [7, 9.5]])   # numbers of mp
tests = [("c.degrees(x)",           lambda x, t, one, M: c.degrees(x)),
         ("c.polyval([1,1,1], t)",  lambda x, t, one, M: c.polyval([1, 1, 1], t)),
         ("c.diff(c.exp, one)",     lambda x, t, one, M: c.diff(c.exp, one)),
         ("c.svd_r(M)[0]",          lambda x, t, one, M: c.svd_r(M, compute_uv=False)[0])]
native = (c.convert(x), c.convert(t), c.convert(one), c.matrix(M))      # the same values as numbers of c (lossless)
bad = False
for name, f in tests:
    want = f(*native)
    print("%-22s expected (operands converted to c, c.prec=200): %s" % (name, c.nstr(want, 45)))
    for mpprec in (200, 53, 20):
        mp.prec = mpprec                  # change ONLY mp; c.prec stays 200
        got = f(x, t, one, M)
        bad |= got != want
        print("    mp.prec=%3d observed %s%s" % (mpprec, c.nstr(got, 45), "" if got == want else "   <-- differs"))
print("VIOLATION: results of the clone's functions follow mp.prec" if bad else "ok")
sys.exit(1 if bad else 0)
