# C38 (debatable) 4: numbers/constants of one context used in another carry the precision of the first
import sys, os; sys.path.insert(0, os.getcwd())
from mpmath import mp, iv
c = mp.clone(); c.prec = 100; iv.prec = 100
bad = 0
for p in (53, 30):
    mp.prec = p
    a = c.mpf(mp.pi)                      # constant evaluated at mp.prec, not c.prec
    s = c.sin(mp.pi)                      # result in c depends on mp.prec
    i = iv.mpf(mp.pi)                     # point interval at mp.prec, does not contain pi
    r = mp.mpf(1)/3 + c.mpc(1, 2)/3       # object of type c.mpc, rounded to mp.prec
    exp = c.mpf(mp.mpf(1)/3) + c.mpf(1)/3
    print('mp.prec=%d: c.mpf(mp.pi)=%s (expected %s)' % (p, a, +c.pi))
    print('   c.sin(mp.pi)=%s (expected %s)' % (s, c.sin(c.pi)))
    print('   iv.mpf(mp.pi)=%s (expected to contain pi like %s)' % (i, iv.pi))
    print('   mp.mpf(1)/3 + c.mpc(1,2)/3 -> ctx is c: %s, value %s (expected real part %s = operands added at c.prec)' % (type(r).context is c, r, exp))
    bad += (a != +c.pi) + (type(r).context is c and r.real != exp)
mp.prec = 53
sys.exit(1 if bad else 0)
