# fp results depend on mp.prec: fp.siegelz / fp.zeta (Riemann-Siegel range) read the
# lazy constant mp.pi at whatever precision mp happens to have.
import sys, os; sys.path.insert(0, os.getcwd())
import subprocess
code = ("import sys, os; sys.path.insert(0, os.getcwd())\n"
        "from mpmath import mp, fp\n"
        "mp.prec = int(sys.argv[1])\n"
        "print(repr(fp.siegelz(1e5)), repr(fp.zeta(complex(0.5, 1e5))), mp.prec)\n")
res = {}
for p in (53, 400, 5, 1):
    out = subprocess.check_output([sys.executable, '-c', code, str(p)]).decode().split()
    res[p] = out
    print("mp.prec = %3d  ->  fp.siegelz(1e5) = %s   fp.zeta(0.5+1e5j) = %s" % (p, out[0], out[1]))
from mpmath import mp
c = mp.clone(); c.prec = 150
exact = c.siegelz(100000)
print("oracle (clone at 150 bits): Z(1e5) =", c.nstr(exact, 20))
for p in res:
    print("  mp.prec=%3d: relative error of fp.siegelz(1e5) = %s" % (p, c.nstr(abs(c.mpf(float(res[p][0])) - exact)/abs(exact), 3)))
print("expected: the fp result is the same for every mp.prec (fp is a 53-bit context of its own)")
bad = len(set(r[0] for r in res.values())) > 1 or len(set(r[1] for r in res.values())) > 1
print("VIOLATION" if bad else "ok")
sys.exit(1 if bad else 0)
