# C38 (debatable) 5: clone() copies only prec; settings are not copied and clone numbers cannot be pickled
import sys, os, pickle; sys.path.insert(0, os.getcwd())
from mpmath import mp
mp.trap_complex = True; mp.pretty = True
c = mp.clone()
print('mp.trap_complex=%s mp.pretty=%s ; clone: trap_complex=%s pretty=%s (expected equal)' % (mp.trap_complex, mp.pretty, c.trap_complex, c.pretty))
try: m = mp.sqrt(-1)
except Exception as e: m = type(e).__name__
try: k = c.sqrt(-1)
except Exception as e: k = type(e).__name__
print('sqrt(-1): mp ->', m, '; clone ->', k)
bad = (m != k) + (repr(mp.mpf(1)/3) != repr(c.mpf(1)/3))
print('repr(1/3): mp ->', repr(mp.mpf(1)/3), '; clone ->', repr(c.mpf(1)/3))
mp.trap_complex = False; mp.pretty = False
for name, x in (('mp', mp.mpf(1)/3), ('clone', c.mpf(1)/3)):
    try: print('pickle', name, '->', repr(pickle.loads(pickle.dumps(x))))
    except Exception as e: print('pickle', name, '->', type(e).__name__); bad += 1
sys.exit(1 if bad else 0)
