import sys, os; sys.path.insert(0, os.getcwd())
# C38: a Bernoulli number in context A (prec 59) changes after context B,
# at another precision (33 bits), has filled the module-level bernoulli_cache.
from fractions import Fraction
import mpmath
from mpmath import mp
from mpmath.libmp import from_rational
A = mp.clone(); B = mp.clone()
A.prec = 59; B.prec = 33
n = 42
before = A.bernoulli(n)
for k in range(0, n + 1, 2):      # B computes B_0 .. B_42 at ITS precision
    B.bernoulli(k)
after = A.bernoulli(n)
p, q = mpmath.bernfrac(n)
exact = A.make_mpf(from_rational(p, q, 59, 'n'))
print("A.prec = %d, B.prec = %d, n = %d" % (A.prec, B.prec, n))
print("A.bernoulli(n) before B worked:", repr(before), before.man_exp)
print("A.bernoulli(n) after  B worked:", repr(after), after.man_exp)
print("correctly rounded B_n         :", repr(exact), exact.man_exp)
print("expected: before == after")
sys.exit(1 if before != after else 0)
