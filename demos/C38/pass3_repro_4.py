# C38 violation 4: fp functions given mp numbers return results that depend on mp.prec
import sys, os; sys.path.insert(0, os.getcwd())
from mpmath import mp, fp
mp.prec = 53
a, b, z = 2, mp.mpf(1.5), mp.mpf(0.25)   # all exactly representable as doubles
want = (fp.expjpi(0.75), fp.hyp1f1(2, 1.5, 0.25), fp.airyai(0.25))
obs = {}
for mpprec in (53, 20, 200):
    mp.prec = mpprec                      # change ONLY mp
    got = (fp.expjpi(mp.mpf(0.75)), fp.hyp1f1(a, b, z), fp.airyai(z))
    obs[mpprec] = tuple(repr(g) for g in got)
    print("mp.prec=%3d  fp.expjpi(0.75)=%r  fp.hyp1f1(2,1.5,0.25)=%r  fp.airyai(0.25)=%r" % ((mpprec,) + got))
print("expected (fp with the same values as floats): %r %r %r" % want)
bad = len(set(obs.values())) != 1
print("VIOLATION: fp results (value and even type) follow mp.prec" if bad else "ok")
sys.exit(1 if bad else 0)
