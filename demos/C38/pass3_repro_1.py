# C38 violation 1: mp.primepi2 (and clone.primepi2) depends on the precision of the iv context
import sys, os; sys.path.insert(0, os.getcwd())
from mpmath import mp, iv
mp.prec = 53
c = mp.clone()
x = 10**10
res = {}
for ivprec in (53, 10, 5):
    iv.prec = ivprec                      # change ONLY the iv context
    r, rc = mp.primepi2(x), c.primepi2(x)
    res[ivprec] = (r._mpi_, rc._mpi_)
    print("iv.prec=%3d  mp.prec=%d  mp.primepi2(10**10)=%s  clone: %s" % (ivprec, mp.prec, r, rc))
iv.prec = 53
print("expected: the same bounds [454963997.0, 455147232.0] for every iv.prec "
      "(both bounds are integers that mp computed at mp.prec = 53)")
bad = len(set(res.values())) != 1
print("VIOLATION" if bad else "ok")
sys.exit(1 if bad else 0)
