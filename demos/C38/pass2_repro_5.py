# mp.clone() copies the precision only: with mp.trap_complex = True the clone does not
# compute "the same values as mp at the same precision".  (DEBATABLE)
import sys, os; sys.path.insert(0, os.getcwd())
from mpmath import mp
mp.trap_complex = True
c = mp.clone()
def val(X):
    out = []
    for f in (lambda: X.sqrt(-2), lambda: X.log(-3), lambda: X.mpf(-8)**X.mpf(0.5), lambda: X.acos(2)):
        try: out.append(repr(f()))
        except Exception as ex: out.append("raises " + type(ex).__name__)
    return out
print("input: sqrt(-2), log(-3), (-8)**0.5, acos(2) in mp (trap_complex=True) and in c = mp.clone()")
a, b = val(mp), val(c)
print("mp   :", a, " prec", mp.prec, "trap_complex", mp.trap_complex)
print("clone:", b, " prec", c.prec, "trap_complex", c.trap_complex)
print("expected: identical behaviour")
bad = a != b
print("VIOLATION" if bad else "ok")
sys.exit(1 if bad else 0)
