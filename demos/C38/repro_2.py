# C38 violation 2: changing iv.prec changes the result of mp.primepi2 (mp.prec untouched)
import sys, os; sys.path.insert(0, os.getcwd())
from mpmath import mp, iv
mp.prec = 53
x = 10**6
iv.prec = 53
r53 = mp.primepi2(x)
iv.prec = 5
r5 = mp.primepi2(x)
iv.prec = 53
print('input: mp.primepi2(%d), mp.prec=%d both times' % (x, mp.prec))
print('expected (iv.prec=53):', r53)
print('observed (iv.prec=5) :', r5)
bad = (r53.a != r5.a) or (r53.b != r5.b)
sys.exit(1 if bad else 0)
