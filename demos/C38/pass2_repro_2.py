# A setting of mp (trap_complex) changes what fp computes: the Riemann-Siegel
# coefficients that fp.siegelz / fp.zeta need are computed inside the global mp.
import sys, os; sys.path.insert(0, os.getcwd())
from mpmath import mp, fp
t = 1e5
print("input: fp.siegelz(%r), fp.zeta(complex(0.5, %r)); only mp.trap_complex is changed" % (t, t))
mp.trap_complex = True
obs = []
for f, x in ((fp.siegelz, t), (fp.zeta, complex(0.5, t))):
    try:
        obs.append(repr(f(x)))
    except Exception as ex:
        obs.append("raises " + type(ex).__name__)
mp.trap_complex = False
exp = [repr(fp.siegelz(t)), repr(fp.zeta(complex(0.5, t)))]
print("observed with mp.trap_complex = True :", obs)
print("expected (mp.trap_complex = False)   :", exp)
print("fp has a trap_complex attribute of its own:", hasattr(fp, 'trap_complex'))
bad = obs != exp
print("VIOLATION" if bad else "ok")
sys.exit(1 if bad else 0)
