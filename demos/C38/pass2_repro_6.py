# A lazy constant of one context used in another is evaluated at the precision of the
# context it belongs to, so mp.prec decides what the clone / iv / fp compute.  (DEBATABLE)
import sys, os; sys.path.insert(0, os.getcwd())
from mpmath import mp, iv, fp
c = mp.clone(); c.prec = 100; iv.prec = 100
def run():
    return [repr(c.mpf(mp.pi)), repr(c.sin(mp.pi)), repr(2*c.mpf(1)*mp.pi), repr(iv.mpf(mp.pi)), repr(fp.mpf(mp.pi))]
print("input: c.mpf(mp.pi), c.sin(mp.pi), 2*c.mpf(1)*mp.pi, iv.mpf(mp.pi), fp.mpf(mp.pi); c.prec = iv.prec = 100")
mp.prec = 200; exp = run()
mp.prec = 10;  obs = run()
mp.prec = 53
for o, e in zip(obs, exp): print("mp.prec=10:", o, "\n   mp.prec=200:", e)
print("pi in iv.mpf(mp.pi) at mp.prec=200:", iv.pi in iv.mpf(mp.pi) or "False (point interval next to pi)")
bad = obs != exp
print("VIOLATION" if bad else "ok")
sys.exit(1 if bad else 0)
