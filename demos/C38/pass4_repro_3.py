import sys, os; sys.path.insert(0, os.getcwd())
# C38: with the same argument object and the same precision (53 bits) a clone
# of mp computes another value than mp: the step x+h is carried out by the
# context of x (mp), which does not follow the clone's raised working precision.
from mpmath import mp
A = mp.clone()
x = mp.mpf('0.75')
print("mp.prec = %d, A.prec = %d, x = mp.mpf('0.75')" % (mp.prec, A.prec))
r_mp = mp.diff(mp.exp, x)
r_A = A.diff(A.exp, x)
r_A_native = A.diff(A.exp, A.mpf(x))
t_A = A.taylor(A.exp, x, 2)
print("mp.diff(mp.exp, x)        =", r_mp)
print("A.diff(A.exp, x)          =", r_A, "   expected", r_mp)
print("A.diff(A.exp, A.mpf(x))   =", r_A_native)
print("A.taylor(A.exp, x, 2)     =", t_A, "   expected", mp.taylor(mp.exp, x, 2))
d = A.degrees(x)
print("A.degrees(x) is a number of", "mp" if type(d).context is mp else "A", "(expected A)")
sys.exit(1 if (r_A != r_mp or t_A != mp.taylor(mp.exp, x, 2)) else 0)
