# A clone's zetazero/nzeros depend on a setting of the global mp: the clone shares
# the global fp, and fp computes its Riemann-Siegel coefficients inside the global mp.
import sys, os; sys.path.insert(0, os.getcwd())
from mpmath import mp
c = mp.clone()
def run():
    out = []
    for f, n in ((c.zetazero, 100000), (c.nzeros, 100000)):
        try: out.append(repr(f(n)))
        except Exception as ex: out.append("raises " + type(ex).__name__)
    return out
print("input: c = mp.clone(); c.zetazero(100000); c.nzeros(100000)   [c.trap_complex = %s throughout]" % c.trap_complex)
mp.trap_complex = True
obs = run()
mp.trap_complex = False
exp = run()
print("observed with mp.trap_complex = True :", obs)
print("expected (mp.trap_complex = False)   :", exp)
bad = obs != exp
print("VIOLATION" if bad else "ok")
sys.exit(1 if bad else 0)
