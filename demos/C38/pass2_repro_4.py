# mp.primepi2 (and clone.primepi2) compute in the global iv at iv's precision:
# changing iv.prec changes what mp returns.  (DEBATABLE: the result is an iv interval.)
import sys, os; sys.path.insert(0, os.getcwd())
from mpmath import mp, iv
c = mp.clone()
x = 10**6
print("input: mp.primepi2(%d), clone.primepi2(%d); mp.prec = clone.prec = 53 throughout" % (x, x))
iv.prec = 53
exp = (repr(mp.primepi2(x)), repr(c.primepi2(x)))
iv.prec = 10
obs = (repr(mp.primepi2(x)), repr(c.primepi2(x)))
iv.prec = 53
print("observed with iv.prec = 10:", obs)
print("expected (iv.prec = 53)   :", exp)
bad = obs != exp
print("VIOLATION" if bad else "ok")
sys.exit(1 if bad else 0)
