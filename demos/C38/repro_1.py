# C38 violation 1: a clone of mp cannot compute what mp computes (missing _mp/_fp/_iv links)
import sys, os; sys.path.insert(0, os.getcwd())
from mpmath import mp
mp.prec = 53
c = mp.clone()
cases = [('zetazero', (1,)), ('nzeros', (50,)), ('backlunds', (30,)), ('secondzeta', (2.75,)),
         ('primepi2', (100,)), ('zeta', (0.5+30000j,)), ('siegelz', (30000,))]
bad = 0
for name, args in cases:
    expected = getattr(mp, name)(*args)
    try:
        observed = getattr(c, name)(*args)
    except Exception as e:
        observed = '%s: %s' % (type(e).__name__, e)
    ok = (str(observed) == str(expected))
    bad += not ok
    print('%s%r  prec=53\n   mp (expected): %s\n   clone (observed): %s' % (name, args, expected, observed))
print('violations:', bad, 'of', len(cases))
sys.exit(1 if bad else 0)
