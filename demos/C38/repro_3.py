# C38 violation 3: an fp result depends on what mp computed before and on mp.prec
# (bessel_zero's module-level _interval_cache is shared by all contexts)
import sys, os, subprocess; sys.path.insert(0, os.getcwd())
pre = "import sys, os; sys.path.insert(0, os.getcwd()); from mpmath import mp, fp\n"
def child(code):
    return subprocess.check_output([sys.executable, '-c', pre + code]).decode().strip()
cold = child("print(repr(fp.besseljzero(5, 2)))")
warm20 = child("mp.prec = 20; mp.besseljzero(5, 1); print(repr(fp.besseljzero(5, 2)))")
warm53 = child("mp.prec = 53; mp.besseljzero(5, 1); print(repr(fp.besseljzero(5, 2)))")
print('input: fp.besseljzero(5, 2)   (true value 12.338604197466944...)')
print('expected = fp alone (fresh interpreter)  :', cold)
print('observed after mp.besseljzero(5,1) @20bit:', warm20)
print('observed after mp.besseljzero(5,1) @53bit:', warm53)
sys.exit(1 if (cold != warm20 or cold != warm53) else 0)
