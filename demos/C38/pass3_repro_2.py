# C38 violation 2: a constant of another context is evaluated at THAT context's precision
import sys, os; sys.path.insert(0, os.getcwd())
from mpmath import mp, iv
mp.prec = 53; iv.prec = 53
c = mp.clone()
obs = {}
for cprec in (53, 10, 200):
    c.prec = cprec                        # change ONLY the clone
    obs[cprec] = (mp.mpf(c.pi)._mpf_, (mp.mpf(2)*c.pi)._mpf_, mp.cos(c.pi)._mpf_, iv.mpf(c.pi)._mpi_)
    print("c.prec=%3d  mp.mpf(c.pi)=%r  mp.mpf(2)*c.pi=%r  mp.cos(c.pi)=%r  (c.pi in iv.mpf(c.pi))... iv.mpf(c.pi)=%r"
          % (cprec, mp.mpf(c.pi), mp.mpf(2)*c.pi, mp.cos(c.pi), iv.mpf(c.pi)))
print("expected (mp.prec = 53 throughout): mp.mpf(pi) = %r, 2*pi = %r, cos(pi) = %r" % (+mp.pi, 2*mp.pi, mp.cos(mp.pi)))
bad = len(set(obs.values())) != 1 or obs[10][0] != (+mp.pi)._mpf_
print("VIOLATION: results computed in mp (prec 53 unchanged) change with the clone's precision" if bad else "ok")
sys.exit(1 if bad else 0)
