# DEBATABLE: exact root lies on a rounding tie (root has prec+1 bits): mpf_nthroot rounds the
# wrong way in round-to-nearest, whereas mpf_sqrt (with remainder test) rounds half-to-even.
import sys, os; sys.path.insert(0, os.getcwd())
from mpmath.libmp import mpf_nthroot, mpf_sqrt, mpf_pos, from_int, to_int
bad = 0
for r, n, prec in [(3, 3, 1), (7, 5, 2), (7, 3, 2), (11, 3, 3), (3, 13, 1)]:
    got = to_int(mpf_nthroot(from_int(r**n), n, prec, 'n'))
    want = to_int(mpf_pos(from_int(r), prec, 'n'))
    print("mpf_nthroot(%d**%d, %d, prec=%d, 'n'): expected round(%d)=%d, observed %d" % (r, n, n, prec, r, want, got))
    bad += (got != want)
print("for comparison mpf_sqrt(9, prec=1, 'n') =", to_int(mpf_sqrt(from_int(9), 1, 'n')))
print("violations:", bad)
sys.exit(1 if bad else 0)
