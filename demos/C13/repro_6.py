# DEBATABLE (fp context): cbrt/root of small perfect cubes are inexact in the double-precision context.
import sys, os; sys.path.insert(0, os.getcwd())
from mpmath import fp
bad = 0
for name, v, w in [("fp.cbrt(125)", fp.cbrt(125), 5.0), ("fp.root(1000,3)", fp.root(1000, 3), 10.0),
                   ("fp.root(2**70,7)", fp.root(2**70, 7), 1024.0)]:
    print("%s: expected %r, observed %r" % (name, w, v))
    bad += (v != w)
print("violations:", bad)
sys.exit(1 if bad else 0)
