# C13 violation 3: sqrt of an exact complex perfect square is not exact under directed rounding.
import sys, os; sys.path.insert(0, os.getcwd())
from mpmath import mp, mpf, mpc
mp.prec = 53
p, q = 2**20 + 1, 1
z = mpc(p*p - q*q, 2*p*q)            # (p + q i)^2, both parts exactly representable (41 and 22 bits)
assert int(z.real) == p*p - q*q and int(z.imag) == 2*p*q
bad = 0
for rnd in 'nfcdu':
    r = mp.sqrt(z, rounding=rnd)
    exact = (r.real == p and r.imag == q)
    print("sqrt(%r, rounding=%r) = %r   expected (%d + %dj) %s" % (z, rnd, r, p, q, "" if exact else "<-- inexact"))
    bad += not exact
# low precision: the real part is off by one unit: sqrt((585+i)^2) at 10 bits, round down
mp.prec = 10
r = mp.sqrt(mpc(585*585 - 1, 2*585), rounding='d')
print("prec=10: sqrt((585+1j)**2, rounding='d') =", repr(r), " expected (585 + 1j)")
bad += (r.real != 585)
print("VIOLATION" if bad else "ok")
sys.exit(1 if bad else 0)
