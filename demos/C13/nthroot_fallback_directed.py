# C13 violation 3: mpf_nthroot falls back to exp(log(x)/n) for n > 20 at moderate precision;
# under directed rounding perfect powers (even powers of two) are not returned exactly.
import sys, os; sys.path.insert(0, os.getcwd())
from mpmath.libmp import from_int, from_man_exp
from mpmath.libmp.libelefun import mpf_nthroot
fail = 0
cases = [("2**21", from_int(2**21), 21, 53, 'd', from_int(2)),
         ("2**21", from_int(2**21), 21, 53, 'f', from_int(2)),
         ("2**-63", from_man_exp(1, -63), 21, 53, 'u', from_man_exp(1, -3)),
         ("2**147", from_int(2**147), 21, 3, 'd', from_int(128)),
         ("3**25", from_int(3**25), 25, 53, 'd', from_int(3)),
         ("3**25", from_int(3**25), 25, 53, 'n', from_int(3))]   # control: nearest is exact
for name, s, n, prec, rnd, exp in cases:
    got = mpf_nthroot(s, n, prec, rnd)
    bad = got != exp
    fail |= bad
    print(("VIOLATION " if bad else "ok        ") + "mpf_nthroot(%s, %d, prec=%d, rnd=%r)" % (name, n, prec, rnd),
          "observed", got, "expected", exp)
sys.exit(int(fail))
