# root(x**n, n) for n > 20 (exp(log(x)/n) path) and x**(p/2**k) via mpf_pow are not exact
# when x has a large exponent: 1/n and log(x) carry only ~10 guard bits, regardless of |log x|.
import sys, os; sys.path.insert(0, os.getcwd())
from mpmath import mp, mpf, ldexp, root, nstr
mp.prec = 53
bad = 0
def report(name, v, w):
    global bad
    print("%s: expected %s, observed %s, error %s ulp" % (name, nstr(w, 17), nstr(v, 17), nstr((v - w)/w * 2**52, 5)))
    bad += (v != w)
report("root(2**(22*659), 22)", root(ldexp(mpf(1), 22*659), 22), ldexp(mpf(1), 659))
x = ldexp(mpf(3)**21, 21*10**6)        # exact: 3**21 has 34 bits
report("root((3*2**10**6)**21, 21)", root(x, 21), ldexp(mpf(3), 10**6))
report("root(2**(1000*1000), 1000)", root(ldexp(mpf(1), 10**6), 1000), ldexp(mpf(1), 1000))
x = ldexp(mpf(81), 4*10**6)            # (3*2**10**6)**4
report("(3*2**10**6)**4 ** 0.25", x**0.25, ldexp(mpf(3), 10**6))
report("(3*2**10**6)**4 ** 0.75", x**0.75, ldexp(mpf(27), 3*10**6))
print("violations:", bad)
sys.exit(1 if bad else 0)
