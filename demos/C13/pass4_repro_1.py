import sys, os; sys.path.insert(0, os.getcwd())
# root(x**n, n) for complex perfect powers: mp.root / mp.nthroot is inexact from ~200 bits on
from mpmath import mp, mpf, mpc, root, sqrt
from mpmath.libmp import from_int, complex_int_pow
bad = 0
mp.dps = 90                      # 302 bits
c = 10**16 + 1
x = -mpf(c)**2                   # exact: (c*j)**2, 107 bits
v = root(x, 2)
print("dps=90  root(-(10**16+1)**2, 2) =", mp.nstr(v, 25))
print("   expected exactly", c, "* j ; sqrt gives", mp.nstr(sqrt(x), 25))
if v != mpc(0, c): bad = 1
mp.prec = 300
p, q, n = 2176047663544, -240767, 7
re, im = complex_int_pow(p, q, n)          # exact Gaussian integer, both parts < 300 bits
assert max(re.bit_length(), im.bit_length()) <= 300
z = mp.make_mpc((from_int(re), from_int(im)))
v = root(z, n)
print("prec=300 root((p+qi)**7, 7) - (p+qi) =", mp.nstr(v - mpc(p, q), 5), " expected 0;",
      "mantissa bits of result:", v.real._mpf_[3], v.imag._mpf_[3])
if v != mpc(p, q): bad = 1
mp.prec = 53
v = root(mpc(2, 3), 3)
print("side remark: prec=53 root(2+3j, 3) mantissa bits:", v.real._mpf_[3], v.imag._mpf_[3])
sys.exit(bad)
